import TM.Ansi
import Props.C07
/-!
# C11 — `ANSILine(y)` re-interpreted by a fresh terminal reproduces row `y`

Property (fixed text, first half): "Feeding `ANSILine(y)` for every row into a fresh terminal of
the same size and mode reproduces the same characters and the same attributes in every cell."

The second half of C11 (the `TTYFrontend` mirror stays equal to the screen) is about the
implementation's frontend; it is checked on the Go code by the differential harness (`ttymirror`
special check) and is NOT modelled here.

Model: `TM/Style.lean` (`Style.ansiEscape` = `ANSIEscape()`, `ansiEscapeColor`, `modeSGRCode`,
`applySGR`), `TM/Ansi.lean` (`renderCells`, `renderRowANSI` = `ANSILine`, `cupRow`,
`reinterpretRow`), `TM/Parser.lean` (`next`), `TM/Run.lean` (`run`), `TM/Term.lean`
(`Term.apply`, `csiPlain`: final `m` = SGR, `H` = CUP), `TM/Screen.lean` (`Scr.put`).
Imports `Props.C07` for `abs`, `Style.valid`, `abs_injective`, `packed_refines`, `sgr_zero`, ….

Property theorems (all inputs, all sizes, both wide-character policies, every width function):

* `ansiEscape_eq`, `ansiEscape_tokens` — for EVERY style (no validity needed) the bytes of
  `ANSIEscape()` are exactly the SGR sequences `ESC [ ps m` for `ps ∈ sgrParams s`, and `next`
  reads them back as exactly the clean tokens `CSI ps m` (decimal round trip through `itoa` /
  `PState.feed`; no saturation since every parameter is `≤ 255`), consuming exactly these bytes.
* `sgrParams_spec` — the parameter lists characterised on the decoded style: `[0]`; `[0]` and one
  `[code]` per set mode; `[30+n]` / `[38,5,n]` / `[90+n]` / `[38,2,r,g,b]`; `[40+n]` / `[48,5,n]`
  / `[100+n]` / `[48,2,r,g,b]`.
* `sgr_roundtrip` — for every VALID style `s` (any subset of the 13 modes, default / palette /
  bright / RGB foreground and background: `C07.Style.valid`, which every reachable style
  satisfies by `C07.reachable_valid`) and EVERY style `s0` of the receiving terminal, applying
  the parameter lists of `s.ansiEscape` in order to `s0` gives exactly `s`, all three words.
* `exec_ansiEscape`, `run_ansiEscape` — hence any terminal that reads `s.ansiEscape` ends with
  current style `s` on its active screen and is otherwise unchanged.
* `text_roundtrip` — the text of a cell holding one printable scalar value is read back as one
  text token, and written as the same cell + continuation cells at the cursor.
* `row_roundtrip` — THE property: `reinterpretRow cw pol w h y r = r` for every row satisfying
  `RowOK` (mixed styles, wide characters, a character in the last column where the cursor is
  pinned), `y < h`, `r.length = w`.
* `other_rows_untouched` — no other row of the fresh terminal changes.

Hypotheses of `row_roundtrip`, all explicit:
* `RowOK cw r`: `rowWF r` (the row part of `Scr.inv`); continuation cells carry the style of the
  cell to their left (`contSty`; not part of `Scr.inv`, but every writer of `.cont` cells —
  `charCells` — produces it and the erasers blank whole characters; an exhaustive `#eval` search
  over 160 000 short inputs found no reachable row violating it — without it the property is
  false, since `renderCells` would emit an escape for the continuation cell but the
  re-interpretation gives it the head's style); every style is `Style.valid`; every character
  cell holds `encodeRune cp` for ONE printable scalar value `cp` with width `max (cw cp) 1` (what
  the rune-mode reader stores; cells merged by grapheme mode are outside the model's `run`).
* `y < paramMax`: the row number travels as a CSI parameter, which saturates at `2^31 - 1`.
-/
namespace TM.C11
open TM TM.C07 TM.C07.Lemmas

/-! ## Part 1 — `ANSIEscape()` as a list of SGR sequences, and their tokenisation -/

/-- `p1 ; p2 ; … ; pk` in decimal -/
def paramBytes : List Nat → Bytes
  | [] => []
  | [n] => itoa n
  | n :: m :: ns => itoa n ++ 0x3b :: paramBytes (m :: ns)

/-- `ESC [ p1 ; … ; pk F` -/
def csiSeq (ps : List Nat) (fin : UInt8) : Bytes := [0x1b, 0x5b] ++ paramBytes ps ++ [fin]

/-- what such a sequence must satisfy to be read back exactly -/
def ParamsOK (ps : List Nat) : Prop := ps ≠ [] ∧ ps.length ≤ paramCap ∧ ∀ n ∈ ps, n ≤ paramMax

/-- the SGR parameter lists `ansiEscapeColor` writes for a colour word (`bg = false`: codes 3x/9x,
    `bg = true`: 4x/10x): nothing for the default colour, else one sequence -/
def colorParams (c0 : BitVec 32) (bg : Bool) : List (List Nat) :=
  let c := c0 &&& ~~~modeBitsMask
  let hi := if bg then 40 else 30
  if c &&& colorTypeMask = colorTypeMask then
    let rgb := (c &&& maskRGB).toNat
    [[hi + 8, 2, rgb / 65536 % 256, rgb / 256 % 256, rgb % 256]]
  else if c &&& colBright = colBright then
    [[(if bg then 100 else 90) + (c &&& maskBrightIdx).toNat]]
  else
    let v := (c &&& mask256).toNat
    if c = colDefault then []
    else if v < 8 then [[hi + v]]
    else [[hi + 8, 5, v]]

/-- the `[code]` of mode bit `i` when it is set -/
def modeParamAt (s : Style) (i : Nat) : List (List Nat) :=
  if s.modeBits.testBit i then
    match modeSGRCode i with
    | some code => [[code]]
    | none => []
  else []

/-- one `[code]` per set mode, in bit order -/
def modeParams (s : Style) : List (List Nat) := (List.range 16).flatMap (modeParamAt s)

/-- the parameter lists of the SGR sequences making up `Style.ansiEscape` -/
def sgrParams (s : Style) : List (List Nat) :=
  let d := Style.default
  let modesChanged := s.modeBits ≠ d.modeBits
  let fgChanged := (s.fg &&& ~~~modeBitsMask) ≠ (d.fg &&& ~~~modeBitsMask)
  let bgChanged := (s.bg &&& ~~~modeBitsMask) ≠ (d.bg &&& ~~~modeBitsMask)
  if !modesChanged && !fgChanged && !bgChanged then [[0]]
  else
    [[0]] ++ (if modesChanged then [[0]] ++ modeParams s else []) ++
      (if fgChanged || modesChanged then colorParams s.fg false else []) ++
      (if bgChanged || modesChanged then colorParams s.bg true else [])

/-- the bytes of the SGR sequences with these parameter lists, one after the other -/
def sgrBytes (pss : List (List Nat)) : Bytes := (pss.map (csiSeq · 0x6d)).flatten

/-- the clean, unprefixed `CSI … m` token with these parameters -/
def sgrTok (ps : List Nat) : Tok := .csi 0 (ps.map Int.ofNat) true 0x6d

/-- `Tokenises bs tks rest`: repeated `next` on `bs` yields exactly the tokens `tks`, each spanning
    exactly its own bytes, and leaves `rest` unconsumed -/
inductive Tokenises : Bytes → List Tok → Bytes → Prop
  | nil (bs : Bytes) : Tokenises bs [] bs
  | cons (a bs : Bytes) (tk : Tok) (tks : List Tok) (rest : Bytes) :
      next (a ++ bs) = .tok tk a.length → Tokenises bs tks rest → Tokenises (a ++ bs) (tk :: tks) rest

/-- the same, read off the decoded colour -/
def acolorParams (bg : Bool) : AColor → List (List Nat)
  | .dflt => []
  | .idx n => if n < 8 then [[(if bg then 40 else 30) + n]] else [[(if bg then 40 else 30) + 8, 5, n]]
  | .bright n => [[(if bg then 100 else 90) + n]]
  | .rgb r g b => [[(if bg then 40 else 30) + 8, 2, r, g, b]]

/-- the effect of a list of SGR sequences (one parameter list each) on the current style -/
def applyAll (s0 : Style) (pss : List (List Nat)) : Style :=
  pss.foldl (fun s ps => applySGR s (ps.map Int.ofNat)) s0

namespace Lemmas

/-! ### decimal -/

theorem digit_toNat (d : Nat) (h : d < 10) : (UInt8.ofNat (48 + d)).toNat = 48 + d := by
  have : d = 0 ∨ d = 1 ∨ d = 2 ∨ d = 3 ∨ d = 4 ∨ d = 5 ∨ d = 6 ∨ d = 7 ∨ d = 8 ∨ d = 9 := by omega
  rcases this with h | h | h | h | h | h | h | h | h | h <;> subst h <;> decide

theorem digit_isDigit (d : Nat) (h : d < 10) : isDigit (UInt8.ofNat (48 + d)) = true := by
  have : d = 0 ∨ d = 1 ∨ d = 2 ∨ d = 3 ∨ d = 4 ∨ d = 5 ∨ d = 6 ∨ d = 7 ∨ d = 8 ∨ d = 9 := by omega
  rcases this with h | h | h | h | h | h | h | h | h | h <;> subst h <;> decide

theorem digit_ne_semi (d : Nat) (h : d < 10) : UInt8.ofNat (48 + d) ≠ 0x3b := by
  have : d = 0 ∨ d = 1 ∨ d = 2 ∨ d = 3 ∨ d = 4 ∨ d = 5 ∨ d = 6 ∨ d = 7 ∨ d = 8 ∨ d = 9 := by omega
  rcases this with h | h | h | h | h | h | h | h | h | h <;> subst h <;> decide

/-- the state after the digits of `n` have been fed -/
theorem natDigitsAux_spec (fuel : Nat) : ∀ (n : Nat), n < fuel →
    ∃ ds : Bytes, (∀ acc, natDigitsAux fuel n acc = ds ++ acc) ∧ ds ≠ [] ∧
      (∀ b ∈ ds, isDigit b = true) ∧
      (n ≤ paramMax → ∀ (st : List Int) (a b : Bool),
        ds.foldl PState.feed ⟨st, 0, a, b⟩ = ⟨st, n, true, false⟩) := by
  induction fuel with
  | zero => intro n h; omega
  | succ fuel ih =>
    intro n hn
    have hd := Nat.mod_lt n (show 0 < 10 by decide)
    by_cases h0 : n / 10 = 0
    · refine ⟨[UInt8.ofNat (48 + n % 10)], ?_, by simp, ?_, ?_⟩
      · intro acc; simp [natDigitsAux, h0]
      · intro b hb; rw [List.mem_singleton.1 hb]; exact digit_isDigit _ hd
      · intro hmax st a b
        simp only [List.foldl_cons, List.foldl_nil, PState.feed, if_neg (digit_ne_semi _ hd),
          digit_toNat _ hd]
        have : 0 * 10 + (48 + n % 10 - 48) = n := by omega
        rw [this, if_neg (by omega)]
    · obtain ⟨ds, h1, h2, h3, h4⟩ := ih (n / 10) (by omega)
      refine ⟨ds ++ [UInt8.ofNat (48 + n % 10)], ?_, by simp, ?_, ?_⟩
      · intro acc; simp [natDigitsAux, h0, h1]
      · intro b hb
        rcases List.mem_append.1 hb with hb | hb
        · exact h3 b hb
        · rw [List.mem_singleton.1 hb]; exact digit_isDigit _ hd
      · intro hmax st a b
        rw [List.foldl_append, h4 (by omega) st a b]
        simp only [List.foldl_cons, List.foldl_nil, PState.feed, if_neg (digit_ne_semi _ hd),
          digit_toNat _ hd]
        have : n / 10 * 10 + (48 + n % 10 - 48) = n := by omega
        rw [this, if_neg (by omega)]

theorem itoa_spec (n : Nat) :
    itoa n ≠ [] ∧ (∀ b ∈ itoa n, isDigit b = true) ∧
      (n ≤ paramMax → ∀ (st : List Int) (a b : Bool),
        (itoa n).foldl PState.feed ⟨st, 0, a, b⟩ = ⟨st, n, true, false⟩) := by
  obtain ⟨ds, h1, h2, h3, h4⟩ := natDigitsAux_spec (n + 1) n (by omega)
  have : itoa n = ds := by simpa [itoa] using h1 []
  rw [this]; exact ⟨h2, h3, h4⟩

/-! ### CSI tokenisation -/

theorem paramBytes_params : ∀ (ps : List Nat), ps ≠ [] → ∀ b ∈ paramBytes ps, isParamByte b = true := by
  intro ps
  induction ps with
  | nil => intro h; exact absurd rfl h
  | cons n ns ih =>
    intro _ b hb
    cases ns with
    | nil =>
      have := (itoa_spec n).2.1 b (by simpa [paramBytes] using hb)
      simp [isParamByte, this]
    | cons m ns =>
      simp only [paramBytes, List.mem_append, List.mem_cons] at hb
      rcases hb with hb | hb | hb
      · simp [isParamByte, (itoa_spec n).2.1 b hb]
      · subst hb; decide
      · exact ih (by simp) b hb

theorem paramBytes_head : ∀ (ps : List Nat), ps ≠ [] → ∃ d tl, paramBytes ps = d :: tl ∧ isDigit d = true := by
  intro ps h
  match ps, h with
  | [n], _ =>
    obtain ⟨h1, h2, _⟩ := itoa_spec n
    cases e : itoa n with
    | nil => exact absurd e h1
    | cons d tl => exact ⟨d, tl, by simp [paramBytes, e], h2 d (by simp [e])⟩
  | n :: m :: ns, _ =>
    obtain ⟨h1, h2, _⟩ := itoa_spec n
    cases e : itoa n with
    | nil => exact absurd e h1
    | cons d tl => exact ⟨d, _, by simp [paramBytes, e]; rfl, h2 d (by simp [e])⟩

theorem paramBytes_feed : ∀ (ps : List Nat) (st : List Int) (saw : Bool), ps ≠ [] →
    st.length + ps.length ≤ paramCap → (∀ n ∈ ps, n ≤ paramMax) →
    ((paramBytes ps).foldl PState.feed ⟨st, 0, false, saw⟩).finish =
      st.reverse ++ ps.map Int.ofNat := by
  intro ps
  induction ps with
  | nil => intro st saw h; exact absurd rfl h
  | cons n ns ih =>
    intro st saw _ hlen hmax
    have hn := (itoa_spec n).2.2 (hmax n (by simp))
    cases ns with
    | nil =>
      simp only [paramBytes, hn]
      simp only [List.length_cons, List.length_nil] at hlen
      simp [PState.finish, PState.push, show st.length < paramCap by omega]
    | cons m ns =>
      simp only [List.length_cons] at hlen
      simp only [paramBytes, List.foldl_append, List.foldl_cons, hn]
      have : PState.feed ⟨st, n, true, false⟩ 0x3b = ⟨(n : Int) :: st, 0, false, true⟩ := by
        simp [PState.feed, PState.push, show st.length < paramCap by omega]
      rw [this, ih ((n : Int) :: st) true (by simp) (by simp only [List.length_cons]; omega)
        (fun k hk => hmax k (by simp [hk]))]
      simp

theorem digit_not_prefix (d : UInt8) (h : isDigit d = true) :
    (d = 0x3f || d = 0x3e || d = 0x3c || d = 0x3d) = false := by
  simp only [isDigit, Bool.and_eq_true, decide_eq_true_eq, UInt8.le_iff_toNat_le] at h
  simp only [Bool.or_eq_false_iff, decide_eq_false_iff_not]
  refine ⟨⟨⟨?_, ?_⟩, ?_⟩, ?_⟩ <;> (intro e; subst e; simp at h)

theorem csiParams_run : ∀ (xs : Bytes) (p : PState) (n : Nat) (c : UInt8) (r : Bytes),
    (∀ b ∈ xs, isParamByte b = true) → isParamByte c = false →
    csiParams (xs ++ c :: r) p n = some (xs.foldl PState.feed p, c :: r, n + xs.length) := by
  intro xs
  induction xs with
  | nil => intro p n c r _ hc; simp [csiParams, hc]
  | cons b xs ih =>
    intro p n c r hx hc
    have hb : isParamByte b = true := hx b (by simp)
    simp only [List.cons_append, csiParams, hb, if_true, List.foldl_cons, List.length_cons]
    rw [ih _ _ c r (fun x hx' => hx x (by simp [hx'])) hc]
    congr 3; omega

/-- a CSI sequence made of decimal parameters and a final byte `m` or `H` is one clean token whose
    parameters are exactly the numbers written -/
theorem next_csiSeq (ps : List Nat) (fin : UInt8) (hfin : fin = 0x6d ∨ fin = 0x48) (h : ParamsOK ps)
    (rest : Bytes) :
    next (csiSeq ps fin ++ rest) = .tok (.csi 0 (ps.map Int.ofNat) true fin) (csiSeq ps fin).length := by
  obtain ⟨hne, hlen, hmax⟩ := h
  obtain ⟨d, tl, hd, hdig⟩ := paramBytes_head ps hne
  have hpar := paramBytes_params ps hne
  have hfeed := paramBytes_feed ps [] false hne (by simpa using hlen) hmax
  have hc : isParamByte fin = false := by rcases hfin with e | e <;> subst e <;> decide
  have hrun := csiParams_run (paramBytes ps) {} 2 fin rest hpar hc
  have hnp := digit_not_prefix d hdig
  have e : csiSeq ps fin ++ rest = 0x1b :: 0x5b :: (paramBytes ps ++ fin :: rest) := by
    simp [csiSeq]
  have hl : (csiSeq ps fin).length = (paramBytes ps).length + 3 := by simp [csiSeq]
  rw [e, hl]
  have hnext : next (0x1b :: 0x5b :: (paramBytes ps ++ fin :: rest)) =
      parseCSI (paramBytes ps ++ fin :: rest) 2 := by
    simp [next, isPrintableByte, parseEsc]
  rw [hnext]
  unfold parseCSI
  rw [hd] at hrun ⊢
  simp only [List.cons_append] at hrun ⊢
  simp only [hnp, Bool.false_eq_true, if_false, hrun]
  rw [← hd, hfeed]
  rcases hfin with e | e <;> subst e <;>
    simp [csiSkipParams, csiInter, isCsiParamRange, isIntermediate] <;> omega

/-! ### `ANSIEscape` as a list of SGR sequences -/

theorem itoa_small (v : Nat) (h : v < 8) :
    itoa (30 + v) = [0x33, UInt8.ofNat (48 + v)] ∧ itoa (40 + v) = [0x34, UInt8.ofNat (48 + v)] := by
  have : v = 0 ∨ v = 1 ∨ v = 2 ∨ v = 3 ∨ v = 4 ∨ v = 5 ∨ v = 6 ∨ v = 7 := by omega
  rcases this with h | h | h | h | h | h | h | h <;> subst h <;> decide

theorem sgrBytes_nil : sgrBytes [] = [] := rfl
theorem sgrBytes_append (a b : List (List Nat)) : sgrBytes (a ++ b) = sgrBytes a ++ sgrBytes b := by
  simp [sgrBytes]
theorem sgrBytes_single (ps : List Nat) : sgrBytes [ps] = csiSeq ps 0x6d := by simp [sgrBytes]

theorem ansiEscapeColor_eq (c0 : BitVec 32) (bg : Bool) :
    ansiEscapeColor c0 (if bg then 0x34 else 0x33) = sgrBytes (colorParams c0 bg) := by
  have e38 : itoa 38 = [0x33, 0x38] := by decide
  have e48 : itoa 48 = [0x34, 0x38] := by decide
  have e2 : itoa 2 = [0x32] := by decide
  have e5 : itoa 5 = [0x35] := by decide
  unfold ansiEscapeColor colorParams
  simp only []
  split
  · cases bg <;> simp [sgrBytes_single, csiSeq, paramBytes, e38, e48, e2, esc]
  · split
    · cases bg <;> simp [sgrBytes_single, csiSeq, paramBytes, esc]
    · split
      · rfl
      · split
        · next hv =>
          cases bg <;>
            simp only [sgrBytes_single, csiSeq, paramBytes, Bool.false_eq_true, if_false, if_true,
              (itoa_small _ hv).1, (itoa_small _ hv).2] <;> rfl
        · cases bg <;> simp [sgrBytes_single, csiSeq, paramBytes, e38, e48, e5, esc]

theorem flatMap_sgrBytes {α} (l : List α) (f : α → List (List Nat)) :
    sgrBytes (l.flatMap f) = l.flatMap (fun i => sgrBytes (f i)) := by
  induction l with
  | nil => rfl
  | cons a l ih => simp [List.flatMap_cons, sgrBytes_append, ih]

end Lemmas
open Lemmas

/-- `ANSIEscape()` is exactly the concatenation of the SGR sequences `sgrParams` lists -/
theorem ansiEscape_eq (s : Style) : s.ansiEscape = sgrBytes (sgrParams s) := by
  unfold Style.ansiEscape sgrParams
  simp only []
  have e0 : ([esc, 0x5b, 0x30, 0x6d] : Bytes) = sgrBytes [[0]] := by
    simp [sgrBytes_single, csiSeq, paramBytes, esc]; decide
  rw [e0]
  have hf := ansiEscapeColor_eq s.fg false
  have hb := ansiEscapeColor_eq s.bg true
  simp only [Bool.false_eq_true, if_false, if_true] at hf hb
  split
  · rfl
  · rw [sgrBytes_append, sgrBytes_append, sgrBytes_append]
    congr 1
    · congr 1
      · congr 1
        split
        · rw [sgrBytes_append]
          congr 1
          unfold modeParams
          rw [flatMap_sgrBytes]
          congr 1; funext i
          unfold modeParamAt
          split
          · split <;> rename_i heq <;> simp [heq, sgrBytes_single, csiSeq, paramBytes, esc, sgrBytes_nil]
          · rfl
        · rfl
      · split
        · exact hf
        · rfl
    · split
      · exact hb
      · rfl

namespace Lemmas

theorem and_toNat_le (a m : BitVec 32) : (a &&& m).toNat ≤ m.toNat := by
  rw [BitVec.toNat_and]; exact Nat.and_le_right

theorem paramsOK_of (ps : List Nat) (h1 : ps ≠ []) (h2 : ps.length ≤ 5) (h3 : ∀ n ∈ ps, n ≤ 300) :
    ParamsOK ps :=
  ⟨h1, by unfold paramCap; omega, fun n hn => by have := h3 n hn; unfold paramMax; omega⟩

theorem colorParams_ok (c0 : BitVec 32) (bg : Bool) : ∀ ps ∈ colorParams c0 bg, ParamsOK ps := by
  intro ps hps
  unfold colorParams at hps
  simp only [] at hps
  have h7 := and_toNat_le (c0 &&& ~~~modeBitsMask) maskBrightIdx
  have h255 := and_toNat_le (c0 &&& ~~~modeBitsMask) mask256
  have e7 : maskBrightIdx.toNat = 7 := by decide
  have e255 : mask256.toNat = 255 := by decide
  split at hps
  · rw [List.mem_singleton.1 hps]
    apply paramsOK_of _ (by simp) (by simp)
    intro n hn
    simp only [List.mem_cons, List.not_mem_nil, or_false] at hn
    cases bg <;> simp only [Bool.false_eq_true, if_false, if_true] at hn <;> omega
  · split at hps
    · rw [List.mem_singleton.1 hps]
      apply paramsOK_of _ (by simp) (by simp)
      intro n hn
      simp only [List.mem_cons, List.not_mem_nil, or_false] at hn
      cases bg <;> simp only [Bool.false_eq_true, if_false, if_true] at hn <;> omega
    · split at hps
      · cases hps
      · split at hps <;>
        · rw [List.mem_singleton.1 hps]
          apply paramsOK_of _ (by simp) (by simp)
          intro n hn
          simp only [List.mem_cons, List.not_mem_nil, or_false] at hn
          cases bg <;> simp only [Bool.false_eq_true, if_false, if_true] at hn <;> omega

theorem modeSGRCode_le (i c : Nat) (h : modeSGRCode i = some c) : c ≤ 53 := by
  unfold modeSGRCode at h
  split at h <;> cases h <;> decide

theorem modeParams_ok (s : Style) : ∀ ps ∈ modeParams s, ParamsOK ps := by
  intro ps hps
  unfold modeParams at hps
  rw [List.mem_flatMap] at hps
  obtain ⟨i, _, hi⟩ := hps
  unfold modeParamAt at hi
  split at hi
  · split at hi
    · next code hc =>
      rw [List.mem_singleton.1 hi]
      apply paramsOK_of _ (by simp) (by simp)
      intro n hn
      rw [List.mem_singleton.1 hn]
      have := modeSGRCode_le i code hc; omega
    · cases hi
  · cases hi

theorem paramsOK_zero : ParamsOK [0] := paramsOK_of _ (by simp) (by simp) (by simp)

end Lemmas
open Lemmas

theorem sgrParams_ok (s : Style) : ∀ ps ∈ sgrParams s, ParamsOK ps := by
  intro ps hps
  unfold sgrParams at hps
  simp only [] at hps
  split at hps
  · rw [List.mem_singleton.1 hps]; exact paramsOK_zero
  · simp only [List.mem_append, List.mem_singleton] at hps
    rcases hps with ((hps | hps) | hps) | hps
    · rw [hps]; exact paramsOK_zero
    · split at hps
      · simp only [List.mem_append, List.mem_singleton] at hps
        rcases hps with hps | hps
        · rw [hps]; exact paramsOK_zero
        · exact modeParams_ok s ps hps
      · cases hps
    · split at hps
      · exact colorParams_ok _ _ ps hps
      · cases hps
    · split at hps
      · exact colorParams_ok _ _ ps hps
      · cases hps

theorem tokenises_sgrBytes (pss : List (List Nat)) (h : ∀ ps ∈ pss, ParamsOK ps) (rest : Bytes) :
    Tokenises (sgrBytes pss ++ rest) (pss.map sgrTok) rest := by
  induction pss with
  | nil => exact .nil rest
  | cons ps pss ih =>
    have e : sgrBytes (ps :: pss) ++ rest = csiSeq ps 0x6d ++ (sgrBytes pss ++ rest) := by
      simp [sgrBytes]
    rw [e]
    exact .cons _ _ _ _ _ (next_csiSeq ps 0x6d (Or.inl rfl) (h ps (by simp)) _)
      (ih (fun q hq => h q (by simp [hq])))

/-! ## Part 2 — the style round trip -/

namespace Lemmas

/-! ### colour words -/

theorem colorPart_getLsbD (w : BitVec 32) (k : Nat) :
    (w &&& ~~~modeBitsMask).getLsbD k = (w.getLsbD k && !decide (24 ≤ k ∧ k < 31)) := by
  rw [BitVec.getLsbD_and, BitVec.getLsbD_not, getLsbD_modeBitsMask]
  by_cases hk : k < 32
  · simp [hk]
  · have : w.getLsbD k = false := BitVec.getLsbD_of_ge _ _ (by omega)
    simp [this]

theorem rgbFlag_iff (w : BitVec 32) :
    (w &&& ~~~modeBitsMask) &&& colorTypeMask = colorTypeMask ↔ w.getLsbD 31 = true := by
  constructor
  · intro h
    have := congrArg (fun x => BitVec.getLsbD x 31) h
    simp only [BitVec.getLsbD_and, getLsbD_colorTypeMask] at this
    cases hb : w.getLsbD 31 with
    | true => rfl
    | false => rw [hb] at this; simp at this
  · intro h
    apply BitVec.eq_of_getLsbD_eq
    intro i hi
    rw [BitVec.getLsbD_and, colorPart_getLsbD, getLsbD_colorTypeMask]
    by_cases h31 : i = 31
    · subst h31; simp [h]
    · simp [h31]

theorem rgbPayload (w : BitVec 32) : ((w &&& ~~~modeBitsMask) &&& maskRGB).toNat = payload w := by
  have e : (w &&& ~~~modeBitsMask) &&& maskRGB = w &&& maskRGB := by
    rw [BitVec.and_assoc]; congr 1
  rw [e, BitVec.toNat_and]
  show w.toNat &&& (2 ^ 24 - 1) = w.toNat % 2 ^ 24
  exact Nat.and_two_pow_sub_one_eq_mod _ _

theorem colorPart_ofNat (w : BitVec 32) (h : w.getLsbD 31 = false) :
    w &&& ~~~modeBitsMask = BitVec.ofNat 32 (payload w) := by
  apply BitVec.eq_of_getLsbD_eq
  intro i hi
  rw [colorPart_getLsbD, BitVec.getLsbD_ofNat, payload_testBit]
  by_cases h1 : i < 24
  · have : ¬ (24 ≤ i ∧ i < 31) := by omega
    simp [h1, this, hi]
  · by_cases h2 : i < 31
    · have : (24 ≤ i ∧ i < 31) := by omega
      simp [h1, this]
    · have : i = 31 := by omega
      subst this; rw [h]; decide

set_option maxRecDepth 100000 in
theorem small_words : ∀ p, p < 0x208 →
    ((BitVec.ofNat 32 p &&& colBright = colBright) ↔ 0x200 ≤ p) ∧
    (BitVec.ofNat 32 p &&& maskBrightIdx).toNat = p % 8 ∧
    (BitVec.ofNat 32 p &&& mask256).toNat = p % 256 ∧
    (BitVec.ofNat 32 p = colDefault ↔ p = 0x100) ∧
    ¬ (BitVec.ofNat 32 p &&& colorTypeMask = colorTypeMask) := by
  decide


/-- for a reachable colour word, `ansiEscapeColor`'s case analysis on the bits is the case
    analysis on the decoded colour -/
theorem colorParams_abs (w : BitVec 32) (hv : colValid w) (bg : Bool) :
    colorParams w bg = acolorParams bg (absColor w) := by
  have hp := payload_lt w
  have e24 : (2:Nat) ^ 24 = 16777216 := by decide
  unfold colorParams absColor
  simp only []
  cases h31 : w.getLsbD 31 with
  | true =>
    rw [if_pos ((rgbFlag_iff w).2 h31), rgbPayload]
    simp only [if_true, acolorParams]
    rw [Nat.mod_eq_of_lt (show payload w / 65536 < 256 by omega)]
  | false =>
    have hc := colorPart_ofNat w h31
    have hlt : payload w < 0x208 := by
      unfold colValid at hv
      rw [h31] at hv
      rcases hv with h | h | h | h
      · cases h
      all_goals omega
    obtain ⟨f1, f2, f3, f4, f5⟩ := small_words (payload w) hlt
    rw [hc, if_neg f5]
    simp only [Bool.false_eq_true, if_false, f2, f3]
    unfold colValid at hv
    rw [h31] at hv
    by_cases hb : 0x200 ≤ payload w
    · have nb : ¬ payload w = 0x100 := by omega
      have nl : ¬ payload w < 0x100 := by omega
      simp only [if_pos (f1.2 hb), nb, nl, if_false, acolorParams]
    · have nb : ¬ (BitVec.ofNat 32 (payload w) &&& colBright = colBright) := fun h => hb (f1.1 h)
      by_cases hd : payload w = 0x100
      · simp only [if_neg nb, if_pos (f4.2 hd), if_pos hd, acolorParams]
      · have nd : ¬ (BitVec.ofNat 32 (payload w) = colDefault) := fun h => hd (f4.1 h)
        have hlt2 : payload w < 0x100 := by
          rcases hv with h | h | h | h
          · cases h
          all_goals omega
        simp only [if_neg nb, if_neg nd, if_neg hd, if_pos hlt2, Nat.mod_eq_of_lt hlt2, acolorParams]

/-! ### the fold at the level of decoded styles -/

def afold (A : AStyle) (pss : List (List Nat)) : AStyle :=
  pss.foldl (fun a ps => Sgr.fold a (ps.map Int.ofNat)) A

theorem abs_applyAll (pss : List (List Nat)) : ∀ R : Style, abs (applyAll R pss) = afold (abs R) pss := by
  induction pss with
  | nil => intro R; rfl
  | cons ps pss ih =>
    intro R
    show abs (applyAll (applySGR R (ps.map Int.ofNat)) pss) = afold (Sgr.fold (abs R) (ps.map Int.ofNat)) pss
    rw [ih, packed_refines]

theorem valid_applyAll (pss : List (List Nat)) : ∀ R : Style, Style.valid R → Style.valid (applyAll R pss) := by
  induction pss with
  | nil => intro R h; exact h
  | cons ps pss ih => intro R h; exact ih _ (applySGR_valid h _)

theorem afold_append (A : AStyle) (a b : List (List Nat)) : afold A (a ++ b) = afold (afold A a) b := by
  simp [afold, List.foldl_append]

theorem afold_nil (A : AStyle) : afold A [] = A := rfl
theorem afold_single (A : AStyle) (ps : List Nat) : afold A [ps] = Sgr.fold A (ps.map Int.ofNat) := rfl

theorem fold_zero (A : AStyle) : Sgr.fold A [0] = AStyle.default := by
  simp [Sgr.fold, Sgr.simple]

theorem fold_simple (A : AStyle) (p : Int) (h : ¬ (p = 38 ∨ p = 48)) : Sgr.fold A [p] = Sgr.simple A p := by
  rw [Sgr.fold, if_neg h, Sgr.fold]

theorem fold_mode (A : AStyle) (i c : Nat) (h : modeSGRCode i = some c) :
    i < 13 ∧ Sgr.fold A [(c : Int)] = A.on (Mode.ofBit i) := by
  unfold modeSGRCode at h
  split at h <;> cases h <;> exact ⟨by decide, by rw [fold_simple _ _ (by decide)]; rfl⟩

/-- decoded colours have components in range -/
def AColor.ok : AColor → Prop
  | .dflt => True
  | .idx n => n < 256
  | .bright n => n < 8
  | .rgb r g b => r < 256 ∧ g < 256 ∧ b < 256

theorem absColor_ok (w : BitVec 32) : AColor.ok (absColor w) := by
  have hp := payload_lt w
  have e24 : (2:Nat) ^ 24 = 16777216 := by decide
  unfold absColor
  simp only []
  split
  · simp only [AColor.ok]; omega
  · split
    · trivial
    · split
      · next h => exact h
      · simp only [AColor.ok]; omega

theorem afold_color (A : AStyle) (bg : Bool) (c : AColor) (hc : AColor.ok c) :
    afold A (acolorParams bg c) =
      if c = .dflt then A else A.setColor (if bg then .bg else .fg) c := by
  cases c with
  | dflt => rfl
  | idx n =>
    simp only [AColor.ok] at hc
    simp only [acolorParams, reduceCtorEq, if_false]
    split
    · next h8 =>
      rw [afold_single]
      cases bg
      · simp only [Bool.false_eq_true, if_false, List.map_cons, List.map_nil]
        rw [fold_simple _ _ (by simp only [Int.ofNat_eq_natCast]; omega)]
        unfold Sgr.simple
        simp (disch := (simp only [Int.ofNat_eq_natCast]; omega)) only [if_neg, if_pos]
        congr 2; simp only [Int.ofNat_eq_natCast]; omega
      · simp only [if_true, List.map_cons, List.map_nil]
        rw [fold_simple _ _ (by simp only [Int.ofNat_eq_natCast]; omega)]
        unfold Sgr.simple
        simp (disch := (simp only [Int.ofNat_eq_natCast]; omega)) only [if_neg, if_pos]
        congr 2; simp only [Int.ofNat_eq_natCast]; omega
    · rw [afold_single]
      have e : ((n : Int) % 256).toNat = n := by omega
      cases bg <;> simp [Sgr.fold, Sgr.extended, e]
  | bright n =>
    simp only [AColor.ok] at hc
    simp only [acolorParams, reduceCtorEq, if_false]
    rw [afold_single]
    cases bg
    · simp only [Bool.false_eq_true, if_false, List.map_cons, List.map_nil]
      rw [fold_simple _ _ (by simp only [Int.ofNat_eq_natCast]; omega)]
      unfold Sgr.simple
      simp (disch := (simp only [Int.ofNat_eq_natCast]; omega)) only [if_neg, if_pos]
      congr 2; simp only [Int.ofNat_eq_natCast]; omega
    · simp only [if_true, List.map_cons, List.map_nil]
      rw [fold_simple _ _ (by simp only [Int.ofNat_eq_natCast]; omega)]
      unfold Sgr.simple
      simp (disch := (simp only [Int.ofNat_eq_natCast]; omega)) only [if_neg, if_pos]
      congr 2; simp only [Int.ofNat_eq_natCast]; omega
  | rgb r g b =>
    simp only [AColor.ok] at hc
    simp only [acolorParams, reduceCtorEq, if_false]
    rw [afold_single]
    have e1 : ((r : Int) % 256).toNat = r := by omega
    have e2 : ((g : Int) % 256).toNat = g := by omega
    have e3 : ((b : Int) % 256).toNat = b := by omega
    cases bg <;> simp [Sgr.fold, Sgr.extended, e1, e2, e3]

theorem modeSGRCode_some : ∀ i, i < 13 → modeSGRCode i ≠ none := by decide

theorem afold_modeParamAt (s : Style) (A : AStyle) (i : Nat) :
    afold A (modeParamAt s i) = if s.testMode i = true ∧ i < 13 then A.on (Mode.ofBit i) else A := by
  unfold modeParamAt
  show afold A (if s.testMode i = true then _ else _) = _
  by_cases ht : s.testMode i = true
  · rw [if_pos ht]
    cases hc : modeSGRCode i with
    | none =>
      have : ¬ i < 13 := fun h => modeSGRCode_some i h hc
      simp only [this, and_false, if_false]; rfl
    | some c =>
      obtain ⟨h13, hf⟩ := fold_mode A i c hc
      simp only [ht, h13, and_self, if_true]
      exact hf
  · rw [if_neg ht, if_neg (fun h => ht h.1)]; rfl

theorem afold_modes (s : Style) : ∀ (l : List Nat) (A : AStyle),
    afold A (l.flatMap (modeParamAt s)) =
      { A with modes := fun m => A.modes m || (decide (m.bit ∈ l) && s.testMode m.bit) } := by
  intro l
  induction l with
  | nil => intro A; simp [afold_nil]
  | cons i l ih =>
    intro A
    rw [List.flatMap_cons, afold_append, ih, afold_modeParamAt]
    by_cases hc : s.testMode i = true ∧ i < 13
    · rw [if_pos hc]
      simp only [AStyle.on]
      congr 1; funext m
      by_cases hm : m = Mode.ofBit i
      · simp [hm, Mode.bit_ofBit i hc.2, hc.1]
      · have : m.bit ≠ i := fun e => hm (by rw [← e, Mode.ofBit_bit])
        simp [hm, this]
    · rw [if_neg hc]
      congr 1; funext m
      by_cases hm : m.bit = i
      · have h13 : i < 13 := by rw [← hm]; exact Mode.bit_lt m
        have : s.testMode m.bit = false := by
          rw [hm]; cases h : s.testMode i with
          | false => rfl
          | true => exact absurd ⟨h, h13⟩ hc
        simp [this]
      · simp [hm]

theorem afold_modeParams (s : Style) (A : AStyle) :
    afold A (modeParams s) = { A with modes := fun m => A.modes m || s.testMode m.bit } := by
  unfold modeParams
  rw [afold_modes]
  congr 1; funext m
  have : m.bit < 16 := Nat.lt_of_lt_of_le (Mode.bit_lt m) (by decide)
  simp [this]

theorem setColor_dflt (A : AStyle) (bg : Bool) (hA : (if bg then A.bg else A.fg) = .dflt) :
    A.setColor (if bg then .bg else .fg) .dflt = A := by
  obtain ⟨f, b, m⟩ := A
  cases bg
  · simp only [Bool.false_eq_true, if_false] at hA; subst hA; rfl
  · simp only [if_true] at hA; subst hA; rfl

theorem afold_colorStep (A : AStyle) (w : BitVec 32) (hw : colValid w) (bg cond : Bool)
    (h : cond = false → absColor w = .dflt) (hA : (if bg then A.bg else A.fg) = .dflt) :
    afold A (if cond = true then colorParams w bg else []) =
      A.setColor (if bg then .bg else .fg) (absColor w) := by
  cases cond with
  | false =>
    rw [if_neg (by simp), afold_nil, h rfl, setColor_dflt A bg hA]
  | true =>
    rw [if_pos rfl, colorParams_abs w hw, afold_color _ _ _ (absColor_ok w)]
    split
    · next hd => rw [hd, setColor_dflt A bg hA]
    · rfl

theorem default_modeBits : Style.default.modeBits = 0 := by decide

theorem testMode_of_modeBits (s : Style) (h : s.modeBits = Style.default.modeBits) (j : Nat) :
    s.testMode j = false := by
  unfold Style.testMode; rw [h, default_modeBits]; exact Nat.zero_testBit j

theorem absColor_of_unchanged (w : BitVec 32)
    (h : w &&& ~~~modeBitsMask = colDefault &&& ~~~modeBitsMask) : absColor w = .dflt := by
  rw [absColor_of_colorPart_eq h]; exact absColor_default

end Lemmas
open Lemmas

/-- **the SGR sequences of `ANSIEscape()` restore the style exactly.** For every valid (reachable)
    style `s` — any subset of the 13 modes, default / palette / bright / RGB foreground and
    background — and EVERY style `s0` the receiving terminal happens to be in, applying the
    parameter lists of `s.ansiEscape` in order yields exactly `s` (all three packed words). -/
theorem sgr_roundtrip (s : Style) (hv : Style.valid s) (s0 : Style) :
    applyAll s0 (sgrParams s) = s := by
  obtain ⟨vf, vb, _, _⟩ := id hv
  -- the three tests of `ANSIEscape`
  have hmodes : s.modeBits = Style.default.modeBits → ∀ j, s.testMode j = false :=
    testMode_of_modeBits s
  have key : ∀ tl, afold AStyle.default tl = abs s → applyAll s0 ([0] :: tl) = s := by
    intro tl h
    have e : applyAll s0 ([0] :: tl) = applyAll Style.default tl := by
      show applyAll (applySGR s0 [0]) tl = _
      rw [sgr_zero]
    rw [e]
    apply abs_injective (valid_applyAll tl _ valid_default) hv
    rw [abs_applyAll, abs_default, h]
  unfold sgrParams
  simp only []
  split
  · next hD =>
    simp only [Bool.and_eq_true, Bool.not_eq_true', decide_eq_false_iff_not, ne_eq, Decidable.not_not] at hD
    obtain ⟨⟨h1, h2⟩, h3⟩ := hD
    apply key []
    rw [afold_nil]
    unfold abs AStyle.default
    rw [absColor_of_unchanged _ h2, absColor_of_unchanged _ h3]
    congr 1; funext m; exact (hmodes h1 _).symm
  · rw [show ∀ X Y Z : List (List Nat), [[0]] ++ X ++ Y ++ Z = [0] :: (X ++ Y ++ Z) from
      fun _ _ _ => by simp]
    apply key
    rw [afold_append, afold_append]
    have hA1 : afold AStyle.default (if s.modeBits ≠ Style.default.modeBits then [[0]] ++ modeParams s else []) =
        ⟨.dflt, .dflt, fun m => s.testMode m.bit⟩ := by
      split
      · rw [afold_append, afold_single]
        show afold (Sgr.fold AStyle.default [0]) _ = _
        rw [fold_zero, afold_modeParams]
        simp [AStyle.default]
      · next h =>
        rw [afold_nil]
        unfold AStyle.default
        congr 1; funext m
        exact (hmodes (Decidable.not_not.1 h) _).symm
    rw [hA1]
    rw [afold_colorStep _ s.fg vf false _ _ rfl]
    · rw [afold_colorStep _ s.bg vb true _ _ rfl]
      · rfl
      · intro h
        simp only [Bool.or_eq_false_iff, decide_eq_false_iff_not, ne_eq, Decidable.not_not] at h
        exact absColor_of_unchanged _ h.1
    · intro h
      simp only [Bool.or_eq_false_iff, decide_eq_false_iff_not, ne_eq, Decidable.not_not] at h
      exact absColor_of_unchanged _ h.1

/-- **What `ANSIEscape()` emits, read off the decoded style.** For a valid style the parameter
    lists are: `[0]`; when a mode is set, `[0]` again and one `[code]` per set mode in bit order
    (`modeSGRCode`); the foreground — nothing for default, `[30+n]` for palette `n < 8`,
    `[38,5,n]` for palette `n ≥ 8`, `[90+n]` for bright `n`, `[38,2,r,g,b]` for RGB; the
    background likewise with 40 / 48 / 100. -/
theorem sgrParams_spec (s : Style) (hv : Style.valid s) :
    sgrParams s =
      [[0]] ++ (if s.modeBits ≠ 0 then [[0]] ++ modeParams s else []) ++
        acolorParams false (absColor s.fg) ++ acolorParams true (absColor s.bg) := by
  obtain ⟨vf, vb, _, _⟩ := id hv
  have part : ∀ (w : BitVec 32) (_ : colValid w) (bg cond : Bool),
      (cond = false → w &&& ~~~modeBitsMask = colDefault &&& ~~~modeBitsMask) →
      (if cond = true then colorParams w bg else []) = acolorParams bg (absColor w) := by
    intro w hw bg cond h
    cases cond with
    | true => rw [if_pos rfl, colorParams_abs w hw]
    | false => rw [if_neg (by simp), absColor_of_unchanged w (h rfl)]; rfl
  unfold sgrParams
  simp only [default_modeBits]
  split
  · next hD =>
    simp only [Bool.and_eq_true, Bool.not_eq_true', decide_eq_false_iff_not, ne_eq, Decidable.not_not] at hD
    obtain ⟨⟨h1, h2⟩, h3⟩ := hD
    rw [if_neg (by simpa using h1), absColor_of_unchanged _ h2, absColor_of_unchanged _ h3]
    rfl
  · rw [part s.fg vf false _ (fun h => by
        simp only [Bool.or_eq_false_iff, decide_eq_false_iff_not, ne_eq, Decidable.not_not] at h
        exact h.1),
      part s.bg vb true _ (fun h => by
        simp only [Bool.or_eq_false_iff, decide_eq_false_iff_not, ne_eq, Decidable.not_not] at h
        exact h.1)]

/-! ## Part 3 — running the bytes -/

/-- `Exec cw t bs t'`: the read loop started in terminal `t` on the bytes `bs` (with any
    sufficient fuel, in particular `run`'s) ends in terminal `t'` -/
def Exec (cw : Nat → Nat) (t : Term) (bs : Bytes) (t' : Term) : Prop :=
  ∀ f, bs.length < f → ∀ evs, (runFuel cw f t bs evs).1 = t'

/-- the terminal with the current style of its active screen replaced -/
def withSty (t : Term) (s : Style) : Term := t.setScr { t.scr with sty := s }

namespace Lemmas

theorem Exec.nil (cw : Nat → Nat) (t : Term) : Exec cw t [] t := by
  intro f hf evs
  cases f with
  | zero => simp at hf
  | succ f => simp [runFuel, next]

theorem Exec.tok {cw : Nat → Nat} {t t' : Term} {a bs : Bytes} {tk : Tok}
    (h : next (a ++ bs) = .tok tk a.length) (ha : 0 < a.length)
    (h' : Exec cw (t.apply cw tk).1 bs t') : Exec cw t (a ++ bs) t' := by
  intro f hf evs
  cases f with
  | zero => simp at hf
  | succ f =>
    simp only [runFuel, h, List.drop_left]
    apply h'
    simp only [List.length_append] at hf
    omega

theorem Exec.run {cw : Nat → Nat} {t t' : Term} {bs : Bytes} (h : Exec cw t bs t') :
    (run cw t bs).1 = t' := h _ (Nat.lt_succ_self _) []

theorem withSty_sty (t : Term) (s : Style) : (withSty t s).scr.sty = s := by
  cases h : t.onAlt <;> simp [withSty, Term.setScr, Term.scr, h]

theorem withSty_withSty (t : Term) (a b : Style) : withSty (withSty t a) b = withSty t b := by
  cases h : t.onAlt <;> simp [withSty, Term.setScr, Term.scr, h]

theorem withSty_self (t : Term) : withSty t t.scr.sty = t := by
  obtain ⟨pol, main, alt, onAlt, vf, vi, vs, km, ka⟩ := t
  cases onAlt <;> rfl

theorem apply_sgrTok (cw : Nat → Nat) (t : Term) (ps : List Nat) (h : ps ≠ []) :
    (t.apply cw (sgrTok ps)).1 = withSty t (applySGR t.scr.sty (ps.map Int.ofNat)) := by
  cases ps with
  | nil => exact absurd rfl h
  | cons p ps => simp [sgrTok, Term.apply, Term.csi, Term.csiPlain, withSty]

theorem exec_sgrBytes (cw : Nat → Nat) (pss : List (List Nat)) (hok : ∀ ps ∈ pss, ParamsOK ps) :
    ∀ (t : Term) (rest : Bytes) (t' : Term),
      Exec cw (withSty t (applyAll t.scr.sty pss)) rest t' → Exec cw t (sgrBytes pss ++ rest) t' := by
  induction pss with
  | nil =>
    intro t rest t' h
    simpa [sgrBytes, applyAll, withSty_self] using h
  | cons ps pss ih =>
    intro t rest t' h
    have hps := hok ps (by simp)
    have e : sgrBytes (ps :: pss) ++ rest = csiSeq ps 0x6d ++ (sgrBytes pss ++ rest) := by
      simp [sgrBytes]
    rw [e]
    apply Exec.tok (next_csiSeq ps 0x6d (Or.inl rfl) hps _) (by simp [csiSeq])
    show Exec cw (t.apply cw (sgrTok ps)).1 _ _
    rw [apply_sgrTok cw t ps hps.1]
    apply ih (fun q hq => hok q (by simp [hq]))
    rw [withSty_sty, withSty_withSty]
    exact h

end Lemmas
open Lemmas

/-- **`ANSIEscape()` installs the style.** Whatever terminal receives `s.ansiEscape` (any current
    style, any screen content, either buffer), after reading it the current style of the active
    screen is exactly `s` and nothing else has changed; the bytes are consumed completely. -/
theorem exec_ansiEscape (cw : Nat → Nat) (s : Style) (hv : Style.valid s) (t : Term) (rest : Bytes)
    (t' : Term) (h : Exec cw (withSty t s) rest t') : Exec cw t (s.ansiEscape ++ rest) t' := by
  rw [ansiEscape_eq]
  apply exec_sgrBytes cw _ (sgrParams_ok s)
  rw [sgr_roundtrip s hv]
  exact h

theorem run_ansiEscape (cw : Nat → Nat) (s : Style) (hv : Style.valid s) (t : Term) :
    (run cw t s.ansiEscape).1 = withSty t s := by
  have := exec_ansiEscape cw s hv t [] _ (Exec.nil cw _)
  rw [List.append_nil] at this
  exact Exec.run this

/-! ## Part 4 — text -/

/-- A Unicode scalar value: exactly the code points `utf8.EncodeRune` encodes faithfully. -/
def validScalar (n : Nat) : Prop := n < 0xD800 ∨ (0xE000 ≤ n ∧ n < 0x110000)

instance (n : Nat) : Decidable (validScalar n) :=
  inferInstanceAs (Decidable (n < 0xD800 ∨ (0xE000 ≤ n ∧ n < 0x110000)))

namespace Lemmas
/-! ### UTF-8 round trip (`utf8.EncodeRune` against `utf8.DecodeRune`) -/

theorem leadLen_eq (b : UInt8) : leadLen b =
    if b.toNat < 0x80 then 1 else if b.toNat < 0xC2 then 0 else if b.toNat < 0xE0 then 2
    else if b.toNat < 0xF0 then 3 else if b.toNat < 0xF5 then 4 else 0 := by
  simp [leadLen, UInt8.lt_iff_toNat_lt]

theorem isCont_iff (b : UInt8) : isCont b = true ↔ 0x80 ≤ b.toNat ∧ b.toNat ≤ 0xBF := by
  simp [isCont, UInt8.le_iff_toNat_le]

theorem secondOk_iff (l b : UInt8) : secondOk l b = true ↔
    (if l.toNat = 0xE0 then 0xA0 else if l.toNat = 0xF0 then 0x90 else 0x80) ≤ b.toNat ∧
    b.toNat ≤ (if l.toNat = 0xED then 0x9F else if l.toNat = 0xF4 then 0x8F else 0xBF) := by
  simp only [secondOk, secondLo, secondHi, Bool.and_eq_true, decide_eq_true_eq, ← UInt8.toNat_inj,
    UInt8.le_iff_toNat_le, UInt8.toNat_ofNat]
  repeat' split
  all_goals simp at *
  all_goals omega

/-- one-byte character (ASCII) -/
theorem decodeRune_1 (b0 : UInt8) (rest : Bytes) (h : b0.toNat < 0x80) :
    decodeRune (b0 :: rest) = (b0.toNat, 1) := by
  have hl : leadLen b0 = 1 := by rw [leadLen_eq]; simp [h]
  simp [decodeRune, hl]

/-- two-byte character -/
theorem decodeRune_2 (b0 b1 : UInt8) (rest : Bytes) (h0 : 0xC2 ≤ b0.toNat ∧ b0.toNat < 0xE0)
    (h1 : 0x80 ≤ b1.toNat ∧ b1.toNat ≤ 0xBF) :
    decodeRune (b0 :: b1 :: rest) = ((b0.toNat % 32) * 64 + b1.toNat % 64, 2) := by
  have hl : leadLen b0 = 2 := by
    rw [leadLen_eq]; repeat' split
    all_goals omega
  have hs : secondOk b0 b1 = true := by
    rw [secondOk_iff]; repeat' split
    all_goals omega
  simp [decodeRune, hl, hs]

/-- three-byte character; the second byte is restricted after `E0` (no overlong forms) and after
`ED` (no surrogates) -/
theorem decodeRune_3 (b0 b1 b2 : UInt8) (rest : Bytes) (h0 : 0xE0 ≤ b0.toNat ∧ b0.toNat < 0xF0)
    (h1 : 0x80 ≤ b1.toNat ∧ b1.toNat ≤ 0xBF) (hE0 : b0.toNat = 0xE0 → 0xA0 ≤ b1.toNat)
    (hED : b0.toNat = 0xED → b1.toNat ≤ 0x9F) (h2 : 0x80 ≤ b2.toNat ∧ b2.toNat ≤ 0xBF) :
    decodeRune (b0 :: b1 :: b2 :: rest)
      = ((b0.toNat % 16) * 4096 + (b1.toNat % 64) * 64 + b2.toNat % 64, 3) := by
  have hl : leadLen b0 = 3 := by
    rw [leadLen_eq]; repeat' split
    all_goals omega
  have hs : secondOk b0 b1 = true := by
    rw [secondOk_iff]; repeat' split
    all_goals omega
  have hc : isCont b2 = true := (isCont_iff b2).2 h2
  simp [decodeRune, hl, hs, hc]

/-- four-byte character; the second byte is restricted after `F0` (no overlong forms) and after
`F4` (nothing above U+10FFFF) -/
theorem decodeRune_4 (b0 b1 b2 b3 : UInt8) (rest : Bytes) (h0 : 0xF0 ≤ b0.toNat ∧ b0.toNat < 0xF5)
    (h1 : 0x80 ≤ b1.toNat ∧ b1.toNat ≤ 0xBF) (hF0 : b0.toNat = 0xF0 → 0x90 ≤ b1.toNat)
    (hF4 : b0.toNat = 0xF4 → b1.toNat ≤ 0x8F) (h2 : 0x80 ≤ b2.toNat ∧ b2.toNat ≤ 0xBF)
    (h3 : 0x80 ≤ b3.toNat ∧ b3.toNat ≤ 0xBF) :
    decodeRune (b0 :: b1 :: b2 :: b3 :: rest)
      = ((b0.toNat % 8) * 262144 + (b1.toNat % 64) * 4096 + (b2.toNat % 64) * 64 + b3.toNat % 64, 4) := by
  have hl : leadLen b0 = 4 := by
    rw [leadLen_eq]; repeat' split
    all_goals omega
  have hs : secondOk b0 b1 = true := by
    rw [secondOk_iff]; repeat' split
    all_goals omega
  have hc2 : isCont b2 = true := (isCont_iff b2).2 h2
  have hc3 : isCont b3 = true := (isCont_iff b3).2 h3
  simp [decodeRune, hl, hs, hc2, hc3]

theorem toNat_ofNat_lt (k : Nat) (h : k < 256) : (UInt8.ofNat k).toNat = k := by
  rw [UInt8.toNat_ofNat']; omega

theorem decodeRune_encodeRune (n : Nat) (rest : Bytes) (h : validScalar n) :
    decodeRune (encodeRune n ++ rest) = (n, (encodeRune n).length) := by
  unfold validScalar at h
  unfold encodeRune
  simp only
  split
  · next h1 =>
    have hb := toNat_ofNat_lt n (by omega)
    rw [List.singleton_append, decodeRune_1 _ _ (by omega), hb]; rfl
  · split
    · next h1 h2 =>
      have hb0 := toNat_ofNat_lt (0xC0 + n / 64) (by omega)
      have hb1 := toNat_ofNat_lt (0x80 + n % 64) (by omega)
      rw [List.cons_append, List.singleton_append, decodeRune_2 _ _ _ (by omega) (by omega), hb0, hb1]
      simp only [List.length_cons, List.length_nil, Prod.mk.injEq, and_true]
      omega
    · split
      · omega
      · split
        · next h1 h2 h3 h4 =>
          have hb0 := toNat_ofNat_lt (0xE0 + n / 4096) (by omega)
          have hb1 := toNat_ofNat_lt (0x80 + n / 64 % 64) (by omega)
          have hb2 := toNat_ofNat_lt (0x80 + n % 64) (by omega)
          simp only [List.cons_append, List.nil_append]
          rw [decodeRune_3 _ _ _ _ (by omega) (by omega) (by omega) (by omega) (by omega), hb0, hb1, hb2]
          simp only [List.length_cons, List.length_nil, Prod.mk.injEq, and_true]
          omega
        · split
          · next h1 h2 h3 h4 h5 =>
            have hb0 := toNat_ofNat_lt (0xF0 + n / 262144) (by omega)
            have hb1 := toNat_ofNat_lt (0x80 + n / 4096 % 64) (by omega)
            have hb2 := toNat_ofNat_lt (0x80 + n / 64 % 64) (by omega)
            have hb3 := toNat_ofNat_lt (0x80 + n % 64) (by omega)
            simp only [List.cons_append, List.nil_append]
            rw [decodeRune_4 _ _ _ _ _ (by omega) (by omega) (by omega) (by omega) (by omega) (by omega),
              hb0, hb1, hb2, hb3]
            simp only [List.length_cons, List.length_nil, Prod.mk.injEq, and_true]
            omega
          · omega


/-- the first byte of an encoding announces its length, and is printable for a printable character -/
theorem encodeRune_head (n : Nat) (h : validScalar n) :
    ∃ b0 tl, encodeRune n = b0 :: tl ∧ leadLen b0 = tl.length + 1 ∧
      (32 ≤ n → n ≠ 127 → isPrintableByte b0 = true) := by
  unfold validScalar at h
  have pr : ∀ k, 32 ≤ k → k ≠ 127 → k < 256 → isPrintableByte (UInt8.ofNat k) = true := by
    intro k h1 h2 h3
    have := toNat_ofNat_lt k h3
    simp only [isPrintableByte, Bool.and_eq_true, decide_eq_true_eq, bne_iff_ne, ne_eq,
      ge_iff_le, UInt8.le_iff_toNat_le, ← UInt8.toNat_inj, this]
    exact ⟨h1, h2⟩
  unfold encodeRune
  simp only
  split
  · next h1 =>
    refine ⟨_, _, rfl, ?_, fun a b => pr n a b (by omega)⟩
    rw [leadLen_eq, toNat_ofNat_lt n (by omega)]; simp [h1]
  · split
    · next h1 h2 =>
      refine ⟨_, _, rfl, ?_, fun _ _ => pr _ (by omega) (by omega) (by omega)⟩
      rw [leadLen_eq, toNat_ofNat_lt _ (by omega)]
      repeat' split
      all_goals simp at * <;> omega
    · split
      · omega
      · split
        · next h1 h2 h3 h4 =>
          refine ⟨_, _, rfl, ?_, fun _ _ => pr _ (by omega) (by omega) (by omega)⟩
          rw [leadLen_eq, toNat_ofNat_lt _ (by omega)]
          repeat' split
          all_goals simp at * <;> omega
        · split
          · next h1 h2 h3 h4 h5 =>
            refine ⟨_, _, rfl, ?_, fun _ _ => pr _ (by omega) (by omega) (by omega)⟩
            rw [leadLen_eq, toNat_ofNat_lt _ (by omega)]
            repeat' split
            all_goals simp at * <;> omega
          · omega

/-- the UTF-8 encoding of one printable scalar value is read back as one text token carrying the
    same bytes and the same code point, whatever follows -/
theorem next_text (cp : Nat) (hv : validScalar cp) (h32 : 32 ≤ cp) (h127 : cp ≠ 127) (rest : Bytes) :
    next (encodeRune cp ++ rest) = .tok (.text (encodeRune cp) cp) (encodeRune cp).length := by
  obtain ⟨b0, tl, he, hl, hp⟩ := encodeRune_head cp hv
  have hd := decodeRune_encodeRune cp rest hv
  have hfull : fullRune (encodeRune cp ++ rest) = true := by
    rw [he]; simp only [List.cons_append, fullRune, hl, List.length_append]
    by_cases h1 : tl.length + 1 ≤ 1
    · simp [h1]
    · simp [h1]
  have hlen3 : cp = 0xFFFD → (encodeRune cp).length = 3 := by intro e; subst e; decide
  have hstored : (if cp = 0xFFFD ∧ (encodeRune cp).length = 1 then replacementChar
      else (encodeRune cp ++ rest).take (encodeRune cp).length) = encodeRune cp := by
    rw [if_neg (fun h => by have := hlen3 h.1; omega), List.take_left']
    rfl
  unfold next
  rw [he] at hfull hd hstored ⊢
  simp only [List.cons_append] at hfull hd hstored ⊢
  simp only [hp h32 h127, hfull, if_true, hd, hstored]

end Lemmas
open Lemmas

/-! ## Part 5 — the re-interpreting terminal -/

/-- main screen of the re-interpreting terminal after the cells `done` of row `y` have been
    written: fresh `w × h` screen, row `y` = `done` followed by blanks, cursor after `done` (pinned
    to the last column once the row is full), current style `sty` -/
def scrT (W H y : Nat) (done : Row) (sty : Style) : Scr :=
  { Scr.init W H with
    grid := (Scr.init W H).grid.set y (done ++ blankRow (W - done.length) Style.default),
    cx := min done.length (W - 1), cy := y, sty := sty }

def stT (pol : WidePolicy) (W H y : Nat) (done : Row) (sty : Style) : Term :=
  { Term.init pol W H with main := scrT W H y done sty }

/-- `ESC [ y+1 ; 1 H` -/
def cupTok (y : Nat) : Tok := .csi 0 [((y + 1 : Nat) : Int), ((1 : Nat) : Int)] true 0x48

namespace Lemmas

theorem length_charCells (t : Bytes) (w : Nat) (st : Style) (hw : 1 ≤ w) :
    (charCells t w st).length = w := by
  simp [charCells]; omega

theorem setRange_mid (a b c cells : List Cell) (h : b.length = cells.length) :
    setRange (a ++ (b ++ c)) a.length cells = a ++ (cells ++ c) := by
  apply List.ext_getElem?
  intro i
  unfold setRange
  rw [List.getElem?_mapIdx]
  by_cases h1 : i < a.length
  · rw [List.getElem?_append_left h1, List.getElem?_append_left h1]
    cases a[i]? with
    | none => rfl
    | some x => simp [show ¬ (a.length ≤ i) by omega]
  · have ha : a.length ≤ i := by omega
    rw [List.getElem?_append_right ha, List.getElem?_append_right ha]
    by_cases h2 : i < a.length + cells.length
    · have hb : i - a.length < b.length := by omega
      have hc : i - a.length < cells.length := by omega
      rw [List.getElem?_append_left hb, List.getElem?_append_left hc,
        List.getElem?_eq_getElem hb, List.getElem?_eq_getElem hc]
      simp only [Option.map_some, Option.some.injEq]
      rw [if_pos ⟨ha, h2⟩, List.getD_eq_getElem?_getD, List.getElem?_eq_getElem hc]
      rfl
    · have hb : b.length ≤ i - a.length := by omega
      have hc : cells.length ≤ i - a.length := by omega
      rw [List.getElem?_append_right hb, List.getElem?_append_right hc, h]
      cases c[i - a.length - cells.length]? with
      | none => rfl
      | some x => simp [show ¬ (i < a.length + cells.length) by omega]

theorem contAt_blankTail (done : Row) (n k : Nat) (st : Style) :
    contAt (done ++ blankRow n st) (done.length + k) = false := by
  unfold contAt
  rw [List.getElem?_append_right (by omega)]
  simp only [Nat.add_sub_cancel_left, blankRow, List.getElem?_replicate]
  by_cases hk : k < n <;> simp [hk, blank]

theorem blankStraddlers_id (r : Row) (a b : Nat) (st : Style) (ha : contAt r a = false)
    (hb : contAt r b = false) : blankStraddlers r a b st = r := by
  simp [blankStraddlers, ha, hb]

theorem blankRow_split (n w : Nat) (st : Style) (h : w ≤ n) :
    blankRow n st = blankRow w st ++ blankRow (n - w) st := by
  simp only [blankRow, List.replicate_append_replicate]
  congr 1; omega

theorem length_blankRow (n : Nat) (st : Style) : (blankRow n st).length = n := by simp [blankRow]

/-- writing one character at the end of `done`, on still-blank cells -/
theorem rowPut_blankTail (done : Row) (n : Nat) (t : Bytes) (w : Nat) (st : Style) (hw : 1 ≤ w)
    (hn : w ≤ n) :
    (done ++ blankRow n Style.default).put done.length t w st =
      (done ++ charCells t w st) ++ blankRow (n - w) Style.default := by
  unfold Row.put
  rw [blankStraddlers_id _ _ _ _ (by simpa using contAt_blankTail done n 0 Style.default)
    (contAt_blankTail done n w Style.default)]
  rw [blankRow_split n w _ hn, setRange_mid _ _ _ _ (by rw [length_blankRow, length_charCells _ _ _ hw]),
    List.append_assoc]

theorem scrT_row (W H y : Nat) (done : Row) (sty : Style) (hy : y < H) :
    (scrT W H y done sty).row y = done ++ blankRow (W - done.length) Style.default := by
  simp [scrT, Scr.row, Scr.init, hy]

/-- one character written by the re-interpreting terminal: it lands right after `done`, in the
    current style, and the cursor moves behind it (or stays pinned on the last column) -/
theorem put_scrT (pol : WidePolicy) (W H y : Nat) (done : Row) (sty : Style) (t : Bytes) (w0 w : Nat)
    (hy : y < H) (hw0 : max w0 1 = w) (hfit : done.length + w ≤ W) :
    Scr.put pol (scrT W H y done sty) t w0 = scrT W H y (done ++ charCells t w sty) sty := by
  have hw : 1 ≤ w := by omega
  have hrow := scrT_row W H y done sty hy
  have hcx : (scrT W H y done sty).cx = done.length := by simp [scrT]; omega
  have hcont : contAt (done ++ blankRow (W - done.length) Style.default) done.length = false := by
    simpa using contAt_blankTail done (W - done.length) 0 Style.default
  have hput := rowPut_blankTail done (W - done.length) t w sty hw (by omega)
  unfold Scr.put
  simp only [hw0]
  have e1 : (scrT W H y done sty).w = W := rfl
  have e2 : (scrT W H y done sty).cy = y := rfl
  have e3 : (scrT W H y done sty).wrap = false := rfl
  have e4 : (scrT W H y done sty).sty = sty := rfl
  simp only [e1, e2, e3, e4, hcx, hrow, hcont, hput, if_neg (show ¬ w > W by omega),
    if_neg (show ¬ done.length + w > W by omega), Bool.false_and, Bool.false_eq_true, if_false,
    Nat.add_zero]
  have hlen : (done ++ charCells t w sty).length = done.length + w := by
    rw [List.length_append, length_charCells _ _ _ hw]
  have hsub : W - done.length - w = W - (done ++ charCells t w sty).length := by rw [hlen]; omega
  rw [hsub]
  have hmin0 : min done.length (W - 1) = done.length := by omega
  by_cases hlt : done.length + w < W
  · have hmin : min (done.length + w) (W - 1) = done.length + w := by omega
    simp [scrT, Scr.init, Scr.setRow, hlt, hlen, hmin, hmin0]
  · have hmin : min (done.length + w) (W - 1) = W - 1 := by omega
    simp [scrT, Scr.init, Scr.setRow, hlt, hlen, hmin, hmin0]

theorem withSty_stT (pol : WidePolicy) (W H y : Nat) (done : Row) (sty s : Style) :
    withSty (stT pol W H y done sty) s = stT pol W H y done s := rfl

theorem stT_sty (pol : WidePolicy) (W H y : Nat) (done : Row) (sty : Style) :
    (stT pol W H y done sty).scr.sty = sty := rfl

theorem apply_text_stT (cw : Nat → Nat) (pol : WidePolicy) (W H y : Nat) (done : Row) (sty : Style)
    (t : Bytes) (cp w : Nat) (hy : y < H) (hw0 : max (cw cp) 1 = w) (hfit : done.length + w ≤ W) :
    ((stT pol W H y done sty).apply cw (.text t cp)).1 = stT pol W H y (done ++ charCells t w sty) sty := by
  have := put_scrT pol W H y done sty t (cw cp) w hy hw0 hfit
  simp only [Term.apply, Term.scr, Term.setScr, stT, Term.init, Bool.false_eq_true, if_false, this]

theorem apply_cup_init (cw : Nat → Nat) (pol : WidePolicy) (W H y : Nat) (hy : y < H) :
    ((Term.init pol W H).apply cw (cupTok y)).1 = stT pol W H y [] Style.default := by
  have h1 : clampNat (y : Int) (H - 1) = y := by
    unfold clampNat; omega
  have h2 : clampNat 0 (W - 1) = 0 := by
    unfold clampNat; omega
  simp only [cupTok, Term.apply, Term.csi, Term.csiPlain, if_true, Term.scr, Term.init,
    Bool.false_eq_true, if_false, Term.withScr, Term.setScr, Scr.setCursor, pAt]
  simp [stT, scrT, Scr.init, Term.init, h1, h2, blankRow]

theorem stT_row_full (pol : WidePolicy) (W H y : Nat) (r : Row) (sty : Style) (hy : y < H)
    (hr : r.length = W) : (stT pol W H y r sty).main.row y = r := by
  show (scrT W H y r sty).row y = r
  rw [scrT_row _ _ _ _ _ hy, hr, Nat.sub_self]
  simp [blankRow]

theorem stT_row_other (pol : WidePolicy) (W H y : Nat) (r : Row) (sty : Style) (y' : Nat) (hne : y' ≠ y) :
    (stT pol W H y r sty).main.row y' = (Term.init pol W H).main.row y' := by
  show (scrT W H y r sty).row y' = (Scr.init W H).row y'
  simp [scrT, Scr.row, Scr.init, Ne.symm hne]

end Lemmas
open Lemmas

/-! ## Part 6 — rows -/

/-- what the property assumes about a rendered row (all of it holds for the rows of a reachable
    rune-mode screen): the structural invariant `rowWF`; continuation cells carry the style of the
    cell to their left (they are only ever written by `charCells`); every style is a reachable
    packed value; every character cell holds the UTF-8 encoding of ONE printable scalar value
    whose width under `cw` is the cell's width. -/
structure RowOK (cw : Nat → Nat) (r : Row) : Prop where
  wf : rowWF r = true
  contSty : ∀ i st, r[i + 1]? = some ⟨.cont, st⟩ → ∃ g, r[i]? = some ⟨g, st⟩
  valid : ∀ c ∈ r, Style.valid c.sty
  text : ∀ c ∈ r, ∀ t w, c.g = .ch t w →
    ∃ cp, validScalar cp ∧ 32 ≤ cp ∧ cp ≠ 127 ∧ t = encodeRune cp ∧ w = max (cw cp) 1

/-- one character of a row: text, width, style -/
structure Ch where
  t : Bytes
  w : Nat
  st : Style

def Ch.cells (c : Ch) : Row := charCells c.t c.w c.st
def ofChars (cs : List Ch) : Row := cs.flatMap Ch.cells

def ChOK (cw : Nat → Nat) (c : Ch) : Prop :=
  1 ≤ c.w ∧ Style.valid c.st ∧
    ∃ cp, validScalar cp ∧ 32 ≤ cp ∧ cp ≠ 127 ∧ c.t = encodeRune cp ∧ max (cw cp) 1 = c.w

namespace Lemmas

/-! ### `rowWF` as a predicate (as in C03) -/

theorem contAt_iff {r : Row} {x : Nat} : contAt r x = true ↔ ∃ st, r[x]? = some ⟨.cont, st⟩ := by
  unfold contAt; split <;> simp_all

theorem contAt_cont {r : Row} {x : Nat} {st : Style} (h : r[x]? = some ⟨.cont, st⟩) :
    contAt r x = true := contAt_iff.2 ⟨st, h⟩

theorem contAt_lt {r : Row} {x : Nat} (h : contAt r x = true) : x < r.length := by
  obtain ⟨st, hst⟩ := contAt_iff.1 h
  false_or_by_contra
  rw [List.getElem?_eq_none (by omega)] at hst; cases hst

theorem rowWF_iff (r : Row) : rowWF r = true ↔
    (contAt r 0 = false ∧ ∀ i t w st, r[i]? = some ⟨.ch t w, st⟩ →
      1 ≤ w ∧ i + w ≤ r.length ∧ (∀ k, i < k → k < i + w → contAt r k = true) ∧
        contAt r (i + w) = false) := by
  unfold rowWF
  rw [List.all_eq_true]
  simp only [List.mem_range]
  constructor
  · intro H
    constructor
    · cases hc : contAt r 0 with
      | false => rfl
      | true =>
        obtain ⟨st, hst⟩ := contAt_iff.1 hc
        have := H 0 (contAt_lt hc)
        rw [hst] at this
        simp at this
    · intro i t w st h
      have hi : i < r.length := by
        false_or_by_contra
        rw [List.getElem?_eq_none (by omega)] at h; cases h
      have := H i hi
      rw [h] at this
      simp only [Bool.and_eq_true, decide_eq_true_eq, List.all_eq_true, List.mem_range,
        Bool.not_eq_true'] at this
      refine ⟨this.1.1.1, this.1.1.2, ?_, this.2⟩
      intro k h1 h2
      have := this.1.2 (k - (i + 1)) (by omega)
      have e : i + 1 + (k - (i + 1)) = k := by omega
      rwa [e] at this
  · intro ⟨h0, H⟩ i hi
    cases hc : r[i]? with
    | none => rw [List.getElem?_eq_none_iff] at hc; omega
    | some c =>
      obtain ⟨g, st⟩ := c
      cases g with
      | cont =>
        simp only [decide_eq_true_eq]
        false_or_by_contra
        have : i = 0 := by omega
        subst this
        rw [contAt_cont hc] at h0; cases h0
      | ch t w =>
        obtain ⟨a, b, c, d⟩ := H i t w st hc
        simp only [Bool.and_eq_true, decide_eq_true_eq, List.all_eq_true, List.mem_range,
          Bool.not_eq_true']
        exact ⟨⟨⟨a, b⟩, fun k hk => c _ (by omega) (by omega)⟩, d⟩

theorem contAt_drop (r : Row) (k j : Nat) : contAt (r.drop k) j = contAt r (k + j) := by
  unfold contAt
  rw [List.getElem?_drop]

theorem wf_drop {r : Row} (hwf : rowWF r = true) {k : Nat} (hk : contAt r k = false) :
    rowWF (r.drop k) = true := by
  rw [rowWF_iff]
  constructor
  · rw [contAt_drop]; exact hk
  · intro i t w st hi
    rw [List.getElem?_drop] at hi
    obtain ⟨p1, p2, p3, p4⟩ := ((rowWF_iff r).1 hwf).2 _ _ _ _ hi
    refine ⟨p1, by rw [List.length_drop]; omega, ?_, ?_⟩
    · intro j j1 j2
      rw [contAt_drop]; exact p3 _ (by omega) (by omega)
    · rw [contAt_drop]
      have : k + (i + w) = k + i + w := by omega
      rw [this]; exact p4

theorem getElem?_charCells (t : Bytes) (w : Nat) (st : Style) (k : Nat) (hk : k < w) :
    (charCells t w st)[k]? = some (if k = 0 then ⟨.ch t w, st⟩ else ⟨.cont, st⟩) := by
  unfold charCells
  cases k with
  | zero => rfl
  | succ k =>
    rw [List.getElem?_cons_succ, List.getElem?_replicate]
    simp [show k < w - 1 by omega]

theorem rowOK_drop {cw : Nat → Nat} {r : Row} (h : RowOK cw r) {k : Nat} (hk : contAt r k = false) :
    RowOK cw (r.drop k) where
  wf := wf_drop h.wf hk
  contSty := by
    intro i st hi
    rw [List.getElem?_drop] at hi ⊢
    exact h.contSty (k + i) st hi
  valid := fun c hc => h.valid c (List.mem_of_mem_drop hc)
  text := fun c hc => h.text c (List.mem_of_mem_drop hc)

theorem ofChars_cons (c : Ch) (cs : List Ch) : ofChars (c :: cs) = c.cells ++ ofChars cs := by
  simp [ofChars]

/-- a well-formed row is the concatenation of the cells of its characters -/
theorem rowOK_chars (cw : Nat → Nat) : ∀ (n : Nat) (r : Row), r.length ≤ n → RowOK cw r →
    ∃ cs : List Ch, r = ofChars cs ∧ ∀ c ∈ cs, ChOK cw c := by
  intro n
  induction n with
  | zero =>
    intro r hl _
    have : r = [] := List.length_eq_zero_iff.1 (by omega)
    exact ⟨[], by simp [this, ofChars], by simp⟩
  | succ n ih =>
    intro r hl h
    cases hr : r with
    | nil => exact ⟨[], by simp [ofChars], by simp⟩
    | cons c0 r0 =>
      obtain ⟨h0, hch⟩ := (rowWF_iff r).1 h.wf
      have hr0 : r[0]? = some c0 := by rw [hr]; rfl
      obtain ⟨g, st⟩ := c0
      cases g with
      | cont => rw [contAt_cont hr0] at h0; cases h0
      | ch t w =>
        obtain ⟨hw, hfit, hcont, hend⟩ := hch 0 t w st hr0
        simp only [Nat.zero_add] at hfit hcont hend
        have hmem : (⟨.ch t w, st⟩ : Cell) ∈ r := by rw [hr]; simp
        have hvs : Style.valid st := h.valid ⟨.ch t w, st⟩ hmem
        -- the first `w` cells are the character's cells
        have hcells : ∀ k, k < w → r[k]? = (charCells t w st)[k]? := by
          intro k
          induction k with
          | zero => intro _; rw [hr0, getElem?_charCells _ _ _ _ hw]; rfl
          | succ k ihk =>
            intro hk
            obtain ⟨st', hst'⟩ := contAt_iff.1 (hcont (k + 1) (by omega) hk)
            obtain ⟨g, hg⟩ := h.contSty k st' hst'
            have := ihk (by omega)
            rw [hg, getElem?_charCells _ _ _ _ (by omega)] at this
            have e : st' = st := by
              have := congrArg (fun o => o.map Cell.sty) this
              simp only [Option.map_some, Option.some.injEq] at this
              rw [this]; split <;> rfl
            rw [hst', getElem?_charCells _ _ _ _ hk, e]
            simp
        have htake : r.take w = charCells t w st := by
          apply List.ext_getElem?
          intro i
          by_cases hi : i < w
          · rw [List.getElem?_take, if_pos hi]; exact hcells i hi
          · rw [List.getElem?_eq_none (by rw [List.length_take]; omega),
              List.getElem?_eq_none (by rw [length_charCells _ _ _ hw]; omega)]
        obtain ⟨cs, hcs, hok⟩ := ih (r.drop w) (by rw [List.length_drop]; omega) (rowOK_drop h hend)
        refine ⟨⟨t, w, st⟩ :: cs, ?_, ?_⟩
        · rw [← hr, ofChars_cons]
          show r = charCells t w st ++ ofChars cs
          rw [← htake, ← hcs, List.take_append_drop]
        · intro c hc
          rcases List.mem_cons.1 hc with rfl | hc
          · obtain ⟨cp, a1, a2, a3, a4, a5⟩ := h.text ⟨.ch t w, st⟩ hmem t w rfl
            exact ⟨hw, hvs, cp, a1, a2, a3, a4, a5.symm⟩
          · exact hok c hc

end Lemmas
open Lemmas

/-! ## Part 7 — the row round trip -/

namespace Lemmas

theorem encodeRune_length_pos (n : Nat) : 0 < (encodeRune n).length := by
  unfold encodeRune
  simp only
  repeat' split
  all_goals simp

theorem renderCells_conts (st : Style) (k : Nat) (rest : Row) :
    renderCells (some st) (List.replicate k ⟨.cont, st⟩ ++ rest) = renderCells (some st) rest := by
  induction k with
  | zero => rfl
  | succ k ih => simp [List.replicate_succ, renderCells, ih]

/-- `ANSILine` on the cells of one character: the escape when the style changes, then its text -/
theorem renderCells_char (prev : Option Style) (c : Ch) (rest : Row) :
    renderCells prev (c.cells ++ rest) =
      (if prev = some c.st then [] else c.st.ansiEscape) ++ (c.t ++ renderCells (some c.st) rest) := by
  simp [Ch.cells, charCells, renderCells, renderCells_conts]

/-- the induction over the characters of the row: invariant = the exact terminal state `stT` -/
theorem exec_chars (cw : Nat → Nat) (pol : WidePolicy) (W H y : Nat) (hy : y < H) (cs : List Ch) :
    ∀ (done : Row) (prev : Option Style) (sty : Style),
    (∀ c ∈ cs, ChOK cw c) → done.length + (ofChars cs).length = W →
    (∀ st, prev = some st → sty = st) →
    ∃ sty', Exec cw (stT pol W H y done sty) (renderCells prev (ofChars cs))
      (stT pol W H y (done ++ ofChars cs) sty') := by
  induction cs with
  | nil =>
    intro done prev sty _ _ _
    refine ⟨sty, ?_⟩
    simp only [ofChars, List.flatMap_nil, List.append_nil, renderCells]
    exact Exec.nil cw _
  | cons c cs ih =>
    intro done prev sty hok hlen hprev
    obtain ⟨hw, hvalid, cp, hcp, h32, h127, ht, hwid⟩ := hok c (by simp)
    rw [ofChars_cons] at hlen ⊢
    have hclen : c.cells.length = c.w := length_charCells _ _ _ hw
    rw [List.length_append, hclen] at hlen
    obtain ⟨sty', hE⟩ := ih (done ++ c.cells) (some c.st) c.st (fun q hq => hok q (by simp [hq]))
      (by rw [List.length_append, hclen]; omega) (fun st h => by cases h; rfl)
    refine ⟨sty', ?_⟩
    rw [renderCells_char, ← List.append_assoc done]
    have htext : Exec cw (stT pol W H y done c.st) (c.t ++ renderCells (some c.st) (ofChars cs))
        (stT pol W H y (done ++ c.cells ++ ofChars cs) sty') := by
      rw [ht]
      apply Exec.tok (next_text cp hcp h32 h127 _) (encodeRune_length_pos cp)
      rw [← ht, apply_text_stT cw pol W H y done c.st c.t cp c.w hy hwid (by omega)]
      exact hE
    by_cases hp : prev = some c.st
    · rw [if_pos hp, List.nil_append, hprev _ hp]; exact htext
    · rw [if_neg hp]
      apply exec_ansiEscape cw c.st hvalid
      rw [withSty_stT]; exact htext

theorem cupRow_eq (y : Nat) : cupRow y = csiSeq [y + 1, 1] 0x48 := by
  have : itoa 1 = [0x31] := by decide
  simp [cupRow, csiSeq, paramBytes, this]

/-- the terminal reached by `reinterpretRow`, completely described -/
theorem reinterpret_state (cw : Nat → Nat) (pol : WidePolicy) (w h y : Nat) (r : Row)
    (hy : y < h) (hmax : y < paramMax) (hlen : r.length = w) (hr : RowOK cw r) :
    ∃ sty', (run cw (Term.init pol w h) (cupRow y ++ renderRowANSI r)).1 = stT pol w h y r sty' := by
  obtain ⟨cs, hcs, hok⟩ := rowOK_chars cw r.length r (Nat.le_refl _) hr
  obtain ⟨sty', hE⟩ := exec_chars cw pol w h y hy cs [] none Style.default hok
    (by rw [← hcs, hlen]; simp) (fun st h => by cases h)
  refine ⟨sty', Exec.run ?_⟩
  have hpok : ParamsOK [y + 1, 1] :=
    ⟨by simp, by simp [paramCap], by
      intro n hn
      simp only [List.mem_cons, List.not_mem_nil, or_false] at hn
      unfold paramMax at hmax ⊢; omega⟩
  rw [cupRow_eq]
  apply Exec.tok (next_csiSeq [y + 1, 1] 0x48 (Or.inr rfl) hpok _) (by simp [csiSeq])
  have := apply_cup_init cw pol w h y hy
  unfold cupTok at this
  rw [show ([y + 1, 1] : List Nat).map Int.ofNat = [((y + 1 : Nat) : Int), ((1 : Nat) : Int)] from rfl,
    this]
  rw [List.nil_append, ← hcs] at hE
  unfold renderRowANSI
  exact hE

end Lemmas
open Lemmas

/-- **C11 (first half).** Feeding `CUP(y+1,1) ++ ANSILine(y)` to a fresh terminal of the same size
    (either buffer policy, autowrap off as on every fresh terminal) reproduces row `y` exactly:
    the same text, the same widths / continuation cells and the same packed style in every cell.
    Quantified over all sizes, all rows `y`, both policies, every width function and every row
    satisfying `RowOK` (any mixture of styles: 13 modes × default / palette / bright / RGB
    colours, any characters including wide ones, including a character written into the last
    column, where the cursor is pinned instead of wrapping). `y < paramMax` is needed because CSI
    parameters saturate at `2^31 - 1`. -/
theorem row_roundtrip (cw : Nat → Nat) (pol : WidePolicy) (w h y : Nat) (r : Row)
    (hy : y < h) (hmax : y < paramMax) (hlen : r.length = w) (hr : RowOK cw r) :
    reinterpretRow cw pol w h y r = r := by
  obtain ⟨sty', hs⟩ := reinterpret_state cw pol w h y r hy hmax hlen hr
  unfold reinterpretRow
  simp only [hs]
  exact stT_row_full pol w h y r sty' hy hlen

/-- the re-interpretation touches no other row: every row `y' ≠ y` is as in the fresh terminal
    (nothing scrolls, nothing wraps) -/
theorem other_rows_untouched (cw : Nat → Nat) (pol : WidePolicy) (w h y : Nat) (r : Row)
    (hy : y < h) (hmax : y < paramMax) (hlen : r.length = w) (hr : RowOK cw r) (y' : Nat) (hne : y' ≠ y) :
    (run cw (Term.init pol w h) (cupRow y ++ renderRowANSI r)).1.main.row y' =
      (Term.init pol w h).main.row y' := by
  obtain ⟨sty', hs⟩ := reinterpret_state cw pol w h y r hy hmax hlen hr
  rw [hs]
  exact stT_row_other pol w h y r sty' y' hne

/-! ## Part 8 — the remaining property statements, non-vacuity -/

/-- **Tokenisation of `ANSIEscape()`**, for EVERY style (no validity needed): the bytes
    `s.ansiEscape`, followed by anything, are read by repeated `next` as exactly the clean,
    unprefixed `CSI … m` tokens with the parameter lists `sgrParams s` — `[0]`, a second `[0]` and
    one `[code]` per set mode when a mode is set, then `[30+n]` / `[38,5,n]` / `[90+n]` /
    `[38,2,r,g,b]` for the foreground and `[40+n]` / `[48,5,n]` / `[100+n]` / `[48,2,r,g,b]` for
    the background — each token spanning exactly its own bytes, `rest` left untouched. -/
theorem ansiEscape_tokens (s : Style) (rest : Bytes) :
    Tokenises (s.ansiEscape ++ rest) ((sgrParams s).map sgrTok) rest := by
  rw [ansiEscape_eq]
  exact tokenises_sgrBytes _ (sgrParams_ok s) rest

/-- `Tokenises` consumes a prefix: what is left is a suffix of the input -/
theorem Tokenises.suffix {bs rest : Bytes} {tks : List Tok} (h : Tokenises bs tks rest) :
    ∃ pre, bs = pre ++ rest ∧ (tks = [] → pre = []) := by
  induction h with
  | nil bs => exact ⟨[], rfl, fun _ => rfl⟩
  | cons a bs tk tks rest _ _ ih =>
    obtain ⟨pre, e, _⟩ := ih
    exact ⟨a ++ pre, by rw [e, List.append_assoc], fun h => by cases h⟩

/-- **Text round trip for one cell.** The stored text of a cell holding one printable scalar value
    `cp` is read back as ONE text token with the same bytes and code point; the re-interpreting
    terminal (row `y` = `done` + blanks, cursor behind `done`) writes exactly `⟨.ch t w, sty⟩`
    followed by `w - 1` continuation cells in the same style at the cursor, leaves the cells
    before and after as they were, and advances the cursor by `w` — pinned on the last column when
    the character ends the row (autowrap is off), under either wide-character policy. -/
theorem text_roundtrip (cw : Nat → Nat) (pol : WidePolicy) (W H y : Nat) (done : Row) (sty : Style)
    (cp w : Nat) (rest : Bytes) (hy : y < H) (hv : validScalar cp) (h32 : 32 ≤ cp) (h127 : cp ≠ 127)
    (hw : max (cw cp) 1 = w) (hfit : done.length + w ≤ W) :
    next (encodeRune cp ++ rest) = .tok (.text (encodeRune cp) cp) (encodeRune cp).length ∧
    ∃ T, ((stT pol W H y done sty).apply cw (.text (encodeRune cp) cp)).1 = T ∧
      T = stT pol W H y (done ++ charCells (encodeRune cp) w sty) sty ∧
      (T.main.row y)[done.length]? = some ⟨.ch (encodeRune cp) w, sty⟩ ∧
      (∀ k, 1 ≤ k → k < w → (T.main.row y)[done.length + k]? = some ⟨.cont, sty⟩) ∧
      (∀ i, i < done.length → (T.main.row y)[i]? = done[i]?) ∧
      (∀ i, done.length + w ≤ i → i < W → (T.main.row y)[i]? = some (blank Style.default)) ∧
      T.main.cx = min (done.length + w) (W - 1) ∧ T.main.cy = y := by
  have hw1 : 1 ≤ w := by omega
  have hcl := length_charCells (encodeRune cp) w sty hw1
  refine ⟨next_text cp hv h32 h127 rest, _, rfl, ?_⟩
  rw [apply_text_stT cw pol W H y done sty _ cp w hy hw hfit]
  have hrow : (stT pol W H y (done ++ charCells (encodeRune cp) w sty) sty).main.row y =
      done ++ (charCells (encodeRune cp) w sty ++ blankRow (W - (done.length + w)) Style.default) := by
    show (scrT W H y _ sty).row y = _
    rw [scrT_row _ _ _ _ _ hy, List.length_append, hcl, List.append_assoc]
  refine ⟨rfl, ?_, ?_, ?_, ?_, ?_, rfl⟩
  · rw [hrow, List.getElem?_append_right (Nat.le_refl _), Nat.sub_self,
      List.getElem?_append_left (by omega), getElem?_charCells _ _ _ _ (by omega)]
    rfl
  · intro k h1 h2
    rw [hrow, List.getElem?_append_right (by omega), Nat.add_sub_cancel_left,
      List.getElem?_append_left (by omega), getElem?_charCells _ _ _ _ h2, if_neg (by omega)]
  · intro i hi
    rw [hrow, List.getElem?_append_left hi]
  · intro i h1 h2
    rw [hrow, List.getElem?_append_right (by omega), List.getElem?_append_right (by omega), hcl]
    simp only [blankRow, List.getElem?_replicate]
    rw [if_pos (by omega)]
  · show min (done ++ charCells (encodeRune cp) w sty).length (W - 1) = _
    rw [List.length_append, hcl]

/-! ### non-vacuity -/

namespace Examples

/-- `世` is double width, everything else single -/
def cw : Nat → Nat := fun cp => if cp = 0x4E16 then 2 else 1

/-- bold, red (palette 1) on palette colour 200 -/
def boldRedOn200 : Style := ⟨0x01000001#32, 0x000000C8#32, colDefault⟩

/-- underline + strike + rapid blink, RGB(255,128,0) on bright blue -/
def fancy : Style := ⟨0x88FF8000#32, 0x21000204#32, colDefault⟩

/-- `A`, `世` (two cells), and `b` in the LAST column (the cursor is pinned there) -/
def row : Row :=
  [⟨.ch [0x41] 1, boldRedOn200⟩, ⟨.ch [0xE4, 0xB8, 0x96] 2, boldRedOn200⟩, ⟨.cont, boldRedOn200⟩,
   ⟨.ch [0x62] 1, fancy⟩]

example : Style.valid boldRedOn200 ∧ Style.valid fancy := by decide

example : sgrParams boldRedOn200 = [[0], [0], [1], [31], [48, 5, 200]] := by decide
example : sgrParams fancy = [[0], [0], [4], [9], [6], [38, 2, 255, 128, 0], [104]] := by decide

/-- the four "black-ish" foregrounds are rendered by four different sequences (and, being valid,
    are restored exactly by `sgr_roundtrip`) -/
example :
    sgrParams ⟨0x100#32, colDefault, colDefault⟩ = [[0]] ∧
    sgrParams ⟨0x0#32, colDefault, colDefault⟩ = [[0], [30]] ∧
    sgrParams ⟨0x200#32, colDefault, colDefault⟩ = [[0], [90]] ∧
    sgrParams ⟨0x80000000#32, colDefault, colDefault⟩ = [[0], [38, 2, 0, 0, 0]] ∧
    sgrParams ⟨colDefault, 0x0#32, colDefault⟩ = [[0], [40]] ∧
    sgrParams ⟨colDefault, 0x200#32, colDefault⟩ = [[0], [100]] ∧
    sgrParams ⟨colDefault, 0x80000000#32, colDefault⟩ = [[0], [48, 2, 0, 0, 0]] := by decide

example : Style.valid ⟨0x0#32, colDefault, colDefault⟩ ∧ Style.valid ⟨0x200#32, colDefault, colDefault⟩ ∧
    Style.valid ⟨0x80000000#32, colDefault, colDefault⟩ ∧ Style.valid ⟨0x100#32, colDefault, colDefault⟩ := by
  decide

example (s0 : Style) : applyAll s0 [[0], [38, 2, 0, 0, 0]] = ⟨0x80000000#32, colDefault, colDefault⟩ :=
  sgr_roundtrip ⟨0x80000000#32, colDefault, colDefault⟩ (by decide) s0

theorem rowOK : RowOK cw row where
  wf := by decide
  contSty := by
    intro i st h
    rcases i with _ | _ | _ | i
    · simp [row] at h
    · simp only [row] at h ⊢
      simp at h
      exact ⟨_, by rw [← h]; rfl⟩
    · simp [row] at h
    · simp [row] at h
  valid := by decide
  text := by
    intro c hc t w hg
    simp only [row, List.mem_cons, List.not_mem_nil, or_false] at hc
    rcases hc with rfl | rfl | rfl | rfl
    · cases hg; exact ⟨0x41, by decide, by decide, by decide, by decide, by decide⟩
    · cases hg; exact ⟨0x4E16, by decide, by decide, by decide, by decide, by decide⟩
    · cases hg
    · cases hg; exact ⟨0x62, by decide, by decide, by decide, by decide, by decide⟩

/-- the hypotheses of `row_roundtrip` hold for this row on a 4 × 3 screen, row 1, both policies -/
example (pol : WidePolicy) : reinterpretRow cw pol 4 3 1 row = row :=
  row_roundtrip cw pol 4 3 1 row (by decide) (by decide) rfl rowOK

/-- … and what is rendered is what one expects -/
example : renderRowANSI [⟨.ch [0x41] 1, Style.default⟩, ⟨.ch [0x42] 1, Style.default⟩] =
    [0x1b, 0x5b, 0x30, 0x6d, 0x41, 0x42] := by decide

end Examples

end TM.C11

#print axioms TM.C11.ansiEscape_eq
#print axioms TM.C11.ansiEscape_tokens
#print axioms TM.C11.sgrParams_spec
#print axioms TM.C11.sgr_roundtrip
#print axioms TM.C11.exec_ansiEscape
#print axioms TM.C11.run_ansiEscape
#print axioms TM.C11.text_roundtrip
#print axioms TM.C11.row_roundtrip
#print axioms TM.C11.other_rows_untouched
