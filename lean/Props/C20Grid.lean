import TM.GridTerm
import Props.C02SpanTerm
import Props.C03
import Props.C05
import Props.C18
/-!
# C20Grid — the cell-grid buffer as the code stores it refines the cell-level model

`TM/GridScreen.lean` stores a screen the way `screen_grid.go` does: per cell one record of the five
parallel arrays (`chars`, `cellText`, `cellWidth`, `cellCont`, `cellStyles`), with Go-shaped
`clearWideAt`, `rawWriteRunes` (blanks), `rawWriteRune`, `deleteChars`, `scroll`, `setSize`.
`GCell.abs`/`GScr.abs`/`GTerm.abs` map it to the cell-level model (`TM.Screen`, `TM.Term`, grid
policy `.blank`).  This file proves that every operation commutes with `abs` and keeps the
invariant `GScr.inv` (geometry + every row `w` consistent cells showing a `rowWF` row).

* §1 rows (`RowOK r`: `r.all GCell.ok` and `rowWF (r.map GCell.abs)`): `gBase_headOf`,
  `clearWideAt_abs/_length/_rowOK`, `writeBlanks_abs/_length/_rowOK` (= `Row.erase`),
  `writeRune_abs/_length/_rowOK` (= `Row.put` of the encoded rune), `deleteChars_abs/_length/_rowOK`
  (= `Row.dch`), `resize_abs/_length/_rowOK` (= `fitRow`); the loops in closed form:
  `blankLoop_simple`, `writeBlanks_eq`, `writeRune_eq`, `deleteChars_eq`, `cutLoop_eq`; provenance of
  stored cells `writeBlanks_cells`, `writeRune_cells`, `deleteChars_cells`, `resize_cells`.
* §2 screens under `GScr.inv`: `abs_init`, `inv_init`, `abs_scroll`, `inv_scroll`, `abs_lineDown`,
  `inv_lineDown`, `abs_lineUp`, `inv_lineUp`, `eraseRegion_refines`, `eraseRegionI_refines`,
  `dch_refines`, `setCursor_refines`, `resize_refines`, `put_refines'` (no token hypothesis),
  `put_refines`, `abs_inv`.
* §3 the terminal (`GTerm` of `TM/GridTerm.lean`, port of `Props/C02SpanTerm.lean`): `Ref`,
  `setMargins_refines`, `saveCursor_refines`, `restoreCursor_refines`, `decMode_refines`,
  `csiPlain_refines`, `csi_refines`, **`apply_refines`** (every token: same state through `abs`,
  EQUAL events, invariant), **`term_resize_refines`**, **`run_refines`**, `tokWF_of_tokOK`, the
  capstone **`stream_refines`** (every byte stream, every size ≥ 1×1, every width function) and
  `stream_rows`; non-vacuity on a 6×3 terminal, `apply_needs_tokWF`.
-/
namespace TM.C20Grid
open TM TM.C03.Lemmas

/-! ## 0. cells -/

theorem abs_gBlank (st : Style) : (gBlank st).abs = blank st := rfl
theorem ok_gBlank (st : Style) : (gBlank st).ok = true := rfl
theorem abs_gCont (st : Style) : (gCont st).abs = ⟨.cont, st⟩ := rfl

theorem abs_of_not_cont {c : GCell} (h : c.cont = false) : c.abs = ⟨.ch c.text c.width, c.sty⟩ := by
  simp [GCell.abs, h]
theorem abs_of_cont {c : GCell} (h : c.cont = true) : c.abs = ⟨.cont, c.sty⟩ := by
  simp [GCell.abs, h]

theorem abs_ch_inv {c : GCell} {t : Bytes} {w : Nat} {s : Style} (h : c.abs = ⟨.ch t w, s⟩) :
    c.cont = false ∧ c.text = t ∧ c.width = w ∧ c.sty = s := by
  cases hc : c.cont with
  | true => rw [abs_of_cont hc] at h; cases h
  | false =>
    rw [abs_of_not_cont hc] at h
    simp only [Cell.mk.injEq, Glyph.ch.injEq] at h
    exact ⟨rfl, h.1.1, h.1.2, h.2⟩

theorem contAt_abs (r : GRow) (x : Nat) : contAt (r.map GCell.abs) x = r.contAt x := by
  unfold contAt GRow.contAt
  rw [List.getElem?_map]
  cases r[x]? with
  | none => rfl
  | some c =>
    cases hc : c.cont with
    | true => simp [abs_of_cont hc, hc]
    | false => simp [abs_of_not_cont hc, hc]

theorem gBase_eq (r : GRow) (x : Nat) : gBase r x = headOf (r.map GCell.abs) x := by
  induction x with
  | zero => rfl
  | succ x ih => simp only [gBase, headOf, contAt_abs, ih]

/-- a row of consistent cells showing a well-formed row -/
def RowOK (r : GRow) : Prop := r.all GCell.ok = true ∧ rowWF (r.map GCell.abs) = true

theorem allOK_iff {r : GRow} : r.all GCell.ok = true ↔ ∀ c ∈ r, c.ok = true := List.all_eq_true

theorem allOK_mapIdx {r : GRow} {f : Nat → GCell → GCell}
    (h : ∀ i c, c ∈ r → (f i c).ok = true) : (r.mapIdx f).all GCell.ok = true := by
  rw [allOK_iff]
  intro c hc
  obtain ⟨i, hi, rfl⟩ := List.mem_mapIdx.1 hc
  exact h i _ (List.getElem_mem hi)

/-! ## 1. rows: `clearWideAt` -/

def gWidthAt (r : GRow) (b : Nat) : Nat := match r[b]? with | some c => c.width | none => 0

theorem clearWideAt_eq (r : GRow) (x : Nat) (st : Style) :
    r.clearWideAt x st =
      if gWidthAt r (gBase r x) ≤ 1 then r else
        r.mapIdx fun i c =>
          if gBase r x ≤ i ∧ i < min (gBase r x + gWidthAt r (gBase r x)) r.length then gBlank st else c := rfl

theorem clearWideAt_length (r : GRow) (x : Nat) (st : Style) : (r.clearWideAt x st).length = r.length := by
  rw [clearWideAt_eq]
  split <;> simp

theorem clearWideAt_ok {r : GRow} (hok : r.all GCell.ok = true) (x : Nat) (st : Style) :
    (r.clearWideAt x st).all GCell.ok = true := by
  rw [clearWideAt_eq]
  split
  · exact hok
  · apply allOK_mapIdx
    intro i c hc
    split
    · exact ok_gBlank st
    · exact allOK_iff.1 hok c hc

/-- 1. `clearWideAt` is `blankCharAt` -/
theorem clearWideAt_abs {r : GRow} (hwf : rowWF (r.map GCell.abs) = true) (x : Nat) (st : Style) :
    (r.clearWideAt x st).map GCell.abs = blankCharAt (r.map GCell.abs) x st := by
  unfold GRow.clearWideAt blankCharAt
  simp only [gBase_eq]
  by_cases hx : x < r.length
  · obtain ⟨t, w, s, hch, hw1, hxw, hlen, hwd⟩ := wf_head hwf (x := x) (by simpa using hx)
    have hle := headOf_le (r.map GCell.abs) x
    rw [hwd]
    rw [List.getElem?_map] at hch
    cases hc : r[headOf (r.map GCell.abs) x]? with
    | none => rw [hc] at hch; cases hch
    | some c =>
      rw [hc] at hch
      simp only [Option.map_some, Option.some.injEq] at hch
      obtain ⟨c1, c2, c3, c4⟩ := abs_ch_inv hch
      simp only [c3]
      by_cases hw : w ≤ 1
      · have hxh : headOf (r.map GCell.abs) x = x := by omega
        have : contAt (r.map GCell.abs) x = false := by
          rw [contAt_abs, GRow.contAt, ← hxh, hc]; exact c1
        simp [hw, this]
      · rw [if_neg hw, if_neg (by intro h; exact hw h.1)]
        apply List.ext_getElem?
        intro i
        simp only [blankRange, List.getElem?_map, List.getElem?_mapIdx]
        cases hi : r[i]? with
        | none => rfl
        | some d =>
          have hil : i < r.length := (List.getElem?_eq_some_iff.1 hi).1
          simp only [Option.map_some, Option.some.injEq]
          by_cases hin : headOf (r.map GCell.abs) x ≤ i ∧ i < headOf (r.map GCell.abs) x + w
          · rw [if_pos hin, if_pos ⟨hin.1, by omega⟩]; rfl
          · rw [if_neg hin, if_neg (by omega)]
  · have hc : contAt (r.map GCell.abs) x = false := contAt_ge (by simpa using Nat.le_of_not_lt hx)
    rw [headOf_of_not_cont hc]
    have : r[x]? = none := List.getElem?_eq_none (by omega)
    have hw : widthAt (r.map GCell.abs) x = 1 := by
      unfold widthAt; rw [List.getElem?_map, this]; rfl
    simp [this, hw, hc]

/-- 1. the base column `clearWideAt` walks back to is `headOf` -/
theorem gBase_headOf (r : GRow) (x : Nat) : gBase r x = headOf (r.map GCell.abs) x := gBase_eq r x

/-- the Go idiom `if cellCont[y][c] { clearWideAt(y, c) }` -/
def gFix (r : GRow) (c : Nat) (st : Style) : GRow := if r.contAt c then r.clearWideAt c st else r

theorem gFix_length (r : GRow) (c : Nat) (st : Style) : (gFix r c st).length = r.length := by
  unfold gFix; split
  · exact clearWideAt_length ..
  · rfl

theorem gFix_abs {r : GRow} (hwf : rowWF (r.map GCell.abs) = true) (c : Nat) (st : Style) :
    (gFix r c st).map GCell.abs = fixAt (r.map GCell.abs) c st := by
  unfold gFix fixAt
  rw [contAt_abs]
  split
  · exact clearWideAt_abs hwf c st
  · rfl

theorem gFix_ok {r : GRow} (h : RowOK r) (c : Nat) (st : Style) : RowOK (gFix r c st) := by
  refine ⟨?_, ?_⟩
  · unfold gFix; split
    · exact clearWideAt_ok h.1 ..
    · exact h.1
  · rw [gFix_abs h.2]; exact fixAt_wf h.2 c st

theorem clearWideAt_rowOK {r : GRow} (h : RowOK r) (x : Nat) (st : Style) : RowOK (r.clearWideAt x st) := by
  refine ⟨clearWideAt_ok h.1 .., ?_⟩
  rw [clearWideAt_abs h.2]
  by_cases hc : contAt (r.map GCell.abs) x = true
  · have := fixAt_wf h.2 x st
    rwa [fixAt, if_pos hc] at this
  · -- not on a continuation cell: the head is `x` itself
    have hc' : contAt (r.map GCell.abs) x = false := by simpa using hc
    by_cases hx : x < (r.map GCell.abs).length
    · obtain ⟨t, w, s, hch, hw1, hxw, hlen, hwd⟩ := wf_head h.2 hx
      unfold blankCharAt
      simp only []
      split
      · exact h.2
      · rw [hwd]
        apply wf_blank_char (st := st) h.2 hch (length_blankRange ..)
        intro j hj
        rw [getElem?_blankRange hj]
    · unfold blankCharAt
      have hw : widthAt (r.map GCell.abs) (headOf (r.map GCell.abs) x) = 1 := by
        rw [headOf_of_not_cont hc']
        unfold widthAt; rw [List.getElem?_eq_none (by omega)]
      simp [hw, hc', h.2]

/-! ## 1. rows: `writeBlanks` (`eraseRegion`) -/

theorem gcontAt_lt {r : GRow} {x : Nat} (h : r.contAt x = true) : x < r.length := by
  unfold GRow.contAt at h
  cases hx : r[x]? with
  | none => rw [hx] at h; cases h
  | some c => exact (List.getElem?_eq_some_iff.1 hx).1

theorem gcontAt_some {r : GRow} {x : Nat} {c : GCell} (h : r[x]? = some c) : r.contAt x = c.cont := by
  unfold GRow.contAt; rw [h]

/-- what the loop of `rawWriteRunes` stores in a cell before the styles are written -/
def blankCell (c : GCell) : GCell := { c with ch := 0x20, text := [0x20], width := 1, cont := false }

theorem mapIdx_id' {α : Type} (l : List α) (f : Nat → α → α) (h : ∀ i a, l[i]? = some a → f i a = a) :
    l.mapIdx f = l := by
  apply List.ext_getElem?
  intro i
  rw [List.getElem?_mapIdx]
  cases hi : l[i]? with
  | none => rfl
  | some a => simp [h i a hi]

/-- right of a narrow cell that is not a continuation the loop only stores blanks -/
theorem blankLoop_simple (st : Style) : ∀ (n idx : Nat) (r : GRow), 0 < idx → idx + n ≤ r.length →
    (∃ c, r[idx - 1]? = some c ∧ c.cont = false ∧ c.width ≤ 1) →
    GRow.blankLoop st n idx r = r.mapIdx fun i c => if idx ≤ i ∧ i < idx + n then blankCell c else c := by
  intro n
  induction n with
  | zero =>
    intro idx r _ _ _
    rw [mapIdx_id']
    · rfl
    · intro i a _; rw [if_neg (by omega)]
  | succ n ih =>
    intro idx r h0 hlen ⟨c, hc, hc1, hc2⟩
    obtain ⟨k, rfl⟩ : ∃ k, idx = k + 1 := ⟨idx - 1, by omega⟩
    simp only [Nat.add_sub_cancel] at hc
    have hstep : (if r.contAt (k + 1) then r.clearWideAt (k + 1) st else r) = r := by
      by_cases hca : r.contAt (k + 1) = true
      · rw [if_pos hca, clearWideAt_eq]
        have hb : gBase r (k + 1) = k := by
          simp only [gBase, hca, if_true]
          cases k with
          | zero => rfl
          | succ j => simp only [gBase, gcontAt_some hc, hc1]; simp
        rw [hb]
        have : gWidthAt r k = c.width := by unfold gWidthAt; rw [hc]
        rw [this, if_pos hc2]
      · rw [if_neg hca]
    unfold GRow.blankLoop
    simp only [hstep]
    have hk : k + 1 < r.length := by omega
    rw [ih (k + 1 + 1) _ (by omega) (by rw [List.length_set]; omega)
      ⟨_, by simp only [Nat.add_sub_cancel]; rw [List.getElem?_set_self hk], rfl, Nat.le_refl _⟩]
    apply List.ext_getElem?
    intro i
    simp only [List.getElem?_mapIdx, List.getElem?_set, List.getD_eq_getElem?_getD]
    by_cases hi : k + 1 = i
    · subst hi
      simp only [if_true, hk, List.getElem?_eq_getElem hk, Option.getD_some, Option.map_some]
      rw [if_neg (by omega), if_pos (by omega)]; rfl
    · simp only [hi, if_false]
      cases r[i]? with
      | none => rfl
      | some d =>
        simp only [Option.map_some]
        by_cases h1 : k + 1 + 1 ≤ i ∧ i < k + 1 + 1 + n
        · rw [if_pos h1, if_pos (by omega)]
        · rw [if_neg h1, if_neg (by omega)]

/-- the whole of `rawWriteRunes` with blanks, in one pass over the row repaired at both edges -/
theorem writeBlanks_eq {r : GRow} (x n : Nat) (st : Style) (hn : 0 < n) (hx : x + n ≤ r.length) :
    r.writeBlanks x n st =
      (gFix (gFix r (x + n) st) x st).mapIdx fun i c => if x ≤ i ∧ i < x + n then gBlank st else c := by
  obtain ⟨m, rfl⟩ : ∃ m, n = m + 1 := ⟨n - 1, by omega⟩
  have h0 : (if m + 1 > 0 ∧ x + (m + 1) < r.length ∧ r.contAt (x + (m + 1)) = true
      then r.clearWideAt (x + (m + 1)) st else r) = gFix r (x + (m + 1)) st := by
    unfold gFix
    by_cases hc : r.contAt (x + (m + 1)) = true
    · rw [if_pos ⟨by omega, gcontAt_lt hc, hc⟩, if_pos hc]
    · rw [if_neg (fun h => hc h.2.2), if_neg hc]
  unfold GRow.writeBlanks
  simp only [h0]
  generalize hr0 : gFix r (x + (m + 1)) st = r0
  have hl0 : r0.length = r.length := by rw [← hr0, gFix_length]
  unfold GRow.blankLoop
  simp only []
  have h1 : (if r0.contAt x = true then r0.clearWideAt x st else r0) = gFix r0 x st := rfl
  rw [h1]
  generalize hr1 : gFix r0 x st = r1
  have hl1 : r1.length = r.length := by rw [← hr1, gFix_length, hl0]
  have hxl : x < r1.length := by omega
  rw [blankLoop_simple st m (x + 1) _ (by omega) (by rw [List.length_set]; omega)
    ⟨_, by simp only [Nat.add_sub_cancel]; rw [List.getElem?_set_self hxl], rfl, Nat.le_refl _⟩]
  apply List.ext_getElem?
  intro i
  simp only [List.getElem?_mapIdx, List.getElem?_set, List.getD_eq_getElem?_getD]
  by_cases hi : x = i
  · subst hi
    simp only [if_true, hxl, List.getElem?_eq_getElem hxl, Option.getD_some, Option.map_some]
    have e1 : ¬ (x + 1 ≤ x ∧ x < x + 1 + m) := by omega
    have e2 : x ≤ x ∧ x < x + (m + 1) := by omega
    simp only [e1, e2, and_self, if_true, if_false]; rfl
  · simp only [hi, if_false]
    cases r1[i]? with
    | none => rfl
    | some d =>
      simp only [Option.map_some]
      by_cases h2 : x + 1 ≤ i ∧ i < x + 1 + m
      · have e2 : x ≤ i ∧ i < x + (m + 1) := by omega
        simp only [h2, e2, and_self, if_true]; rfl
      · have e2 : ¬ (x ≤ i ∧ i < x + (m + 1)) := by omega
        simp only [h2, e2, if_false]

theorem map_abs_blankIdx (r : GRow) (a n : Nat) (st : Style) :
    (r.mapIdx fun i c => if a ≤ i ∧ i < a + n then gBlank st else c).map GCell.abs =
      blankRange (r.map GCell.abs) a n st := by
  apply List.ext_getElem?
  intro i
  simp only [blankRange, List.getElem?_map, List.getElem?_mapIdx]
  cases r[i]? with
  | none => rfl
  | some d =>
    simp only [Option.map_some]
    split <;> rfl

/-- both orders of repairing the two edges give the same row -/
theorem blankStraddlers_comm {R : Row} (hwf : rowWF R = true) (a b : Nat) (st : Style) :
    blankStraddlers R a b st = blankStraddlers R b a st := by
  apply List.ext_getElem?
  intro i
  rw [C05.Lemmas.getElem?_blankStraddlers hwf, C05.Lemmas.getElem?_blankStraddlers hwf]
  by_cases h : C05.inCut R a i ∨ C05.inCut R b i
  · rw [if_pos h, if_pos (Or.symm h)]
  · rw [if_neg h, if_neg (fun h' => h (Or.symm h'))]

/-- 1. `writeBlanks` (`rawWriteRunes` with `n` blanks: `eraseRegion` on one row) is `Row.erase` -/
theorem writeBlanks_abs {r : GRow} (h : RowOK r) (x n : Nat) (st : Style) (hx : x + n ≤ r.length) :
    (r.writeBlanks x n st).map GCell.abs = Row.erase (r.map GCell.abs) x (x + n) st := by
  by_cases hn : 0 < n
  · rw [writeBlanks_eq x n st hn hx, map_abs_blankIdx, gFix_abs (gFix_ok h _ _).2, gFix_abs h.2,
      ← blankStraddlers_eq, blankStraddlers_comm h.2]
    unfold Row.erase
    simp only [List.length_map]
    rw [Nat.min_eq_left hx, if_neg (by omega), Nat.add_sub_cancel_left]
  · have hn0 : n = 0 := by omega
    subst hn0
    have : r.writeBlanks x 0 st = r := by
      unfold GRow.writeBlanks GRow.blankLoop
      simp only [Nat.lt_irrefl, false_and, if_false, Nat.add_zero]
      apply mapIdx_id'
      intro i a _; rw [if_neg (by omega)]
    rw [this]
    unfold Row.erase
    simp only [List.length_map, Nat.add_zero]
    rw [if_pos (Nat.min_le_left _ _)]

theorem writeBlanks_length (r : GRow) (x n : Nat) (st : Style) (hx : x + n ≤ r.length) :
    (r.writeBlanks x n st).length = r.length := by
  by_cases hn : 0 < n
  · rw [writeBlanks_eq x n st hn hx, List.length_mapIdx, gFix_length, gFix_length]
  · have hn0 : n = 0 := by omega
    subst hn0
    unfold GRow.writeBlanks GRow.blankLoop
    simp

/-- 1. `writeBlanks` keeps the cells consistent and the row well formed -/
theorem writeBlanks_rowOK {r : GRow} (h : RowOK r) (x n : Nat) (st : Style) (hx : x + n ≤ r.length) :
    RowOK (r.writeBlanks x n st) := by
  refine ⟨?_, ?_⟩
  · by_cases hn : 0 < n
    · rw [writeBlanks_eq x n st hn hx]
      apply allOK_mapIdx
      intro i c hc
      split
      · exact ok_gBlank st
      · exact allOK_iff.1 (gFix_ok (gFix_ok h _ _) _ _).1 c hc
    · have hn0 : n = 0 := by omega
      subst hn0
      have : r.writeBlanks x 0 st = r := by
        unfold GRow.writeBlanks GRow.blankLoop
        simp only [Nat.lt_irrefl, false_and, if_false, Nat.add_zero]
        apply mapIdx_id'
        intro i a _; rw [if_neg (by omega)]
      rw [this]; exact h.1
  · rw [writeBlanks_abs h x n st hx]
    exact (C02.erase_rowWF _ _ _ _ h.2).1

/-! ## 1. rows: `writeRune` (`rawWriteRune`) -/

theorem encodeRune_ne_nil (n : Nat) : encodeRune n ≠ [] := by
  unfold encodeRune
  simp only []
  repeat' split
  all_goals simp

/-- the head cell `rawWriteRune` stores -/
def gHead (rune w : Nat) (st : Style) : GCell := ⟨rune, encodeRune rune, w, false, st⟩

theorem ok_gHead (rune : Nat) {w : Nat} (hw : 1 ≤ w) (st : Style) : (gHead rune w st).ok = true := by
  have := encodeRune_ne_nil rune
  cases h : encodeRune rune with
  | nil => exact absurd h this
  | cons a b => simp [GCell.ok, gHead, h]; omega

theorem ok_gCont (st : Style) : (gCont st).ok = true := rfl

/-- the row after both repairs of `rawWriteRune`: column `x` and column `x + w` are character
    boundaries, so the cell at `x` is a head no wider than `w` -/
theorem fixed_head_width {r2 : GRow} (hwf : rowWF (r2.map GCell.abs) = true) {x w : Nat} (hw : 1 ≤ w)
    (hx : x < r2.length) (h1 : contAt (r2.map GCell.abs) x = false)
    (h2 : contAt (r2.map GCell.abs) (x + w) = false) :
    max (match r2[x]? with | some c => c.width | none => 1) 1 ≤ w := by
  rw [List.getElem?_eq_getElem hx]
  simp only []
  have hc : r2[x].cont = false := by
    rw [contAt_abs, gcontAt_some (List.getElem?_eq_getElem hx)] at h1; exact h1
  have hch : (r2.map GCell.abs)[x]? = some ⟨.ch r2[x].text r2[x].width, r2[x].sty⟩ := by
    rw [List.getElem?_map, List.getElem?_eq_getElem hx, Option.map_some, abs_of_not_cont hc]
  obtain ⟨_, _, cs, _⟩ := wf_ch hwf hch
  by_cases hgt : w < r2[x].width
  · have := cs (x + w) (by omega) (by omega)
    rw [h2] at this; cases this
  · omega

theorem writeRune_eq {r : GRow} (h : RowOK r) (x rune w : Nat) (st : Style) (hx : x + max w 1 ≤ r.length) :
    r.writeRune x rune w st =
      (gFix (gFix r x st) (x + max w 1) st).mapIdx fun i c =>
        if i = x then gHead rune (max w 1) st
        else if x < i ∧ i < x + max w 1 then gCont st else c := by
  have hw1 : 1 ≤ max w 1 := Nat.le_max_right _ _
  generalize hw' : max w 1 = w' at hx hw1
  unfold GRow.writeRune
  simp only [hw']
  have h1 : (if r.contAt x = true then r.clearWideAt x st else r) = gFix r x st := rfl
  rw [h1]
  have hok1 := gFix_ok h x st
  generalize hr1 : gFix r x st = r1 at hok1
  have hl1 : r1.length = r.length := by rw [← hr1, gFix_length]
  have h2 : (if x + w' < r.length ∧ r1.contAt (x + w') = true then r1.clearWideAt (x + w') st else r1) =
      gFix r1 (x + w') st := by
    unfold gFix
    by_cases hc : r1.contAt (x + w') = true
    · rw [if_pos ⟨by have := gcontAt_lt hc; omega, hc⟩, if_pos hc]
    · rw [if_neg (fun h => hc h.2), if_neg hc]
  rw [h2]
  have hok2 := gFix_ok hok1 (x + w') st
  have hA : (gFix r1 (x + w') st).map GCell.abs = blankStraddlers (r.map GCell.abs) x (x + w') st := by
    rw [gFix_abs hok1.2, ← hr1, gFix_abs h.2, blankStraddlers_eq]
  have hc1 : contAt ((gFix r1 (x + w') st).map GCell.abs) x = false := by
    rw [hA]; exact contAt_blankStraddlers_left h.2 ..
  have hc2 : contAt ((gFix r1 (x + w') st).map GCell.abs) (x + w') = false := by
    rw [hA]; exact contAt_blankStraddlers_right h.2 ..
  generalize hr2 : gFix r1 (x + w') st = r2 at hok2 hc1 hc2
  have hl2 : r2.length = r.length := by rw [← hr2, gFix_length, hl1]
  have hpw := fixed_head_width hok2.2 hw1 (by omega) hc1 hc2
  generalize (max (match r2[x]? with | some c => c.width | none => 1) 1) = pw at hpw
  apply List.ext_getElem?
  intro i
  simp only [List.getElem?_mapIdx]
  cases r2[i]? with
  | none => rfl
  | some d =>
    simp only [Option.map_some, Option.some.injEq]
    have e0 : max w' pw = w' := Nat.max_eq_left hpw
    have e1 : min (x + w') r.length = x + w' := Nat.min_eq_left hx
    simp only [e0, e1]
    by_cases c1 : i = x
    · subst c1
      have e2 : i ≤ i ∧ i < i + w' := by omega
      simp only [if_true, e2, and_self]; rfl
    · by_cases c2 : x < i ∧ i < x + w'
      · have e2 : x ≤ i ∧ i < x + w' := by omega
        simp only [c1, c2, e2, and_self, if_true, if_false]; rfl
      · have e2 : ¬ (x ≤ i ∧ i < x + w') := by omega
        have e3 : ¬ (x + w' ≤ i ∧ i < x + pw) := by omega
        simp only [c1, c2, e2, e3, if_false]

/-- 1. `writeRune` (`rawWriteRune`) is `Row.put` of the encoded rune -/
theorem writeRune_abs {r : GRow} (h : RowOK r) (x rune w : Nat) (st : Style) (hx : x + max w 1 ≤ r.length) :
    (r.writeRune x rune w st).map GCell.abs =
      Row.put (r.map GCell.abs) x (encodeRune rune) (max w 1) st := by
  rw [writeRune_eq h x rune w st hx]
  have hw1 : 1 ≤ max w 1 := Nat.le_max_right _ _
  generalize max w 1 = w' at hx hw1
  have hA : (gFix (gFix r x st) (x + w') st).map GCell.abs = blankStraddlers (r.map GCell.abs) x (x + w') st := by
    rw [gFix_abs (gFix_ok h _ _).2, gFix_abs h.2, blankStraddlers_eq]
  unfold Row.put
  rw [← hA]
  have hl : (gFix (gFix r x st) (x + w') st).length = r.length := by rw [gFix_length, gFix_length]
  generalize gFix (gFix r x st) (x + w') st = r2 at hl
  apply List.ext_getElem?
  intro i
  by_cases hi : i < r2.length
  · rw [getElem?_setRange (by simpa using hi), length_charCells _ _ _ hw1]
    simp only [List.getElem?_map, List.getElem?_mapIdx, List.getElem?_eq_getElem hi, Option.map_some]
    by_cases c1 : i = x
    · subst c1
      rw [if_pos rfl, if_pos (by omega), Nat.sub_self, getElem?_charCells _ _ _ _ (by omega), if_pos rfl]
      rfl
    · rw [if_neg c1]
      by_cases c2 : x < i ∧ i < x + w'
      · rw [if_pos c2, if_pos (by omega), getElem?_charCells _ _ _ _ (by omega), if_neg (by omega)]
        rfl
      · rw [if_neg c2, if_neg (by omega)]
  · rw [List.getElem?_eq_none (by simp; omega), List.getElem?_eq_none (by rw [length_setRange]; simp; omega)]

theorem writeRune_length {r : GRow} (h : RowOK r) (x rune w : Nat) (st : Style) (hx : x + max w 1 ≤ r.length) :
    (r.writeRune x rune w st).length = r.length := by
  rw [writeRune_eq h x rune w st hx, List.length_mapIdx, gFix_length, gFix_length]

/-- 1. `writeRune` keeps the cells consistent and the row well formed -/
theorem writeRune_rowOK {r : GRow} (h : RowOK r) (x rune w : Nat) (st : Style) (hx : x + max w 1 ≤ r.length) :
    RowOK (r.writeRune x rune w st) := by
  refine ⟨?_, ?_⟩
  · rw [writeRune_eq h x rune w st hx]
    apply allOK_mapIdx
    intro i c hc
    split
    · exact ok_gHead rune (Nat.le_max_right _ _) st
    · split
      · exact ok_gCont st
      · exact allOK_iff.1 (gFix_ok (gFix_ok h _ _) _ _).1 c hc
  · rw [writeRune_abs h x rune w st hx]
    exact C03.Row.put_wf _ _ _ _ _ h.2 (Nat.le_max_right _ _) (by simpa using hx)

/-! ## 1. rows: `deleteChars` -/

theorem gFix_guard {r1 : GRow} {W : Nat} (hl : r1.length ≤ W) (e : Nat) (st : Style) :
    (if e < W ∧ r1.contAt e = true then r1.clearWideAt e st else r1) = gFix r1 e st := by
  unfold gFix
  by_cases hc : r1.contAt e = true
  · rw [if_pos ⟨by have := gcontAt_lt hc; omega, hc⟩, if_pos hc]
  · rw [if_neg (fun h => hc h.2), if_neg hc]

theorem deleteChars_eq (r : GRow) (x n : Nat) (st : Style) :
    r.deleteChars x n st =
      (gFix (gFix r x st) (x + n) st).take x ++ (gFix (gFix r x st) (x + n) st).drop (x + n) ++
        List.replicate n (gBlank st) := by
  unfold GRow.deleteChars
  simp only []
  have h1 : (if r.contAt x = true then r.clearWideAt x st else r) = gFix r x st := rfl
  rw [h1, gFix_guard (by rw [gFix_length]; exact Nat.le_refl _)]

/-- 1. `deleteChars` is `Row.dch` -/
theorem deleteChars_abs {r : GRow} (h : RowOK r) (x n : Nat) (st : Style)
    (hx : x < r.length) (hn : 0 < n) (hxn : x + n ≤ r.length) :
    (r.deleteChars x n st).map GCell.abs = Row.dch (r.map GCell.abs) x n st := by
  rw [deleteChars_eq]
  unfold Row.dch
  simp only [List.length_map]
  rw [if_neg (by omega), Nat.min_eq_left (by omega)]
  simp only [List.map_append, List.map_take, List.map_drop, List.map_replicate, abs_gBlank]
  rw [gFix_abs (gFix_ok h _ _).2, gFix_abs h.2, ← blankStraddlers_eq]

theorem deleteChars_length (r : GRow) (x n : Nat) (st : Style) (hxn : x + n ≤ r.length) :
    (r.deleteChars x n st).length = r.length := by
  rw [deleteChars_eq]
  simp only [List.length_append, List.length_take, List.length_drop, List.length_replicate, gFix_length]
  omega

/-- 1. `deleteChars` keeps the cells consistent and the row well formed -/
theorem deleteChars_rowOK {r : GRow} (h : RowOK r) (x n : Nat) (st : Style)
    (hx : x < r.length) (hn : 0 < n) (hxn : x + n ≤ r.length) : RowOK (r.deleteChars x n st) := by
  refine ⟨?_, ?_⟩
  · rw [deleteChars_eq, allOK_iff]
    have h2 := allOK_iff.1 (gFix_ok (gFix_ok h x st) (x + n) st).1
    intro c hc
    rcases List.mem_append.1 hc with hc | hc
    · rcases List.mem_append.1 hc with hc | hc
      · exact h2 c (List.mem_of_mem_take hc)
      · exact h2 c (List.mem_of_mem_drop hc)
    · rw [(List.mem_replicate.1 hc).2]; exact ok_gBlank st
  · rw [deleteChars_abs h x n st hx hn hxn]
    exact (C02.dch_rowWF _ _ _ _ h.2).1

/-! ## 1. rows: `resize` (a kept row of `setSize`) -/

theorem gBase_congr {r r' : GRow} : ∀ (x : Nat), (∀ j, j ≤ x → r'.contAt j = r.contAt j) → gBase r' x = gBase r x
  | 0, _ => rfl
  | x + 1, h => by
    simp only [gBase, h (x + 1) (Nat.le_refl _)]
    rw [gBase_congr x (fun j hj => h j (by omega))]

theorem gcontAt_congr {r r' : GRow} {x : Nat} (h : r'[x]? = r[x]?) : r'.contAt x = r.contAt x := by
  unfold GRow.contAt; rw [h]

/-- the loop of `setSize` blanks the columns from the base of the cut character to the new edge -/
theorem cutLoop_eq (st : Style) : ∀ (k : Nat) (r : GRow), k < r.length →
    GRow.cutLoop st (k + 1) r = r.mapIdx fun i c => if gBase r k ≤ i ∧ i ≤ k then gBlank st else c := by
  intro k
  induction k with
  | zero =>
    intro r hk
    have : GRow.cutLoop st 1 r = r.set 0 (gBlank st) := by
      unfold GRow.cutLoop
      simp only []
      split
      · rfl
      · rfl
    rw [this, show gBase r 0 = 0 from rfl]
    apply List.ext_getElem?
    intro i
    simp only [List.getElem?_mapIdx, List.getElem?_set]
    by_cases hi : 0 = i
    · subst hi
      simp [hk]
    · simp only [hi, if_false]
      cases r[i]? with
      | none => rfl
      | some d => simp only [Option.map_some]; rw [if_neg (by omega)]
  | succ k ih =>
    intro r hk
    unfold GRow.cutLoop
    simp only []
    by_cases hc : r.contAt (k + 1) = true
    · rw [if_pos hc, ih _ (by rw [List.length_set]; omega)]
      have hb : gBase (r.set (k + 1) (gBlank st)) k = gBase r k := by
        apply gBase_congr
        intro j hj
        apply gcontAt_congr
        rw [List.getElem?_set, if_neg (by omega)]
      have hb2 : gBase r (k + 1) = gBase r k := by simp only [gBase, hc, if_true]
      rw [hb, hb2]
      have hle : gBase r k ≤ k := by rw [gBase_eq]; exact headOf_le _ _
      apply List.ext_getElem?
      intro i
      simp only [List.getElem?_mapIdx, List.getElem?_set]
      by_cases hi : k + 1 = i
      · subst hi
        simp only [if_true, hk, List.getElem?_eq_getElem hk, Option.map_some]
        rw [if_neg (by omega), if_pos (by omega)]
      · simp only [hi, if_false]
        cases r[i]? with
        | none => rfl
        | some d =>
          simp only [Option.map_some]
          by_cases h1 : gBase r k ≤ i ∧ i ≤ k
          · rw [if_pos h1, if_pos (by omega)]
          · rw [if_neg h1, if_neg (by omega)]
    · rw [if_neg hc]
      have hb2 : gBase r (k + 1) = k + 1 := by simp only [gBase, hc]; simp
      rw [hb2]
      apply List.ext_getElem?
      intro i
      simp only [List.getElem?_mapIdx, List.getElem?_set]
      by_cases hi : k + 1 = i
      · subst hi
        simp only [if_true, hk, List.getElem?_eq_getElem hk, Option.map_some]
        rw [if_pos (by omega)]
      · simp only [hi, if_false]
        cases r[i]? with
        | none => rfl
        | some d => simp only [Option.map_some]; rw [if_neg (by omega)]

theorem fitRow_eq_fixAt (R : Row) (w : Nat) (st : Style) (h : w ≤ R.length) :
    fitRow R w st = (fixAt R w st).take w := by
  unfold fitRow fixAt
  rw [if_pos h]

/-- 1. one kept row of `setSize` is `fitRow` -/
theorem resize_abs {r : GRow} (h : RowOK r) (w : Nat) (st : Style) :
    (r.resize w st).map GCell.abs = fitRow (r.map GCell.abs) w st := by
  unfold GRow.resize
  simp only []
  by_cases hcut : w < r.length ∧ r.contAt w = true
  · have e : (decide (w < r.length) && r.contAt w) = true := by simp [hcut.1, hcut.2]
    rw [e, if_pos rfl]
    have hcA : contAt (r.map GCell.abs) w = true := by rw [contAt_abs]; exact hcut.2
    obtain ⟨k, rfl⟩ : ∃ k, w = k + 1 := by
      cases w with
      | zero => rw [wf_cont0 h.2] at hcA; cases hcA
      | succ k => exact ⟨k, rfl⟩
    have e0 : k + 1 - r.length = 0 := by omega
    rw [e0, List.replicate_zero, List.append_nil, cutLoop_eq st k _ (by rw [List.length_take]; omega)]
    have hb : gBase (r.take (k + 1)) k = headOf (r.map GCell.abs) (k + 1) := by
      rw [gBase_congr (r := r) k (fun j hj => gcontAt_congr (by rw [List.getElem?_take, if_pos (by omega)]))]
      rw [← gBase_eq]; simp only [gBase, hcut.2, if_true]
    rw [hb, fitRow_eq_fixAt _ _ _ (by simp; omega)]
    obtain ⟨t, wd, s, hch, hw1, hxw, hlen, hwd⟩ := wf_head h.2 (x := k + 1) (by simpa using hcut.1)
    apply List.ext_getElem?
    intro i
    simp only [List.getElem?_map, List.getElem?_mapIdx, List.getElem?_take]
    by_cases hi : i < k + 1
    · have hil : i < (r.map GCell.abs).length := by simp; omega
      rw [if_pos hi, if_pos hi, getElem?_fixAt hil]
      simp only [inChar, hcA, true_and, hwd]
      rw [List.getElem?_map, List.getElem?_eq_getElem (show i < r.length by omega)]
      simp only [Option.map_some]
      by_cases hin : headOf (r.map GCell.abs) (k + 1) ≤ i
      · rw [if_pos ⟨hin, by omega⟩, if_pos ⟨hin, by omega⟩]; rfl
      · rw [if_neg (fun h => hin h.1), if_neg (fun h => hin h.1)]
    · rw [if_neg hi, if_neg hi]; rfl
  · have e : (decide (w < r.length) && r.contAt w) = false := by
      by_cases h1 : w < r.length
      · have : r.contAt w = false := by
          cases hc : r.contAt w with
          | false => rfl
          | true => exact absurd ⟨h1, hc⟩ hcut
        simp [this]
      · simp [h1]
    rw [e]
    simp only [Bool.false_eq_true, if_false, List.map_append, List.map_take, List.map_replicate, abs_gBlank]
    unfold fitRow
    simp only [List.length_map]
    by_cases hl : r.length ≥ w
    · rw [if_pos hl]
      have hc : contAt (r.map GCell.abs) w = false := by
        rw [contAt_abs]
        cases hc : r.contAt w with
        | false => rfl
        | true => exact absurd ⟨gcontAt_lt hc, hc⟩ hcut
      simp only [hc, Bool.false_eq_true, if_false]
      rw [show w - r.length = 0 by omega, List.replicate_zero, List.append_nil]
    · rw [if_neg hl, List.take_of_length_le (by simp; omega)]

theorem resize_length (r : GRow) (w : Nat) (st : Style) : (r.resize w st).length = w := by
  have hcl : ∀ (k : Nat) (r : GRow), (GRow.cutLoop st k r).length = r.length := by
    intro k
    induction k with
    | zero => intro r; rfl
    | succ k ih =>
      intro r
      unfold GRow.cutLoop
      simp only []
      split
      · rw [ih, List.length_set]
      · rw [List.length_set]
  unfold GRow.resize
  simp only []
  split
  · rw [hcl]; simp; omega
  · simp; omega

/-- 1. a kept row of `setSize` keeps the cells consistent and the row well formed -/
theorem resize_rowOK {r : GRow} (h : RowOK r) (w : Nat) (st : Style) : RowOK (r.resize w st) := by
  refine ⟨?_, ?_⟩
  · have hcl : ∀ (k : Nat) (r : GRow), r.all GCell.ok = true → (GRow.cutLoop st k r).all GCell.ok = true := by
      intro k
      induction k with
      | zero => intro r hr; exact hr
      | succ k ih =>
        intro r hr
        have hs : (r.set k (gBlank st)).all GCell.ok = true := by
          rw [allOK_iff]
          intro c hc
          rcases List.mem_or_eq_of_mem_set hc with hc | hc
          · exact allOK_iff.1 hr c hc
          · rw [hc]; exact ok_gBlank st
        unfold GRow.cutLoop
        simp only []
        split
        · exact ih _ hs
        · exact hs
    have h1 : (r.take w ++ List.replicate (w - r.length) (gBlank st)).all GCell.ok = true := by
      rw [allOK_iff]
      intro c hc
      rcases List.mem_append.1 hc with hc | hc
      · exact allOK_iff.1 h.1 c (List.mem_of_mem_take hc)
      · rw [(List.mem_replicate.1 hc).2]; exact ok_gBlank st
    unfold GRow.resize
    simp only []
    split
    · exact hcl _ _ h1
    · exact h1
  · rw [resize_abs h]
    exact (C02.fitRow_rowWF _ _ _ h.2).1

/-! ## 2. screens -/

/-- one stored row: `W` consistent cells whose abstraction is a well-formed row -/
def RowInv (W : Nat) (r : GRow) : Prop :=
  r.length = W ∧ r.all GCell.ok = true ∧ rowWF (r.map GCell.abs) = true

theorem RowInv.ok {W : Nat} {r : GRow} (h : RowInv W r) : RowOK r := ⟨h.2.1, h.2.2⟩

theorem inv_iff {s : GScr} :
    GScr.inv s = true ↔
      1 ≤ s.w ∧ 1 ≤ s.h ∧ s.rows.length = s.h ∧ (∀ r ∈ s.rows, RowInv s.w r) ∧
      s.cx < s.w ∧ s.cy < s.h ∧ s.sx < s.w ∧ s.sy < s.h ∧ s.top ≤ s.bot ∧ s.bot < s.h := by
  simp [GScr.inv, RowInv, and_assoc]

@[simp] theorem abs_w (s : GScr) : s.abs.w = s.w := rfl
@[simp] theorem abs_h (s : GScr) : s.abs.h = s.h := rfl
@[simp] theorem abs_cx (s : GScr) : s.abs.cx = s.cx := rfl
@[simp] theorem abs_cy (s : GScr) : s.abs.cy = s.cy := rfl
@[simp] theorem abs_sx (s : GScr) : s.abs.sx = s.sx := rfl
@[simp] theorem abs_sy (s : GScr) : s.abs.sy = s.sy := rfl
@[simp] theorem abs_top (s : GScr) : s.abs.top = s.top := rfl
@[simp] theorem abs_bot (s : GScr) : s.abs.bot = s.bot := rfl
@[simp] theorem abs_wrap (s : GScr) : s.abs.wrap = s.wrap := rfl
@[simp] theorem abs_sty (s : GScr) : s.abs.sty = s.sty := rfl
@[simp] theorem abs_grid (s : GScr) : s.abs.grid = s.rows.map (fun r => r.map GCell.abs) := rfl
theorem abs_inRegion (s : GScr) : s.abs.inRegion = s.inRegion := rfl

theorem abs_gBlankRow (w : Nat) (st : Style) : (gBlankRow w st).map GCell.abs = blankRow w st := by
  simp [gBlankRow, blankRow, abs_gBlank]

theorem rowInv_gBlankRow (w : Nat) (st : Style) : RowInv w (gBlankRow w st) := by
  refine ⟨by simp [gBlankRow], ?_, ?_⟩
  · rw [allOK_iff]
    intro c hc
    rw [(List.mem_replicate.1 hc).2]; exact ok_gBlank st
  · rw [abs_gBlankRow]; exact blankRow_wf w st

theorem abs_row (s : GScr) (y : Nat) : s.abs.row y = (s.row y).map GCell.abs := by
  simp only [Scr.row, GScr.abs, GScr.row, List.getD_eq_getElem?_getD, List.getElem?_map]
  cases s.rows[y]? <;> rfl

theorem abs_setRow (s : GScr) (y : Nat) (r : GRow) :
    (s.setRow y r).abs = s.abs.setRow y (r.map GCell.abs) := by
  simp [GScr.setRow, Scr.setRow, GScr.abs, List.map_set]

theorem row_mem {s : GScr} {y : Nat} (h : y < s.rows.length) : s.row y ∈ s.rows := by
  simp only [GScr.row, List.getD_eq_getElem?_getD, List.getElem?_eq_getElem h, Option.getD_some]
  exact List.getElem_mem h

/-- 2. the initial array-level screen shows the initial cell-level screen -/
theorem abs_init (w h : Nat) : (GScr.init w h).abs = Scr.init w h := by
  simp [GScr.init, Scr.init, GScr.abs, abs_gBlankRow]

/-- 2. the initial screen satisfies the invariant -/
theorem inv_init {w h : Nat} (hw : 1 ≤ w) (hh : 1 ≤ h) : GScr.inv (GScr.init w h) = true := by
  rw [inv_iff]
  refine ⟨hw, hh, by simp [GScr.init], ?_, hw, hh, hw, hh, Nat.zero_le _, by simp [GScr.init]; omega⟩
  intro l hl
  simp only [GScr.init, List.mem_replicate] at hl
  rw [hl.2]
  exact rowInv_gBlankRow _ _

theorem inv_rows {s : GScr} (hs : GScr.inv s = true) (L : List GRow)
    (hl : L.length = s.h) (hwf : ∀ l ∈ L, RowInv s.w l) : GScr.inv { s with rows := L } = true := by
  obtain ⟨h1, h2, _, _, h5, h6, h7, h8, h9, h10⟩ := inv_iff.1 hs
  exact inv_iff.2 ⟨h1, h2, hl, hwf, h5, h6, h7, h8, h9, h10⟩

/-- 2. `scroll` commutes with `abs` (no hypothesis) -/
theorem abs_scroll (s : GScr) (y1 y2 : Nat) (d : Int) : (s.scroll y1 y2 d).abs = s.abs.scroll y1 y2 d := by
  unfold GScr.scroll Scr.scroll
  by_cases hc : y1 > y2 ∨ y2 ≥ s.h
  · simp only [abs_h, hc, if_true]
  · simp only [abs_h, hc, if_false]
    by_cases hd : d ≥ 0
    · simp [GScr.abs, hd, List.map_take, List.map_drop, abs_gBlankRow]
    · simp [GScr.abs, hd, List.map_take, List.map_drop, abs_gBlankRow]

/-- 2. `scroll` keeps the invariant -/
theorem inv_scroll {s : GScr} (hs : GScr.inv s = true) (y1 y2 : Nat) (d : Int) :
    GScr.inv (s.scroll y1 y2 d) = true := by
  unfold GScr.scroll
  by_cases hc : y1 > y2 ∨ y2 ≥ s.h
  · simp only [hc, if_true]; exact hs
  · simp only [hc, if_false]
    obtain ⟨h1, h2, h3, h4, _⟩ := inv_iff.1 hs
    have hblank : ∀ l ∈ List.replicate (min d.natAbs (y2 - y1 + 1)) (gBlankRow s.w s.sty), RowInv s.w l := by
      intro l hl
      rw [(List.mem_replicate.1 hl).2]
      exact rowInv_gBlankRow _ _
    apply inv_rows hs
    · by_cases hd : d ≥ 0
      · simp only [hd, if_true, List.length_append, List.length_take, List.length_drop,
          List.length_replicate, h3]
        omega
      · simp only [hd, if_false, List.length_append, List.length_take, List.length_drop,
          List.length_replicate, h3]
        omega
    · intro l hl
      rcases List.mem_append.1 hl with hl | hl
      · rcases List.mem_append.1 hl with hl | hl
        · exact h4 l (List.mem_of_mem_take hl)
        · by_cases hd : d ≥ 0
          · simp only [hd, if_true] at hl
            rcases List.mem_append.1 hl with hl | hl
            · exact hblank l hl
            · exact h4 l (List.mem_of_mem_drop (List.mem_of_mem_take (List.mem_of_mem_take hl)))
          · simp only [hd, if_false] at hl
            rcases List.mem_append.1 hl with hl | hl
            · exact h4 l (List.mem_of_mem_drop (List.mem_of_mem_take (List.mem_of_mem_drop hl)))
            · exact hblank l hl
      · exact h4 l (List.mem_of_mem_drop hl)

theorem scroll_geom (s : GScr) (y1 y2 : Nat) (d : Int) :
    (s.scroll y1 y2 d).w = s.w ∧ (s.scroll y1 y2 d).h = s.h ∧ (s.scroll y1 y2 d).cx = s.cx ∧
    (s.scroll y1 y2 d).cy = s.cy ∧ (s.scroll y1 y2 d).wrap = s.wrap ∧ (s.scroll y1 y2 d).sty = s.sty := by
  unfold GScr.scroll
  split <;> simp

/-- 2. `lineDown` commutes with `abs` -/
theorem abs_lineDown (s : GScr) : s.lineDown.abs = s.abs.lineDown := by
  unfold GScr.lineDown Scr.lineDown
  simp only [abs_cy, abs_bot, abs_top, abs_h]
  by_cases h1 : s.cy = s.bot
  · simp only [h1, if_true]; exact abs_scroll ..
  · by_cases h2 : s.cy + 1 < s.h
    · simp only [h1, h2, if_true, if_false]; rfl
    · simp only [h1, h2, if_false]

/-- 2. `lineUp` commutes with `abs` -/
theorem abs_lineUp (s : GScr) : s.lineUp.abs = s.abs.lineUp := by
  unfold GScr.lineUp Scr.lineUp
  simp only [abs_cy, abs_bot, abs_top]
  by_cases h1 : s.cy = s.top
  · simp only [h1, if_true]; exact abs_scroll ..
  · by_cases h2 : 0 < s.cy
    · simp only [h1, h2, if_true, if_false]; rfl
    · simp only [h1, h2, if_false]

theorem inv_cursor {s : GScr} (hs : GScr.inv s = true) {x y : Nat}
    (hx : x < s.w) (hy : y < s.h) : GScr.inv { s with cx := x, cy := y } = true := by
  obtain ⟨h1, h2, h3, h4, _, _, h7, h8, h9, h10⟩ := inv_iff.1 hs
  exact inv_iff.2 ⟨h1, h2, h3, h4, hx, hy, h7, h8, h9, h10⟩

/-- 2. `lineDown` keeps the invariant -/
theorem inv_lineDown {s : GScr} (hs : GScr.inv s = true) : GScr.inv s.lineDown = true := by
  unfold GScr.lineDown
  split
  · exact inv_scroll hs ..
  · split
    · rename_i h
      exact inv_cursor hs (inv_iff.1 hs).2.2.2.2.1 h
    · exact hs

/-- 2. `lineUp` keeps the invariant -/
theorem inv_lineUp {s : GScr} (hs : GScr.inv s = true) : GScr.inv s.lineUp = true := by
  unfold GScr.lineUp
  split
  · exact inv_scroll hs ..
  · split
    · have := (inv_iff.1 hs).2.2.2.2.2.1
      exact inv_cursor hs (inv_iff.1 hs).2.2.2.2.1 (by omega)
    · exact hs

theorem lineDown_geom (s : GScr) :
    s.lineDown.w = s.w ∧ s.lineDown.h = s.h ∧ s.lineDown.cx = s.cx ∧
    s.lineDown.wrap = s.wrap ∧ s.lineDown.sty = s.sty := by
  unfold GScr.lineDown
  split
  · have := scroll_geom s s.top s.bot (-1); simp [this]
  · split <;> simp

theorem lineUp_size (s : GScr) : s.lineUp.w = s.w ∧ s.lineUp.h = s.h := by
  unfold GScr.lineUp
  split
  · have := scroll_geom s s.top s.bot 1; exact ⟨this.1, this.2.1⟩
  · split <;> exact ⟨rfl, rfl⟩

/-! ### eraseRegion -/

theorem writeBlanks_zero (r : GRow) (x : Nat) (st : Style) : r.writeBlanks x 0 st = r := by
  unfold GRow.writeBlanks GRow.blankLoop
  simp only [Nat.lt_irrefl, false_and, if_false, Nat.add_zero]
  apply mapIdx_id'
  intro i a _; rw [if_neg (by omega)]

/-- one row of `eraseRegion`, for every `a`, `b` -/
theorem eraseRow {W : Nat} {r : GRow} (h : RowInv W r) (st : Style) (a b : Nat) :
    (r.writeBlanks a (min b W - a) st).map GCell.abs = Row.erase (r.map GCell.abs) a b st ∧
    RowInv W (r.writeBlanks a (min b W - a) st) := by
  have hl := h.1
  by_cases hab : a < min b W
  · have hx : a + (min b W - a) ≤ r.length := by omega
    have ho := writeBlanks_rowOK h.ok a (min b W - a) st hx
    refine ⟨?_, by rw [writeBlanks_length _ _ _ _ hx]; exact hl, ho.1, ho.2⟩
    rw [writeBlanks_abs h.ok a _ st hx, show a + (min b W - a) = min b W by omega, ← hl]
    have := C05.Lemmas.erase_min (r.map GCell.abs) a b st
    rw [List.length_map] at this
    exact this
  · rw [show min b W - a = 0 by omega, writeBlanks_zero]
    refine ⟨?_, h⟩
    rw [C05.erase_empty]
    rw [List.length_map, hl]; omega

/-- 2. `eraseRegion` commutes with `abs` and keeps the invariant (every `x1 y1 x2 y2`) -/
theorem eraseRegion_refines {s : GScr} (hs : GScr.inv s = true) (x1 y1 x2 y2 : Nat) :
    (s.eraseRegion x1 y1 x2 y2).abs = s.abs.eraseRegion x1 y1 x2 y2 ∧
    GScr.inv (s.eraseRegion x1 y1 x2 y2) = true := by
  obtain ⟨_, _, h3, h4, _⟩ := inv_iff.1 hs
  constructor
  · unfold GScr.eraseRegion Scr.eraseRegion
    simp only [GScr.abs, Scr.mk.injEq, true_and, and_true]
    apply List.ext_getElem?
    intro i
    simp only [List.getElem?_map, List.getElem?_mapIdx]
    cases hi : s.rows[i]? with
    | none => rfl
    | some l =>
      have hl := h4 l (List.mem_of_getElem? hi)
      simp only [Option.map_some]
      by_cases hc : y1 ≤ i ∧ i < y2
      · simp only [hc, and_self, if_true]
        rw [(eraseRow hl s.sty x1 x2).1]
      · simp only [hc, if_false]
  · unfold GScr.eraseRegion
    apply inv_rows hs
    · simp [h3]
    · intro l hl
      obtain ⟨i, hi, rfl⟩ := List.mem_mapIdx.1 hl
      have hl := h4 _ (List.getElem_mem hi)
      split
      · exact (eraseRow hl s.sty x1 x2).2
      · exact hl

/-- 2. `eraseRegionI` (clamped region) commutes with `abs` and keeps the invariant -/
theorem eraseRegionI_refines {s : GScr} (hs : GScr.inv s = true) (x1 y1 x2 y2 : Int) :
    (s.eraseRegionI x1 y1 x2 y2).abs = s.abs.eraseRegionI x1 y1 x2 y2 ∧
    GScr.inv (s.eraseRegionI x1 y1 x2 y2) = true := by
  unfold GScr.eraseRegionI Scr.eraseRegionI
  simp only [abs_w, abs_h]
  exact eraseRegion_refines hs ..

theorem eraseRegionI_geom (s : GScr) (x1 y1 x2 y2 : Int) :
    (s.eraseRegionI x1 y1 x2 y2).w = s.w ∧ (s.eraseRegionI x1 y1 x2 y2).h = s.h ∧
    (s.eraseRegionI x1 y1 x2 y2).cx = s.cx ∧ (s.eraseRegionI x1 y1 x2 y2).cy = s.cy := by
  simp [GScr.eraseRegionI, GScr.eraseRegion]

/-! ### dch, setCursor, resize -/

theorem inv_setRow {s : GScr} (hs : GScr.inv s = true) (y : Nat) {l : GRow}
    (hl : RowInv s.w l) : GScr.inv (s.setRow y l) = true := by
  obtain ⟨_, _, h3, h4, _⟩ := inv_iff.1 hs
  unfold GScr.setRow
  apply inv_rows hs
  · simp [h3]
  · intro l' hl'
    rcases List.mem_or_eq_of_mem_set hl' with h | h
    · exact h4 _ h
    · rw [h]; exact hl

/-- 2. `dch` commutes with `abs` and keeps the invariant -/
theorem dch_refines {s : GScr} (hs : GScr.inv s = true) (n : Nat) :
    (s.dch n).abs = s.abs.dch n ∧ GScr.inv (s.dch n) = true := by
  obtain ⟨_, _, h3, h4, h5, h6, _⟩ := inv_iff.1 hs
  have hmem : s.row s.cy ∈ s.rows := row_mem (by omega)
  have hl := h4 _ hmem
  have hlen : ((s.row s.cy).map GCell.abs).length = s.w := by rw [List.length_map]; exact hl.1
  unfold GScr.dch Scr.dch
  simp only [abs_cx, abs_cy, abs_sty, abs_row]
  by_cases hc : s.cx ≥ s.w ∨ n = 0
  · simp only [hc, if_true]
    refine ⟨?_, hs⟩
    have : Row.dch ((s.row s.cy).map GCell.abs) s.cx n s.sty = (s.row s.cy).map GCell.abs := by
      unfold Row.dch; simp only [hlen, hc, if_true]
    rw [this, ← abs_setRow]
    congr 1
    simp only [GScr.setRow, GScr.row, List.getD_eq_getElem?_getD,
      List.getElem?_eq_getElem (show s.cy < s.rows.length by omega), Option.getD_some,
      List.set_getElem_self]
  · simp only [hc, if_false]
    have hn : 0 < n := by omega
    have hx : s.cx < (s.row s.cy).length := by rw [hl.1]; exact h5
    have hxn : s.cx + min n (s.w - s.cx) ≤ (s.row s.cy).length := by rw [hl.1]; omega
    have ho := deleteChars_rowOK hl.ok s.cx (min n (s.w - s.cx)) s.sty hx (by omega) hxn
    refine ⟨?_, inv_setRow hs _ ⟨by rw [deleteChars_length _ _ _ _ hxn]; exact hl.1, ho.1, ho.2⟩⟩
    rw [abs_setRow, deleteChars_abs hl.ok _ _ _ hx (by omega) hxn]
    congr 1
    unfold Row.dch
    simp only [hlen]
    rw [if_neg (by omega), if_neg (by omega), Nat.min_assoc, Nat.min_self]

theorem dch_size (s : GScr) (n : Nat) : (s.dch n).w = s.w ∧ (s.dch n).h = s.h := by
  unfold GScr.dch
  split <;> exact ⟨rfl, rfl⟩

theorem clampNat_le (v : Int) (hi : Nat) : clampNat v hi ≤ hi := by
  unfold clampNat; omega

/-- 2. `setCursor` commutes with `abs` and keeps the invariant -/
theorem setCursor_refines {s : GScr} (hs : GScr.inv s = true) (x y : Int) :
    (s.setCursor x y).abs = s.abs.setCursor x y ∧ GScr.inv (s.setCursor x y) = true := by
  obtain ⟨h1, h2, _⟩ := inv_iff.1 hs
  refine ⟨rfl, ?_⟩
  unfold GScr.setCursor
  have := clampNat_le x (s.w - 1)
  have := clampNat_le y (s.h - 1)
  exact inv_cursor hs (by omega) (by omega)

/-- 2. `resize` commutes with `abs` and keeps the invariant (for a new size of at least 1×1) -/
theorem resize_refines {s : GScr} (hs : GScr.inv s = true) {w h : Nat} (hw : 1 ≤ w) (hh : 1 ≤ h) :
    (s.resize w h).abs = s.abs.resize w h ∧ GScr.inv (s.resize w h) = true := by
  obtain ⟨_, _, h3, h4, _⟩ := inv_iff.1 hs
  have hrow : ∀ l ∈ s.rows.take h, (l.resize w s.sty).map GCell.abs = fitRow (l.map GCell.abs) w s.sty ∧
      RowInv w (l.resize w s.sty) := by
    intro l hl
    have hl' := h4 l (List.mem_of_mem_take hl)
    have ho := resize_rowOK hl'.ok w s.sty
    exact ⟨resize_abs hl'.ok w s.sty, resize_length _ _ _, ho.1, ho.2⟩
  constructor
  · unfold GScr.resize Scr.resize
    simp only [GScr.abs, Scr.mk.injEq, true_and, and_true, List.map_append, List.map_replicate,
      abs_gBlankRow, List.length_map, List.length_take, List.map_map, ← List.map_take]
    refine ⟨?_, rfl, rfl, rfl, rfl⟩
    congr 1
    apply List.map_congr_left
    intro l hl
    exact (hrow l hl).1
  · have hc := clampNat_le ((h : Int) - ((s.h : Int) - (s.bot : Int))) (h - 1)
    rw [inv_iff]
    unfold GScr.resize
    refine ⟨hw, hh, ?_, ?_, ?_, ?_, ?_, ?_, Nat.min_le_right _ _, by simp only; omega⟩
    · simp only [List.length_append, List.length_map, List.length_take, List.length_replicate]; omega
    · intro l hl
      rcases List.mem_append.1 hl with hl | hl
      · obtain ⟨l0, hl0, rfl⟩ := List.mem_map.1 hl
        exact (hrow l0 hl0).2
      · rw [(List.mem_replicate.1 hl).2]
        exact rowInv_gBlankRow _ _
    · simp only; split <;> omega
    · simp only; split <;> omega
    · simp only; split <;> omega
    · simp only; split <;> omega

/-! ### put -/

def preC (s : Scr) (w : Nat) : Scr :=
  if s.cx + w > s.w then
    (if s.wrap then ({ s with cx := 0 } : Scr).lineDown else { s with cx := s.w - w })
  else s
def postC (s : Scr) (x : Nat) : Scr :=
  if x < s.w then { s with cx := x }
  else if s.wrap then ({ s with cx := x - s.w } : Scr).lineDown
  else { s with cx := s.w - 1 }

/-- the step of `put` before the write: wrap or pin at the right edge -/
def preG (s : GScr) (w : Nat) : GScr :=
  if s.cx + w > s.w then
    (if s.wrap then ({ s with cx := 0 } : GScr).lineDown else { s with cx := s.w - w })
  else s
/-- the step of `put` after the write: the cursor moves to column `x` -/
def postG (s : GScr) (x : Nat) : GScr :=
  if x < s.w then { s with cx := x }
  else if s.wrap then ({ s with cx := x - s.w } : GScr).lineDown
  else { s with cx := s.w - 1 }
def coreG (s : GScr) (rune : Nat) (w : Nat) : GScr :=
  postG (s.setRow s.cy ((s.row s.cy).writeRune s.cx rune w s.sty)) (s.cx + w)
def coreC (s : Scr) (text : Bytes) (w : Nat) : Scr :=
  postC (s.setRow s.cy ((s.row s.cy).put s.cx text w s.sty)) (s.cx + w)

theorem put_eqG (s : GScr) (text0 : Bytes) (w0 : Nat) :
    s.put text0 w0 =
      coreG (preG s (if max w0 1 > s.w then 1 else max w0 1))
        (if max w0 1 > s.w then 0xFFFD else (decodeRune text0).1) (if max w0 1 > s.w then 1 else max w0 1) := rfl

theorem put_eqC (s : Scr) (text0 : Bytes) (w0 : Nat) :
    s.put .blank text0 w0 =
      coreC (preC s (if max w0 1 > s.w then 1 else max w0 1))
        (if max w0 1 > s.w then replacementChar else text0) (if max w0 1 > s.w then 1 else max w0 1) := by
  unfold Scr.put coreC preC postC
  simp only [show (WidePolicy.blank == WidePolicy.keep) = false from rfl, Bool.and_false,
    Bool.false_eq_true, if_false, Nat.add_zero]
  rfl

theorem pre_refines {s : GScr} (hs : GScr.inv s = true) {w : Nat} (hw : 1 ≤ w) (hws : w ≤ s.w) :
    (preG s w).abs = preC s.abs w ∧ GScr.inv (preG s w) = true ∧
    (preG s w).cx + w ≤ (preG s w).w := by
  obtain ⟨h1, h2, h3, h4, h5, h6, _⟩ := inv_iff.1 hs
  by_cases hc : s.cx + w > s.w
  · cases hwr : s.wrap
    · have e1 : preG s w = { s with cx := s.w - w } := by
        simp only [preG, hc, hwr, if_true, Bool.false_eq_true, if_false]
      have e2 : preC s.abs w = { s.abs with cx := s.w - w } := by
        simp only [preC, abs_cx, abs_w, abs_wrap, hc, hwr, if_true, Bool.false_eq_true, if_false]
      rw [e1, e2]
      refine ⟨rfl, inv_cursor (x := s.w - w) (y := s.cy) hs (by omega) h6, ?_⟩
      simp only; omega
    · have e1 : preG s w = ({ s with cx := 0 } : GScr).lineDown := by
        simp only [preG, hc, hwr, if_true]
      have e2 : preC s.abs w = ({ s.abs with cx := 0 } : Scr).lineDown := by
        simp only [preC, abs_cx, abs_w, abs_wrap, hc, hwr, if_true]
      rw [e1, e2]
      have hs0 : GScr.inv ({ s with cx := 0 } : GScr) = true :=
        inv_cursor (x := 0) (y := s.cy) hs (by omega) h6
      refine ⟨abs_lineDown _, inv_lineDown hs0, ?_⟩
      rw [(lineDown_geom _).1, (lineDown_geom _).2.2.1]; simp only; omega
  · have e1 : preG s w = s := by simp only [preG, hc, if_false]
    have e2 : preC s.abs w = s.abs := by simp only [preC, abs_cx, abs_w, hc, if_false]
    rw [e1, e2]
    exact ⟨rfl, hs, by omega⟩

theorem post_refines {s : GScr} (hs : GScr.inv s = true) {x : Nat} (hx : x < 2 * s.w) :
    (postG s x).abs = postC s.abs x ∧ GScr.inv (postG s x) = true := by
  obtain ⟨h1, h2, h3, h4, h5, h6, _⟩ := inv_iff.1 hs
  by_cases hc : x < s.w
  · have e1 : postG s x = { s with cx := x } := by simp only [postG, hc, if_true]
    have e2 : postC s.abs x = { s.abs with cx := x } := by simp only [postC, abs_w, hc, if_true]
    rw [e1, e2]
    exact ⟨rfl, inv_cursor (y := s.cy) hs hc h6⟩
  · cases hwr : s.wrap
    · have e1 : postG s x = { s with cx := s.w - 1 } := by
        simp only [postG, hc, hwr, Bool.false_eq_true, if_false]
      have e2 : postC s.abs x = { s.abs with cx := s.w - 1 } := by
        simp only [postC, abs_w, abs_wrap, hc, hwr, Bool.false_eq_true, if_false]
      rw [e1, e2]
      exact ⟨rfl, inv_cursor (x := s.w - 1) (y := s.cy) hs (by omega) h6⟩
    · have e1 : postG s x = ({ s with cx := x - s.w } : GScr).lineDown := by
        simp only [postG, hc, hwr, if_true, if_false]
      have e2 : postC s.abs x = ({ s.abs with cx := x - s.w } : Scr).lineDown := by
        simp only [postC, abs_w, abs_wrap, hc, hwr, if_true, if_false]
      rw [e1, e2]
      have hs0 : GScr.inv ({ s with cx := x - s.w } : GScr) = true :=
        inv_cursor (x := x - s.w) (y := s.cy) hs (by omega) h6
      exact ⟨abs_lineDown _, inv_lineDown hs0⟩

theorem core_refines {s : GScr} (hs : GScr.inv s = true) (rune : Nat) {w : Nat} (hw : 1 ≤ w)
    (hxw : s.cx + w ≤ s.w) :
    (coreG s rune w).abs = coreC s.abs (encodeRune rune) w ∧ GScr.inv (coreG s rune w) = true := by
  obtain ⟨h1, h2, h3, h4, h5, h6, _⟩ := inv_iff.1 hs
  have hl := h4 _ (row_mem (s := s) (y := s.cy) (by omega))
  have hm : max w 1 = w := Nat.max_eq_left hw
  have hx : s.cx + max w 1 ≤ (s.row s.cy).length := by rw [hm, hl.1]; exact hxw
  have ho := writeRune_rowOK hl.ok s.cx rune w s.sty hx
  have hs1 := inv_setRow hs s.cy (l := (s.row s.cy).writeRune s.cx rune w s.sty)
    ⟨by rw [writeRune_length hl.ok _ _ _ _ hx]; exact hl.1, ho.1, ho.2⟩
  obtain ⟨p1, p2⟩ := post_refines hs1 (x := s.cx + w) (by show s.cx + w < 2 * s.w; omega)
  unfold coreG coreC
  refine ⟨?_, p2⟩
  rw [p1, abs_setRow, writeRune_abs hl.ok _ _ _ _ hx, hm]
  simp only [abs_row, abs_cx, abs_cy, abs_sty]

/-- 2. `put` (the single-rune path of `writeTokens`): the array-level screen after the write shows
    the cell-level screen after writing the encoding of the decoded rune — no hypothesis on the
    bytes of the token -/
theorem put_refines' {s : GScr} (hs : GScr.inv s = true) (text : Bytes) (w0 : Nat) :
    (s.put text w0).abs = s.abs.put .blank (encodeRune (decodeRune text).1) w0 ∧
    GScr.inv (s.put text w0) = true := by
  obtain ⟨h1, _⟩ := inv_iff.1 hs
  rw [put_eqG, put_eqC]
  simp only [abs_w]
  by_cases htw : max w0 1 > s.w
  · simp only [htw, if_true]
    obtain ⟨q1, q2, q3⟩ := pre_refines hs (w := 1) (Nat.le_refl 1) h1
    rw [← q1]
    exact core_refines q2 0xFFFD (Nat.le_refl 1) q3
  · simp only [htw, if_false]
    obtain ⟨q1, q2, q3⟩ := pre_refines hs (w := max w0 1) (by omega) (by omega)
    rw [← q1]
    exact core_refines q2 _ (by omega) q3

/-- 2. `put` for a token of the tokeniser (its stored bytes are the encoding of its scalar) -/
theorem put_refines {s : GScr} (hs : GScr.inv s = true) {text : Bytes} {w0 : Nat}
    (htok : encodeRune (decodeRune text).1 = text) :
    (s.put text w0).abs = s.abs.put .blank text w0 ∧ GScr.inv (s.put text w0) = true := by
  have := put_refines' hs text w0
  rwa [htok] at this

theorem postG_size (s : GScr) (x : Nat) : (postG s x).w = s.w ∧ (postG s x).h = s.h := by
  unfold postG
  split
  · exact ⟨rfl, rfl⟩
  · split
    · have := lineDown_geom ({ s with cx := x - s.w } : GScr); exact ⟨this.1, this.2.1⟩
    · exact ⟨rfl, rfl⟩

theorem preG_size (s : GScr) (x : Nat) : (preG s x).w = s.w ∧ (preG s x).h = s.h := by
  unfold preG
  split
  · split
    · have := lineDown_geom ({ s with cx := 0 } : GScr); exact ⟨this.1, this.2.1⟩
    · exact ⟨rfl, rfl⟩
  · exact ⟨rfl, rfl⟩

theorem put_size (s : GScr) (text : Bytes) (w0 : Nat) :
    (s.put text w0).w = s.w ∧ (s.put text w0).h = s.h := by
  rw [put_eqG]
  unfold coreG
  have h1 := postG_size
  have h2 := preG_size s (if max w0 1 > s.w then 1 else max w0 1)
  constructor
  · rw [(h1 _ _).1]; exact h2.1
  · rw [(h1 _ _).2]; exact h2.2

/-- 2. an array-level screen satisfying `GScr.inv` shows a cell-level screen satisfying `Scr.inv` -/
theorem abs_inv {s : GScr} (hs : GScr.inv s = true) : s.abs.inv = true := by
  obtain ⟨h1, h2, h3, h4, h5, h6, h7, h8, h9, h10⟩ := inv_iff.1 hs
  simp only [Scr.inv, abs_w, abs_h, abs_cx, abs_cy, abs_sx, abs_sy, abs_top, abs_bot, abs_grid,
    Bool.and_eq_true, List.all_eq_true, List.length_map]
  refine ⟨⟨⟨⟨⟨⟨⟨⟨⟨decide_eq_true h1, decide_eq_true h2⟩, decide_eq_true h3⟩, ?_⟩, decide_eq_true h5⟩,
    decide_eq_true h6⟩, decide_eq_true h7⟩, decide_eq_true h8⟩, decide_eq_true h9⟩, decide_eq_true h10⟩
  intro r hr
  obtain ⟨l, hl, rfl⟩ := List.mem_map.1 hr
  have := h4 l hl
  exact ⟨decide_eq_true (by rw [List.length_map]; exact this.1), this.2.2⟩

/-! ### where stored cells come from: the `chars` array stays consistent with `cellText` -/

theorem mem_mapIdx_cases {r : GRow} {f : Nat → GCell → GCell} {P : GCell → Prop}
    (h : ∀ i c, c ∈ r → P (f i c)) : ∀ c ∈ r.mapIdx f, P c := by
  intro c hc
  obtain ⟨i, hi, rfl⟩ := List.mem_mapIdx.1 hc
  exact h i _ (List.getElem_mem hi)

theorem clearWideAt_cells (r : GRow) (x : Nat) (st : Style) :
    ∀ c ∈ r.clearWideAt x st, c ∈ r ∨ c = gBlank st := by
  rw [clearWideAt_eq]
  split
  · exact fun c hc => Or.inl hc
  · apply mem_mapIdx_cases
    intro i c hc
    split
    · exact Or.inr rfl
    · exact Or.inl hc

theorem gFix_cells (r : GRow) (x : Nat) (st : Style) : ∀ c ∈ gFix r x st, c ∈ r ∨ c = gBlank st := by
  unfold gFix
  split
  · exact clearWideAt_cells r x st
  · exact fun c hc => Or.inl hc

theorem gFix2_cells (r : GRow) (x y : Nat) (st : Style) :
    ∀ c ∈ gFix (gFix r x st) y st, c ∈ r ∨ c = gBlank st := by
  intro c hc
  rcases gFix_cells _ _ _ c hc with h | h
  · exact gFix_cells _ _ _ c h
  · exact Or.inr h

/-- 1. every cell `writeBlanks` leaves in the row is an old cell or the canonical blank -/
theorem writeBlanks_cells (r : GRow) (x n : Nat) (st : Style) (hx : x + n ≤ r.length) :
    ∀ c ∈ r.writeBlanks x n st, c ∈ r ∨ c = gBlank st := by
  by_cases hn : 0 < n
  · rw [writeBlanks_eq x n st hn hx]
    apply mem_mapIdx_cases
    intro i c hc
    split
    · exact Or.inr rfl
    · exact gFix2_cells _ _ _ _ c hc
  · rw [show n = 0 by omega, writeBlanks_zero]
    exact fun c hc => Or.inl hc

/-- 1. every cell `writeRune` leaves in the row is an old cell, the canonical blank, the head cell
    of the written rune (`chars` = the rune, `cellText` = its encoding) or a continuation cell -/
theorem writeRune_cells {r : GRow} (h : RowOK r) (x rune w : Nat) (st : Style) (hx : x + max w 1 ≤ r.length) :
    ∀ c ∈ r.writeRune x rune w st,
      c ∈ r ∨ c = gBlank st ∨ c = gHead rune (max w 1) st ∨ c = gCont st := by
  rw [writeRune_eq h x rune w st hx]
  apply mem_mapIdx_cases
  intro i c hc
  split
  · exact Or.inr (Or.inr (Or.inl rfl))
  · split
    · exact Or.inr (Or.inr (Or.inr rfl))
    · rcases gFix2_cells _ _ _ _ c hc with h | h
      · exact Or.inl h
      · exact Or.inr (Or.inl h)

/-- 1. every cell `deleteChars` leaves in the row is an old cell or the canonical blank -/
theorem deleteChars_cells (r : GRow) (x n : Nat) (st : Style) :
    ∀ c ∈ r.deleteChars x n st, c ∈ r ∨ c = gBlank st := by
  rw [deleteChars_eq]
  intro c hc
  rcases List.mem_append.1 hc with hc | hc
  · rcases List.mem_append.1 hc with hc | hc
    · exact gFix2_cells _ _ _ _ c (List.mem_of_mem_take hc)
    · exact gFix2_cells _ _ _ _ c (List.mem_of_mem_drop hc)
  · exact Or.inr (List.mem_replicate.1 hc).2

/-- 1. every cell of a resized row is an old cell or the canonical blank -/
theorem resize_cells (r : GRow) (w : Nat) (st : Style) :
    ∀ c ∈ r.resize w st, c ∈ r ∨ c = gBlank st := by
  have hcl : ∀ (k : Nat) (r' : GRow), (∀ c ∈ r', c ∈ r ∨ c = gBlank st) →
      ∀ c ∈ GRow.cutLoop st k r', c ∈ r ∨ c = gBlank st := by
    intro k
    induction k with
    | zero => intro r' hr; exact hr
    | succ k ih =>
      intro r' hr
      have hs : ∀ c ∈ r'.set k (gBlank st), c ∈ r ∨ c = gBlank st := by
        intro c hc
        rcases List.mem_or_eq_of_mem_set hc with hc | hc
        · exact hr c hc
        · exact Or.inr hc
      unfold GRow.cutLoop
      simp only []
      split
      · exact ih _ hs
      · exact hs
  have h1 : ∀ c ∈ r.take w ++ List.replicate (w - r.length) (gBlank st), c ∈ r ∨ c = gBlank st := by
    intro c hc
    rcases List.mem_append.1 hc with hc | hc
    · exact Or.inl (List.mem_of_mem_take hc)
    · exact Or.inr (List.mem_replicate.1 hc).2
  unfold GRow.resize
  simp only []
  split
  · exact hcl _ _ h1
  · exact h1

/-! ### non-vacuity at row level: `a中___` -/

def zh : Bytes := [0xe4, 0xb8, 0xad]
def exRow : GRow :=
  [⟨0x61, [0x61], 1, false, Style.default⟩, ⟨0x4E2D, zh, 2, false, Style.default⟩, gCont Style.default,
   gBlank Style.default, gBlank Style.default, gBlank Style.default]

example : RowOK exRow ∧ RowInv 6 exRow :=
  ⟨⟨by decide, by decide⟩, by decide, by decide, by decide⟩
-- the second cell of the wide character: `clearWideAt` walks back to column 1 and blanks both cells
example : gBase exRow 2 = 1 ∧ exRow.clearWideAt 2 Style.default =
    [⟨0x61, [0x61], 1, false, Style.default⟩, gBlank Style.default, gBlank Style.default,
     gBlank Style.default, gBlank Style.default, gBlank Style.default] := by decide
-- a write onto the second cell, an erase ending inside the character, DCH cutting it, a resize cutting it
example : (exRow.writeRune 2 0x62 1 Style.default).map GCell.abs =
    Row.put (exRow.map GCell.abs) 2 [0x62] 1 Style.default ∧
    (exRow.writeRune 2 0x62 1 Style.default)[1]? = some (gBlank Style.default) := by decide
example : (exRow.writeBlanks 0 2 Style.default).map GCell.abs =
    Row.erase (exRow.map GCell.abs) 0 2 Style.default ∧
    (exRow.writeBlanks 0 2 Style.default)[2]? = some (gBlank Style.default) := by decide
example : (exRow.deleteChars 2 1 Style.default).map GCell.abs =
    Row.dch (exRow.map GCell.abs) 2 1 Style.default ∧
    (exRow.deleteChars 2 1 Style.default)[1]? = some (gBlank Style.default) := by decide
example : (exRow.resize 2 Style.default).map GCell.abs = fitRow (exRow.map GCell.abs) 2 Style.default ∧
    exRow.resize 2 Style.default = [⟨0x61, [0x61], 1, false, Style.default⟩, gBlank Style.default] := by decide

/-! ## TERMINAL LEVEL -/

/-!
The terminal over cell-grid screens (`TM/GridTerm.lean`) refines the model terminal with the grid
policy (`.blank`): port of `Props/C02SpanTerm.lean` from `STerm`/`SScr` to `GTerm`/`GScr`, built on
the screen-level theorems above.

* 1 geometry-only updates: `setMargins_refines`, `saveCursor_refines`, `restoreCursor_refines`,
  `setCx_refines`, `setSty_refines`, `setWrap_refines`
* 2 `Ref r q` (same state through `abs`, equal events, invariant); `setScr_ref`, `withScr_ref`;
  `switchScreen_refines`, `decMode_refines`, `decModes_refines`, `csiPlain_refines`, `csi_refines`;
  **`apply_refines`**, **`term_resize_refines`**, `apply_size`
* 3 `run_refines_from`, **`run_refines`** (`term_abs_init`, `term_inv_init`)
* 4 `tokWF_of_tokOK`, **`stream_refines`**, **`stream_rows`** (`abs_row`, `row_mem`)
* 5 non-vacuity on a 6×3 terminal; `apply_needs_tokWF`

(the terminal-level `abs_init`, `inv_init`, `resize_refines` of the template are named
`term_abs_init`, `term_inv_init`, `term_resize_refines` here: the screen-level ones live in the
same namespace)
-/

/-! ## 1. geometry-only updates -/

/-- `setMargins` (DECSTBM) commutes with `abs`, keeps the invariant and the size -/
theorem setMargins_refines {s : GScr} (hs : GScr.inv s = true) (t b : Int) :
    (s.setMargins t b).abs = s.abs.setMargins t b ∧ GScr.inv (s.setMargins t b) = true ∧
    (s.setMargins t b).w = s.w ∧ (s.setMargins t b).h = s.h := by
  obtain ⟨h1, h2, h3, h4, h5, h6, h7, h8, h9, h10⟩ := inv_iff.1 hs
  have e : s.abs.setMargins t b =
      if t > b then s.abs else
        if clampNat t (s.h - 1) > clampNat b (s.h - 1) then s.abs
        else { s.abs with top := clampNat t (s.h - 1), bot := clampNat b (s.h - 1) } := rfl
  rw [e]
  unfold GScr.setMargins
  by_cases c1 : t > b
  · rw [if_pos c1, if_pos c1]; exact ⟨rfl, hs, rfl, rfl⟩
  · rw [if_neg c1, if_neg c1]
    by_cases c2 : clampNat t (s.h - 1) > clampNat b (s.h - 1)
    · rw [if_pos c2, if_pos c2]; exact ⟨rfl, hs, rfl, rfl⟩
    · rw [if_neg c2, if_neg c2]
      refine ⟨rfl, ?_, rfl, rfl⟩
      have := clampNat_le b (s.h - 1)
      exact inv_iff.2 ⟨h1, h2, h3, h4, h5, h6, h7, h8, by simp only; omega, by simp only; omega⟩

/-- `saveCursor` (CSI s) commutes with `abs` and keeps the invariant -/
theorem saveCursor_refines {s : GScr} (hs : GScr.inv s = true) :
    s.saveCursor.abs = s.abs.saveCursor ∧ GScr.inv s.saveCursor = true := by
  obtain ⟨h1, h2, h3, h4, h5, h6, h7, h8, h9, h10⟩ := inv_iff.1 hs
  exact ⟨rfl, inv_iff.2 ⟨h1, h2, h3, h4, h5, h6, h5, h6, h9, h10⟩⟩

/-- `restoreCursor` (CSI u) commutes with `abs` and keeps the invariant -/
theorem restoreCursor_refines {s : GScr} (hs : GScr.inv s = true) :
    s.restoreCursor.abs = s.abs.restoreCursor ∧ GScr.inv s.restoreCursor = true := by
  obtain ⟨h1, h2, h3, h4, h5, h6, h7, h8, h9, h10⟩ := inv_iff.1 hs
  exact ⟨rfl, inv_iff.2 ⟨h1, h2, h3, h4, h7, h8, h7, h8, h9, h10⟩⟩

/-- moving the cursor to a column inside the screen commutes with `abs` and keeps the invariant -/
theorem setCx_refines {s : GScr} (hs : GScr.inv s = true) {x : Nat} (hx : x < s.w) :
    ({ s with cx := x } : GScr).abs = { s.abs with cx := x } ∧
    GScr.inv { s with cx := x } = true :=
  ⟨rfl, inv_cursor (y := s.cy) hs hx (inv_iff.1 hs).2.2.2.2.2.1⟩

/-- changing the rendition commutes with `abs` and keeps the invariant -/
theorem setSty_refines {s : GScr} (hs : GScr.inv s = true) (st : Style) :
    ({ s with sty := st } : GScr).abs = { s.abs with sty := st } ∧
    GScr.inv { s with sty := st } = true := ⟨rfl, hs⟩

/-- changing autowrap commutes with `abs` and keeps the invariant -/
theorem setWrap_refines {s : GScr} (hs : GScr.inv s = true) (v : Bool) :
    ({ s with wrap := v } : GScr).abs = { s.abs with wrap := v } ∧
    GScr.inv { s with wrap := v } = true := ⟨rfl, hs⟩
/-! ## 2. the terminal: helpers -/

@[simp] theorem abs_onAlt (st : GTerm) : st.abs.onAlt = st.onAlt := rfl

theorem abs_scr (st : GTerm) : st.abs.scr = st.scr.abs := by
  rcases st with ⟨m, a, o, _, _, _, _, _⟩
  cases o <;> rfl

theorem abs_kbd (st : GTerm) : st.abs.kbd = st.kbd := by
  rcases st with ⟨m, a, o, _, _, _, _, _⟩
  cases o <;> rfl

theorem ginv_iff {st : GTerm} :
    GTerm.inv st = true ↔
      GScr.inv st.main = true ∧ GScr.inv st.alt = true ∧ st.main.w = st.alt.w ∧ st.main.h = st.alt.h := by
  simp [GTerm.inv, and_assoc]

theorem inv_scr {st : GTerm} (hi : GTerm.inv st = true) : GScr.inv st.scr = true := by
  obtain ⟨h1, h2, _⟩ := ginv_iff.1 hi
  unfold GTerm.scr
  split <;> assumption

/-- the grid-level result `r` refines the cell-level result `q`: same state through `abs`, the same
    events, and the invariant holds -/
def Ref (r : GTerm × List Ev) (q : Term × List Ev) : Prop :=
  r.1.abs = q.1 ∧ r.2 = q.2 ∧ GTerm.inv r.1 = true

theorem ref_same {st : GTerm} (hi : GTerm.inv st = true) (evs : List Ev) :
    Ref (st, evs) (st.abs, evs) := ⟨rfl, rfl, hi⟩

/-- lifting a screen-level fact to `setScr` on the active buffer -/
theorem setScr_ref {st : GTerm} (hi : GTerm.inv st = true) {s' : GScr} {c : Scr}
    (h : s'.abs = c ∧ GScr.inv s' = true) (hw : s'.w = st.scr.w) (hh : s'.h = st.scr.h)
    {evs evs' : List Ev} (he : evs = evs') :
    Ref (st.setScr s', evs) (st.abs.setScr c, evs') := by
  obtain ⟨h1, h2, h3, h4⟩ := ginv_iff.1 hi
  obtain ⟨ha, hs'⟩ := h
  subst ha he
  rcases st with ⟨m, a, o, _, _, _, _, _⟩
  cases o
  · change s'.w = m.w at hw
    change s'.h = m.h at hh
    change GScr.inv m = true at h1
    change GScr.inv a = true at h2
    change m.w = a.w at h3
    change m.h = a.h at h4
    exact ⟨rfl, rfl, ginv_iff.2 ⟨hs', h2, hw.trans h3, hh.trans h4⟩⟩
  · change s'.w = a.w at hw
    change s'.h = a.h at hh
    change GScr.inv m = true at h1
    change GScr.inv a = true at h2
    change m.w = a.w at h3
    change m.h = a.h at h4
    exact ⟨rfl, rfl, ginv_iff.2 ⟨h1, hs', h3.trans hw.symm, h4.trans hh.symm⟩⟩

/-- lifting a screen-level fact to `withScr` (the new cursor is reported) -/
theorem withScr_ref {st : GTerm} (hi : GTerm.inv st = true) {s' : GScr} {c : Scr}
    (h : s'.abs = c ∧ GScr.inv s' = true) (hw : s'.w = st.scr.w) (hh : s'.h = st.scr.h) :
    Ref (st.withScr s') (st.abs.withScr c) := by
  unfold GTerm.withScr Term.withScr
  refine setScr_ref hi h hw hh ?_
  rw [← h.1]; rfl

theorem setVFlag_ref {st : GTerm} (hi : GTerm.inv st = true) (i : Nat) (v : Bool) :
    Ref (st.setVFlag i v) (st.abs.setVFlag i v) := ⟨rfl, rfl, hi⟩
theorem setVInt_ref {st : GTerm} (hi : GTerm.inv st = true) (i : Nat) (v : Int) :
    Ref (st.setVInt i v) (st.abs.setVInt i v) := ⟨rfl, rfl, hi⟩
theorem setVStr_ref {st : GTerm} (hi : GTerm.inv st = true) (i : Nat) (v : Bytes) :
    Ref (st.setVStr i v) (st.abs.setVStr i v) := ⟨rfl, rfl, hi⟩

theorem setKbd_ref {st : GTerm} (hi : GTerm.inv st = true) (k : Kbd) (evs : List Ev) :
    Ref (st.setKbd k, evs) (st.abs.setKbd k, evs) := by
  rcases st with ⟨m, a, o, _, _, _, _, _⟩
  cases o <;> exact ⟨rfl, rfl, hi⟩


/-! ## 2. the dispatch functions -/

theorem switchScreen_refines {st : GTerm} (hi : GTerm.inv st = true) (v : Bool) :
    Ref (st.switchScreen v) (st.abs.switchScreen v) := by
  rcases st with ⟨m, a, o, _, _, _, _, _⟩
  cases o <;> cases v <;> exact ⟨rfl, rfl, hi⟩

theorem decMode_refines {st : GTerm} (hi : GTerm.inv st = true) (p : Int) (v : Bool) :
    Ref (st.decMode p v) (st.abs.decMode p v) := by
  unfold GTerm.decMode Term.decMode
  by_cases h : p = 1
  · rw [if_pos h, if_pos h]; exact setVFlag_ref hi _ _
  rw [if_neg h, if_neg h]; clear h
  by_cases h : p = 7
  · rw [if_pos h, if_pos h, abs_scr]
    exact setScr_ref hi (setWrap_refines (inv_scr hi) v) rfl rfl rfl
  rw [if_neg h, if_neg h]; clear h
  by_cases h : p = 9
  · rw [if_pos h, if_pos h]; exact setVInt_ref hi _ _
  rw [if_neg h, if_neg h]; clear h
  by_cases h : p = 12
  · rw [if_pos h, if_pos h]; exact setVFlag_ref hi _ _
  rw [if_neg h, if_neg h]; clear h
  by_cases h : p = 25
  · rw [if_pos h, if_pos h]; exact setVFlag_ref hi _ _
  rw [if_neg h, if_neg h]; clear h
  by_cases h : p = 1000
  · rw [if_pos h, if_pos h]; exact setVInt_ref hi _ _
  rw [if_neg h, if_neg h]; clear h
  by_cases h : p = 1002
  · rw [if_pos h, if_pos h]; exact setVInt_ref hi _ _
  rw [if_neg h, if_neg h]; clear h
  by_cases h : p = 1003
  · rw [if_pos h, if_pos h]; exact setVInt_ref hi _ _
  rw [if_neg h, if_neg h]; clear h
  by_cases h : p = 1004
  · rw [if_pos h, if_pos h]; exact setVFlag_ref hi _ _
  rw [if_neg h, if_neg h]; clear h
  by_cases h : p = 1005
  · rw [if_pos h, if_pos h]; exact setVInt_ref hi _ _
  rw [if_neg h, if_neg h]; clear h
  by_cases h : p = 1006
  · rw [if_pos h, if_pos h]; exact setVInt_ref hi _ _
  rw [if_neg h, if_neg h]; clear h
  by_cases h : p = 1015
  · rw [if_pos h, if_pos h]; exact setVInt_ref hi _ _
  rw [if_neg h, if_neg h]; clear h
  by_cases h : p = 1049
  · rw [if_pos h, if_pos h]; exact switchScreen_refines hi v
  rw [if_neg h, if_neg h]; clear h
  by_cases h : p = 2004
  · rw [if_pos h, if_pos h]; exact setVFlag_ref hi _ _
  rw [if_neg h, if_neg h]; clear h
  exact ref_same hi _

/-- two clamped erasures in a row -/
theorem erase2_refines {s : GScr} (hs : GScr.inv s = true)
    (a1 a2 a3 a4 b1 b2 b3 b4 : Int) :
    (((s.eraseRegionI a1 a2 a3 a4).eraseRegionI b1 b2 b3 b4).abs =
        (s.abs.eraseRegionI a1 a2 a3 a4).eraseRegionI b1 b2 b3 b4 ∧
      GScr.inv ((s.eraseRegionI a1 a2 a3 a4).eraseRegionI b1 b2 b3 b4) = true) ∧
    ((s.eraseRegionI a1 a2 a3 a4).eraseRegionI b1 b2 b3 b4).w = s.w ∧
    ((s.eraseRegionI a1 a2 a3 a4).eraseRegionI b1 b2 b3 b4).h = s.h := by
  obtain ⟨e1, e2⟩ := eraseRegionI_refines hs a1 a2 a3 a4
  obtain ⟨f1, f2⟩ := eraseRegionI_refines e2 b1 b2 b3 b4
  refine ⟨⟨by rw [f1, e1], f2⟩, ?_, ?_⟩
  · rw [(eraseRegionI_geom _ b1 b2 b3 b4).1, (eraseRegionI_geom s a1 a2 a3 a4).1]
  · rw [(eraseRegionI_geom _ b1 b2 b3 b4).2.1, (eraseRegionI_geom s a1 a2 a3 a4).2.1]

/-- a clamped erasure followed by a cursor motion (`ED 2`) -/
theorem eraseCur_refines {s : GScr} (hs : GScr.inv s = true)
    (a1 a2 a3 a4 x y : Int) :
    (((s.eraseRegionI a1 a2 a3 a4).setCursor x y).abs =
        (s.abs.eraseRegionI a1 a2 a3 a4).setCursor x y ∧
      GScr.inv ((s.eraseRegionI a1 a2 a3 a4).setCursor x y) = true) ∧
    ((s.eraseRegionI a1 a2 a3 a4).setCursor x y).w = s.w ∧
    ((s.eraseRegionI a1 a2 a3 a4).setCursor x y).h = s.h := by
  obtain ⟨e1, e2⟩ := eraseRegionI_refines hs a1 a2 a3 a4
  obtain ⟨f1, f2⟩ := setCursor_refines e2 x y
  refine ⟨⟨by rw [f1, e1], f2⟩, ?_, ?_⟩
  · exact (eraseRegionI_geom s a1 a2 a3 a4).1
  · exact (eraseRegionI_geom s a1 a2 a3 a4).2.1

/-- the unprefixed CSI dispatch commutes with `abs` -/
theorem csiPlain_refines {st : GTerm} (hi : GTerm.inv st = true)
    (ps : List Int) (fin : UInt8) :
    Ref (st.csiPlain ps fin) (st.abs.csiPlain ps fin) := by
  have hs := inv_scr hi
  simp only [GTerm.csiPlain, Term.csiPlain]
  rw [abs_scr]
  by_cases h : fin = 0x41
  · rw [if_pos h, if_pos h]
    exact withScr_ref hi (setCursor_refines hs _ _) rfl rfl
  rw [if_neg h, if_neg h]; clear h
  by_cases h : fin = 0x42
  · rw [if_pos h, if_pos h]
    exact withScr_ref hi (setCursor_refines hs _ _) rfl rfl
  rw [if_neg h, if_neg h]; clear h
  by_cases h : fin = 0x43
  · rw [if_pos h, if_pos h]
    exact withScr_ref hi (setCursor_refines hs _ _) rfl rfl
  rw [if_neg h, if_neg h]; clear h
  by_cases h : fin = 0x44
  · rw [if_pos h, if_pos h]
    exact withScr_ref hi (setCursor_refines hs _ _) rfl rfl
  rw [if_neg h, if_neg h]; clear h
  by_cases h : fin = 0x47
  · rw [if_pos h, if_pos h]
    exact withScr_ref hi (setCursor_refines hs _ _) rfl rfl
  rw [if_neg h, if_neg h]; clear h
  by_cases h : fin = 0x64
  · rw [if_pos h, if_pos h]
    exact withScr_ref hi (setCursor_refines hs _ _) rfl rfl
  rw [if_neg h, if_neg h]; clear h
  by_cases h : fin = 0x66 ∨ fin = 0x48
  · rw [if_pos h, if_pos h]
    exact withScr_ref hi (setCursor_refines hs _ _) rfl rfl
  rw [if_neg h, if_neg h]; clear h
  by_cases h : fin = 0x63
  · rw [if_pos h, if_pos h]
    by_cases h : p0 ps 0 = 0
    · rw [if_pos h, if_pos h]
      exact ref_same hi _
    rw [if_neg h, if_neg h]; clear h
    exact ref_same hi _
  rw [if_neg h, if_neg h]; clear h
  by_cases h : fin = 0x6d
  · rw [if_pos h, if_pos h]
    exact setScr_ref hi (setSty_refines hs (applySGR st.scr.sty (match ps with | [] => [0] | _ => ps))) rfl rfl rfl
  rw [if_neg h, if_neg h]; clear h
  by_cases h : fin = 0x73
  · rw [if_pos h, if_pos h]
    exact setScr_ref hi (saveCursor_refines hs) rfl rfl rfl
  rw [if_neg h, if_neg h]; clear h
  by_cases h : fin = 0x75
  · rw [if_pos h, if_pos h]
    exact withScr_ref hi (restoreCursor_refines hs) rfl rfl
  rw [if_neg h, if_neg h]; clear h
  by_cases h : fin = 0x4b
  · rw [if_pos h, if_pos h]
    by_cases h : p0 ps 0 = 0
    · rw [if_pos h, if_pos h]
      exact setScr_ref hi (eraseRegionI_refines hs _ _ _ _) (eraseRegionI_geom ..).1 (eraseRegionI_geom ..).2.1 rfl
    rw [if_neg h, if_neg h]; clear h
    by_cases h : p0 ps 0 = 1
    · rw [if_pos h, if_pos h]
      exact setScr_ref hi (eraseRegionI_refines hs _ _ _ _) (eraseRegionI_geom ..).1 (eraseRegionI_geom ..).2.1 rfl
    rw [if_neg h, if_neg h]; clear h
    by_cases h : p0 ps 0 = 2
    · rw [if_pos h, if_pos h]
      exact setScr_ref hi (eraseRegionI_refines hs _ _ _ _) (eraseRegionI_geom ..).1 (eraseRegionI_geom ..).2.1 rfl
    rw [if_neg h, if_neg h]; clear h
    exact ref_same hi _
  rw [if_neg h, if_neg h]; clear h
  by_cases h : fin = 0x4a
  · rw [if_pos h, if_pos h]
    by_cases h : p0 ps 0 = 0
    · rw [if_pos h, if_pos h]
      exact setScr_ref hi (erase2_refines hs ..).1 (erase2_refines hs ..).2.1 (erase2_refines hs ..).2.2 rfl
    rw [if_neg h, if_neg h]; clear h
    by_cases h : p0 ps 0 = 1
    · rw [if_pos h, if_pos h]
      exact setScr_ref hi (erase2_refines hs ..).1 (erase2_refines hs ..).2.1 (erase2_refines hs ..).2.2 rfl
    rw [if_neg h, if_neg h]; clear h
    by_cases h : p0 ps 0 = 2
    · rw [if_pos h, if_pos h]
      exact setScr_ref hi (eraseCur_refines hs ..).1 (eraseCur_refines hs ..).2.1 (eraseCur_refines hs ..).2.2 rfl
    rw [if_neg h, if_neg h]; clear h
    exact ref_same hi _
  rw [if_neg h, if_neg h]; clear h
  by_cases h : fin = 0x4c
  · rw [if_pos h, if_pos h]
    by_cases hr : st.scr.inRegion = true
    · rw [if_pos hr, if_pos (show st.scr.abs.inRegion = true from hr)]
      exact setScr_ref hi ⟨abs_scroll _ _ _ _, inv_scroll hs _ _ _⟩ (scroll_geom ..).1 (scroll_geom ..).2.1 rfl
    · rw [if_neg hr, if_neg (show ¬ st.scr.abs.inRegion = true from hr)]
      exact ref_same hi _
  rw [if_neg h, if_neg h]; clear h
  by_cases h : fin = 0x4d
  · rw [if_pos h, if_pos h]
    by_cases hr : st.scr.inRegion = true
    · rw [if_pos hr, if_pos (show st.scr.abs.inRegion = true from hr)]
      exact setScr_ref hi ⟨abs_scroll _ _ _ _, inv_scroll hs _ _ _⟩ (scroll_geom ..).1 (scroll_geom ..).2.1 rfl
    · rw [if_neg hr, if_neg (show ¬ st.scr.abs.inRegion = true from hr)]
      exact ref_same hi _
  rw [if_neg h, if_neg h]; clear h
  by_cases h : fin = 0x53
  · rw [if_pos h, if_pos h]
    exact setScr_ref hi ⟨abs_scroll _ _ _ _, inv_scroll hs _ _ _⟩ (scroll_geom ..).1 (scroll_geom ..).2.1 rfl
  rw [if_neg h, if_neg h]; clear h
  by_cases h : fin = 0x54
  · rw [if_pos h, if_pos h]
    exact setScr_ref hi ⟨abs_scroll _ _ _ _, inv_scroll hs _ _ _⟩ (scroll_geom ..).1 (scroll_geom ..).2.1 rfl
  rw [if_neg h, if_neg h]; clear h
  by_cases h : fin = 0x50
  · rw [if_pos h, if_pos h]
    by_cases h : p0 ps 1 ≤ 0
    · rw [if_pos h, if_pos h]
      exact ref_same hi _
    rw [if_neg h, if_neg h]; clear h
    exact setScr_ref hi (dch_refines hs _) (dch_size ..).1 (dch_size ..).2 rfl
  rw [if_neg h, if_neg h]; clear h
  by_cases h : fin = 0x58
  · rw [if_pos h, if_pos h]
    exact setScr_ref hi (eraseRegionI_refines hs _ _ _ _) (eraseRegionI_geom ..).1 (eraseRegionI_geom ..).2.1 rfl
  rw [if_neg h, if_neg h]; clear h
  by_cases h : fin = 0x72
  · rw [if_pos h, if_pos h]
    exact setScr_ref hi ⟨(setMargins_refines hs _ _).1, (setMargins_refines hs _ _).2.1⟩ (setMargins_refines hs _ _).2.2.1 (setMargins_refines hs _ _).2.2.2 rfl
  rw [if_neg h, if_neg h]; clear h
  by_cases h : fin = 0x6e
  · rw [if_pos h, if_pos h]
    by_cases h : p0 ps 0 = 5
    · rw [if_pos h, if_pos h]
      exact ref_same hi _
    rw [if_neg h, if_neg h]; clear h
    by_cases h : p0 ps 0 = 6
    · rw [if_pos h, if_pos h]
      exact ⟨rfl, rfl, hi⟩
    rw [if_neg h, if_neg h]; clear h
    exact ref_same hi _
  rw [if_neg h, if_neg h]; clear h
  exact ref_same hi _

/-- a list of private modes (`CSI ? … h/l`) -/
theorem decModes_refines (v : Bool) : ∀ (ps : List Int) {st : GTerm}, GTerm.inv st = true →
    Ref (st.decModes v ps) (st.abs.decModes v ps)
  | [], _, hi => ref_same hi _
  | p :: ps, st, hi => by
    obtain ⟨a1, a2, a3⟩ := decMode_refines hi p v
    obtain ⟨b1, b2, b3⟩ := decModes_refines v ps a3
    have e1 : st.decModes v (p :: ps) =
        (((st.decMode p v).1.decModes v ps).1, (st.decMode p v).2 ++ ((st.decMode p v).1.decModes v ps).2) := rfl
    have e2 : st.abs.decModes v (p :: ps) =
        (((st.abs.decMode p v).1.decModes v ps).1,
          (st.abs.decMode p v).2 ++ ((st.abs.decMode p v).1.decModes v ps).2) := rfl
    rw [e1, e2, ← a1, ← a2]
    exact ⟨b1, by rw [b2], b3⟩

/-- the CSI dispatch (all prefixes) commutes with `abs` -/
theorem csi_refines {st : GTerm} (hi : GTerm.inv st = true)
    (pfx : UInt8) (ps : List Int) (fin : UInt8) :
    Ref (st.csi pfx ps fin) (st.abs.csi pfx ps fin) := by
  unfold GTerm.csi Term.csi
  rw [abs_kbd]
  by_cases h : pfx = 0
  · rw [if_pos h, if_pos h]; exact csiPlain_refines hi ps fin
  rw [if_neg h, if_neg h]; clear h
  by_cases h : pfx = 0x3f
  · rw [if_pos h, if_pos h]
    by_cases h1 : fin = 0x75
    · rw [if_pos h1, if_pos h1]; exact ref_same hi _
    rw [if_neg h1, if_neg h1]
    by_cases h2 : fin = 0x68
    · rw [if_pos h2, if_pos h2]; exact decModes_refines true ps hi
    rw [if_neg h2, if_neg h2]
    by_cases h3 : fin = 0x6c
    · rw [if_pos h3, if_pos h3]; exact decModes_refines false ps hi
    rw [if_neg h3, if_neg h3]
    exact ref_same hi _
  rw [if_neg h, if_neg h]; clear h
  by_cases h : pfx = 0x3e
  · rw [if_pos h, if_pos h]
    by_cases h1 : fin = 0x63
    · rw [if_pos h1, if_pos h1]; exact ref_same hi _
    rw [if_neg h1, if_neg h1]
    by_cases h2 : fin = 0x6d
    · rw [if_pos h2, if_pos h2]
      cases modifyOtherKeysMode ps none with
      | none => exact ref_same hi _
      | some m =>
        show Ref (if m ≥ 0 then st.setVInt 2 m else (st, [])) (if m ≥ 0 then st.abs.setVInt 2 m else (st.abs, []))
        by_cases hm : m ≥ 0
        · rw [if_pos hm, if_pos hm]; exact setVInt_ref hi _ _
        · rw [if_neg hm, if_neg hm]; exact ref_same hi _
    rw [if_neg h2, if_neg h2]
    by_cases h3 : fin = 0x75
    · rw [if_pos h3, if_pos h3]; exact setKbd_ref hi _ _
    rw [if_neg h3, if_neg h3]
    exact ref_same hi _
  rw [if_neg h, if_neg h]; clear h
  by_cases h : pfx = 0x3c
  · rw [if_pos h, if_pos h]
    by_cases h1 : fin = 0x75
    · rw [if_pos h1, if_pos h1]; exact setKbd_ref hi _ _
    rw [if_neg h1, if_neg h1]
    exact ref_same hi _
  rw [if_neg h, if_neg h]; clear h
  by_cases h : pfx = 0x3d
  · rw [if_pos h, if_pos h]
    by_cases h1 : fin = 0x75
    · rw [if_pos h1, if_pos h1]; exact setKbd_ref hi _ _
    rw [if_neg h1, if_neg h1]
    exact ref_same hi _
  rw [if_neg h, if_neg h]; clear h
  exact ref_same hi _

/-! ## 2. one token -/

/-- the token hypothesis: a text token carries one character with its own width (what the
    tokeniser yields, `tokWF_of_tokOK`); nothing for the other tokens -/
def TokWF : Tok → Prop
  | .text stored _ => encodeRune (decodeRune stored).1 = stored
  | _ => True

theorem lf_refines {s : GScr} (hs : GScr.inv s = true) :
    (({ s with cx := 0 } : GScr).lineDown.abs = ({ s.abs with cx := 0 } : Scr).lineDown ∧
      GScr.inv ({ s with cx := 0 } : GScr).lineDown = true) ∧
    ({ s with cx := 0 } : GScr).lineDown.w = s.w ∧ ({ s with cx := 0 } : GScr).lineDown.h = s.h := by
  have h1 := (inv_iff.1 hs).1
  have hs0 := (setCx_refines hs (x := 0) (by omega)).2
  exact ⟨⟨abs_lineDown _, inv_lineDown hs0⟩, (lineDown_geom _).1, (lineDown_geom _).2.1⟩

/-- **`apply_refines`**: for every token, the grid-level terminal after the token shows the model
    terminal after the token, the events are equal, the invariant is kept -/
theorem apply_refines (cw : Nat → Nat) {st : GTerm}
    (hi : GTerm.inv st = true) {tok : Tok} (htok : TokWF tok) :
    ((st.apply cw tok).1).abs = (st.abs.apply cw tok).1 ∧
    (st.apply cw tok).2 = (st.abs.apply cw tok).2 ∧
    GTerm.inv (st.apply cw tok).1 = true := by
  have hs := inv_scr hi
  show Ref (st.apply cw tok) (st.abs.apply cw tok)
  cases tok with
  | text stored cp =>
    simp only [GTerm.apply, Term.apply]
    rw [abs_scr]
    have hp := put_refines hs (w0 := cw cp) htok
    refine setScr_ref hi hp (put_size ..).1 (put_size ..).2 ?_
    show _ = [Ev.region 0 0 st.scr.abs.w st.scr.abs.h 0,
      Ev.cursor (Scr.put .blank st.scr.abs stored (cw cp)).cx (Scr.put .blank st.scr.abs stored (cw cp)).cy]
    rw [← hp.1]; rfl
  | ctl b =>
    simp only [GTerm.apply, Term.apply]
    rw [abs_scr]
    have h5 := (inv_iff.1 hs).2.2.2.2.1
    by_cases h : b = 7
    · rw [if_pos h, if_pos h]; exact ref_same hi _
    rw [if_neg h, if_neg h]; clear h
    by_cases h : b = 8 ∨ b = 127
    · rw [if_pos h, if_pos h]
      exact withScr_ref hi (setCx_refines hs (x := st.scr.cx - 1) (by omega)) rfl rfl
    rw [if_neg h, if_neg h]; clear h
    by_cases h : b = 9
    · rw [if_pos h, if_pos h]
      exact withScr_ref hi (setCursor_refines hs _ _) rfl rfl
    rw [if_neg h, if_neg h]; clear h
    by_cases h : b = 10
    · rw [if_pos h, if_pos h]
      exact withScr_ref hi (lf_refines hs).1 (lf_refines hs).2.1 (lf_refines hs).2.2
    rw [if_neg h, if_neg h]; clear h
    by_cases h : b = 12
    · rw [if_pos h, if_pos h]
      exact withScr_ref hi ⟨abs_lineDown _, inv_lineDown hs⟩ (lineDown_geom _).1 (lineDown_geom _).2.1
    rw [if_neg h, if_neg h]; clear h
    by_cases h : b = 13
    · rw [if_pos h, if_pos h]
      exact withScr_ref hi (setCx_refines hs (x := 0) (by omega)) rfl rfl
    rw [if_neg h, if_neg h]; clear h
    exact ref_same hi _
  | esc inter fin =>
    simp only [GTerm.apply, Term.apply]
    rw [abs_scr]
    by_cases h : inter ≠ []
    · rw [if_pos h, if_pos h]; exact ref_same hi _
    rw [if_neg h, if_neg h]; clear h
    by_cases h : fin = 0x44
    · rw [if_pos h, if_pos h]
      exact withScr_ref hi ⟨abs_lineDown _, inv_lineDown hs⟩ (lineDown_geom _).1 (lineDown_geom _).2.1
    rw [if_neg h, if_neg h]; clear h
    by_cases h : fin = 0x4d
    · rw [if_pos h, if_pos h]
      exact withScr_ref hi ⟨abs_lineUp _, inv_lineUp hs⟩ (lineUp_size _).1 (lineUp_size _).2
    rw [if_neg h, if_neg h]; clear h
    by_cases h : fin = 0x3d
    · rw [if_pos h, if_pos h]; exact setVFlag_ref hi _ _
    rw [if_neg h, if_neg h]; clear h
    by_cases h : fin = 0x3e
    · rw [if_pos h, if_pos h]; exact setVFlag_ref hi _ _
    rw [if_neg h, if_neg h]; clear h
    exact ref_same hi _
  | csi pfx ps clean fin =>
    simp only [GTerm.apply, Term.apply]
    cases clean
    · exact ref_same hi _
    · exact csi_refines hi pfx ps fin
  | osc num payload wf =>
    simp only [GTerm.apply, Term.apply]
    cases wf
    · exact ref_same hi _
    · show Ref (if num = 0 ∨ num = 2 then _ else _) (if num = 0 ∨ num = 2 then _ else _)
      by_cases h : num = 0 ∨ num = 2
      · rw [if_pos h, if_pos h]; exact setVStr_ref hi _ _
      rw [if_neg h, if_neg h]; clear h
      by_cases h : num = 6
      · rw [if_pos h, if_pos h]; exact setVStr_ref hi _ _
      rw [if_neg h, if_neg h]; clear h
      by_cases h : num = 7
      · rw [if_pos h, if_pos h]; exact setVStr_ref hi _ _
      rw [if_neg h, if_neg h]; clear h
      exact ref_same hi _
  | dcs => exact ref_same hi _

/-- **`term_resize_refines`**: `Resize(w,h)` of both buffers commutes with `abs`, the events are
    equal, the invariant is kept -/
theorem term_resize_refines {st : GTerm} (hi : GTerm.inv st = true)
    {w h : Nat} (hw : 1 ≤ w) (hh : 1 ≤ h) :
    ((st.resize w h).1).abs = (st.abs.resize w h).1 ∧
    (st.resize w h).2 = (st.abs.resize w h).2 ∧
    GTerm.inv (st.resize w h).1 = true := by
  obtain ⟨h1, h2, h3, h4⟩ := ginv_iff.1 hi
  obtain ⟨m1, m2⟩ := resize_refines h1 hw hh
  obtain ⟨a1, a2⟩ := resize_refines h2 hw hh
  have e1 : ((st.resize w h).1).abs = (st.abs.resize w h).1 := by
    show GTerm.abs { st with main := st.main.resize w h, alt := st.alt.resize w h } =
      { st.abs with main := (st.main.abs).resize w h, alt := (st.alt.abs).resize w h }
    rw [← m1, ← a1]; rfl
  refine ⟨e1, ?_, ginv_iff.2 ⟨m2, a2, rfl, rfl⟩⟩
  show [Ev.style (st.main.resize w h).sty, .style (st.alt.resize w h).sty,
      .cursor ((st.resize w h).1).scr.cx ((st.resize w h).1).scr.cy, .style ((st.resize w h).1).scr.sty] =
    [Ev.style ((st.main.abs).resize w h).sty, .style ((st.alt.abs).resize w h).sty,
      .cursor ((st.abs.resize w h).1).scr.cx ((st.abs.resize w h).1).scr.cy,
      .style ((st.abs.resize w h).1).scr.sty]
  rw [← e1, abs_scr, ← m1, ← a1]; rfl

/-- sizes of both buffers after a token (through the model terminal, `C10.apply_geo`) -/
theorem apply_size (cw : Nat → Nat) {st : GTerm}
    (hi : GTerm.inv st = true) {tok : Tok} (htok : TokWF tok) :
    (st.apply cw tok).1.main.w = st.main.w ∧ (st.apply cw tok).1.main.h = st.main.h ∧
    (st.apply cw tok).1.alt.w = st.alt.w ∧ (st.apply cw tok).1.alt.h = st.alt.h := by
  have hn : C10.NeedWF st.abs := fun _ => by
    rw [abs_scr]; exact C10.Lemmas.inv_rowsWF (abs_inv (inv_scr hi))
  obtain ⟨_, g1, g2, g3, g4, _⟩ := C10.Lemmas.apply_geo cw st.abs tok hn
  have e := (apply_refines cw hi htok).1
  rw [← e] at g1 g2 g3 g4
  exact ⟨g1, g2, g3, g4⟩

/-! ### 3. token lists -/

/-- the grid-level terminal after a list of tokens -/
def gStateAfter (cw : Nat → Nat) (st : GTerm) (toks : List Tok) : GTerm :=
  toks.foldl (fun t tk => (GTerm.apply cw t tk).1) st

/-- the events the grid-level terminal emits along a list of tokens -/
def gEventsOf (cw : Nat → Nat) : GTerm → List Tok → List Ev
  | _, [] => []
  | t, tok :: toks => (GTerm.apply cw t tok).2 ++ gEventsOf cw (GTerm.apply cw t tok).1 toks

/-- runs of tokens from any state satisfying the invariant -/
theorem run_refines_from (cw : Nat → Nat) (toks : List Tok) :
    ∀ {st : GTerm}, GTerm.inv st = true → (∀ tok ∈ toks, TokWF tok) →
    (gStateAfter cw st toks).abs = C10.stateAfter cw st.abs toks ∧
    gEventsOf cw st toks = C10.eventsOf cw st.abs toks ∧
    GTerm.inv (gStateAfter cw st toks) = true ∧
    (gStateAfter cw st toks).main.w = st.main.w ∧ (gStateAfter cw st toks).main.h = st.main.h := by
  induction toks with
  | nil => intro st hi _; exact ⟨rfl, rfl, hi, rfl, rfl⟩
  | cons tok toks ih =>
    intro st hi hok
    have ht : TokWF tok := hok tok (List.mem_cons_self ..)
    obtain ⟨a1, a2, a3⟩ := apply_refines cw hi ht
    obtain ⟨z1, z2, _⟩ := apply_size cw hi ht
    obtain ⟨b1, b2, b3, b4, b5⟩ := ih a3 (fun t h => hok t (List.mem_cons_of_mem _ h))
    show (gStateAfter cw (st.apply cw tok).1 toks).abs =
        C10.stateAfter cw (st.abs.apply cw tok).1 toks ∧
      (st.apply cw tok).2 ++ gEventsOf cw (st.apply cw tok).1 toks =
        (st.abs.apply cw tok).2 ++ C10.eventsOf cw (st.abs.apply cw tok).1 toks ∧
      GTerm.inv (gStateAfter cw (st.apply cw tok).1 toks) = true ∧
      (gStateAfter cw (st.apply cw tok).1 toks).main.w = st.main.w ∧
      (gStateAfter cw (st.apply cw tok).1 toks).main.h = st.main.h
    rw [← a1, ← a2, b2]
    exact ⟨b1, rfl, b3, b4.trans z1, b5.trans z2⟩

theorem term_abs_init (w h : Nat) : (GTerm.init w h).abs = Term.init .blank w h := by
  show ({ pol := .blank, main := (GScr.init w h).abs, alt := (GScr.init w h).abs } : Term) = _
  rw [abs_init]; rfl

theorem term_inv_init {w h : Nat} (hw : 1 ≤ w) (hh : 1 ≤ h) :
    GTerm.inv (GTerm.init w h) = true :=
  ginv_iff.2 ⟨inv_init hw hh, inv_init hw hh, rfl, rfl⟩

/-- **`run_refines`**: from the initial terminal, along every list of tokens whose text tokens are
    well formed: `abs` of the grid-level terminal is the model terminal (state and events), and the
    invariant holds -/
theorem run_refines (cw : Nat → Nat) {w h : Nat} (hw : 1 ≤ w) (hh : 1 ≤ h)
    (toks : List Tok) (hok : ∀ tok ∈ toks, TokWF tok) :
    (gStateAfter cw (GTerm.init w h) toks).abs = C10.stateAfter cw (Term.init .blank w h) toks ∧
    gEventsOf cw (GTerm.init w h) toks = C10.eventsOf cw (Term.init .blank w h) toks ∧
    GTerm.inv (gStateAfter cw (GTerm.init w h) toks) = true := by
  obtain ⟨a, b, c, _⟩ := run_refines_from cw toks (term_inv_init hw hh) hok
  rw [term_abs_init] at a b
  exact ⟨a, b, c⟩

/-! ### 4. byte streams -/

/-- every token the tokeniser yields is well formed for the grid buffer: its stored bytes are the
    encoding of the scalar they decode to -/
theorem tokWF_of_tokOK {tok : Tok} (h : C11M.TokOK tok) : TokWF tok := by
  cases tok with
  | text stored cp =>
    obtain ⟨hv, h32, h127, rfl⟩ := h
    show encodeRune (decodeRune (encodeRune cp)).1 = encodeRune cp
    have hd := C11.Lemmas.decodeRune_encodeRune cp [] hv
    rw [List.append_nil] at hd
    rw [hd]
  | ctl _ => trivial
  | esc _ _ => trivial
  | csi _ _ _ _ => trivial
  | osc _ _ _ => trivial
  | dcs => trivial

/-- **`stream_refines`** (capstone): for every byte string, size and width function: the terminal
    over cell-grid screens, fed the tokens of the stream, shows exactly the model terminal (grid
    policy `.blank`) after the stream; it emitted the same events; its invariant holds -/
theorem stream_refines (cw : Nat → Nat) {w h : Nat} (hw : 1 ≤ w) (hh : 1 ≤ h)
    (bs : Bytes) :
    (gStateAfter cw (GTerm.init w h) (C10.toksOf bs)).abs = (run cw (Term.init .blank w h) bs).1 ∧
    gEventsOf cw (GTerm.init w h) (C10.toksOf bs) = (run cw (Term.init .blank w h) bs).2.1 ∧
    GTerm.inv (gStateAfter cw (GTerm.init w h) (C10.toksOf bs)) = true := by
  have hok : ∀ tok ∈ C10.toksOf bs, TokWF tok :=
    fun tok h => tokWF_of_tokOK (C11M.Lemmas.toksFuel_tokOK _ bs tok h)
  obtain ⟨a, b, c⟩ := run_refines cw hw hh (C10.toksOf bs) hok
  have h1 : (run cw (Term.init .blank w h) bs).1 = C10.stateAfter cw (Term.init .blank w h) (C10.toksOf bs) :=
    C10.runFuel_state ..
  have h2 : (run cw (Term.init .blank w h) bs).2.1 = C10.eventsOf cw (Term.init .blank w h) (C10.toksOf bs) := by
    unfold run; rw [C10.Lemmas.runFuel_events]; rfl
  rw [h1, h2]
  exact ⟨a, b, c⟩

/-- **`stream_rows`**: the capstone row by row. For every input: both buffers of the code-shaped
    data structure keep the size `w × h`, have `h` rows, and every row is a row of `w` consistent
    cells (`RowInv`) showing exactly the cells of that row of the model terminal -/
theorem stream_rows (cw : Nat → Nat) {w h : Nat} (hw : 1 ≤ w) (hh : 1 ≤ h)
    (bs : Bytes) :
    let S := gStateAfter cw (GTerm.init w h) (C10.toksOf bs)
    let T := (run cw (Term.init .blank w h) bs).1
    S.main.w = w ∧ S.main.h = h ∧ S.alt.w = w ∧ S.alt.h = h ∧
    S.main.rows.length = h ∧ S.alt.rows.length = h ∧ S.onAlt = T.onAlt ∧
    ∀ y, y < h →
      RowInv w (S.main.row y) ∧ T.main.row y = (S.main.row y).map GCell.abs ∧
      RowInv w (S.alt.row y) ∧ T.alt.row y = (S.alt.row y).map GCell.abs := by
  intro S T
  have hok : ∀ tok ∈ C10.toksOf bs, TokWF tok :=
    fun tok h => tokWF_of_tokOK (C11M.Lemmas.toksFuel_tokOK _ bs tok h)
  obtain ⟨_, _, c, d1, d2⟩ := run_refines_from cw (C10.toksOf bs) (term_inv_init (w := w) (h := h) hw hh) hok
  have hT : S.abs = T := (stream_refines cw hw hh bs).1
  obtain ⟨i1, i2, i3, i4⟩ := ginv_iff.1 c
  change S.main.w = w at d1
  change S.main.h = h at d2
  change GScr.inv S.main = true at i1
  change GScr.inv S.alt = true at i2
  change S.main.w = S.alt.w at i3
  change S.main.h = S.alt.h at i4
  obtain ⟨_, _, m3, m4, _⟩ := inv_iff.1 i1
  obtain ⟨_, _, n3, n4, _⟩ := inv_iff.1 i2
  refine ⟨d1, d2, i3 ▸ d1, i4 ▸ d2, m3.trans d2, n3.trans (i4 ▸ d2), by rw [← hT]; rfl, ?_⟩
  intro y hy
  have hm : RowInv w (S.main.row y) := by
    rw [← d1]; exact m4 _ (row_mem (by omega))
  have ha : RowInv w (S.alt.row y) := by
    rw [← d1, i3]; exact n4 _ (row_mem (by omega))
  refine ⟨hm, ?_, ha, ?_⟩
  · rw [← hT]; exact abs_row S.main y
  · rw [← hT]; exact abs_row S.alt y

/-! ### 5. non-vacuity: a concrete stream on a 6×3 terminal -/

open TM.C02SpanScreen (cwS zhong) in
/-- row 0: `a中`, CUP onto the second cell of `中`, `b` (the grid blanks the wide character: `a_b`);
    row 1: `x中中`, CUP onto the first cell of the first `中`, `EL 1` (the erasure ends inside the wide
    character, which is blanked whole: `___中`); row 2: `xy中z`, CUP to column 1, `DCH 2` (cuts the
    wide character: `x_z`); `?1049h`, `中中`, CUP onto the second cell of the first `中`, `ECH 2`
    (starts inside one wide character and ends inside the next: both blanked), CUP, `中`
    at columns 3-4 of row 1, `?1049l` -/
def exBytes : Bytes :=
  [0x61, 0xe4, 0xb8, 0xad, 0x1b, 0x5b, 0x31, 0x3b, 0x33, 0x48, 0x62,
   0x1b, 0x5b, 0x32, 0x3b, 0x31, 0x48, 0x78, 0xe4, 0xb8, 0xad, 0xe4, 0xb8, 0xad,
   0x1b, 0x5b, 0x32, 0x3b, 0x32, 0x48, 0x1b, 0x5b, 0x31, 0x4b,
   0x1b, 0x5b, 0x33, 0x3b, 0x31, 0x48, 0x78, 0x79, 0xe4, 0xb8, 0xad, 0x7a,
   0x1b, 0x5b, 0x33, 0x3b, 0x32, 0x48, 0x1b, 0x5b, 0x32, 0x50,
   0x1b, 0x5b, 0x3f, 0x31, 0x30, 0x34, 0x39, 0x68, 0xe4, 0xb8, 0xad, 0xe4, 0xb8, 0xad,
   0x1b, 0x5b, 0x31, 0x3b, 0x32, 0x48, 0x1b, 0x5b, 0x32, 0x58,
   0x1b, 0x5b, 0x32, 0x3b, 0x34, 0x48, 0xe4, 0xb8, 0xad,
   0x1b, 0x5b, 0x3f, 0x31, 0x30, 0x34, 0x39, 0x6c]

open TM.C02SpanScreen (cwS zhong) in
def exToks : List Tok :=
  [.text [0x61] 0x61, .text zhong 0x4E2D, .csi 0 [1, 3] true 0x48, .text [0x62] 0x62,
   .csi 0 [2, 1] true 0x48, .text [0x78] 0x78, .text zhong 0x4E2D, .text zhong 0x4E2D,
   .csi 0 [2, 2] true 0x48, .csi 0 [1] true 0x4b,
   .csi 0 [3, 1] true 0x48, .text [0x78] 0x78, .text [0x79] 0x79, .text zhong 0x4E2D, .text [0x7a] 0x7a,
   .csi 0 [3, 2] true 0x48, .csi 0 [2] true 0x50,
   .csi 0x3f [1049] true 0x68, .text zhong 0x4E2D, .text zhong 0x4E2D,
   .csi 0 [1, 2] true 0x48, .csi 0 [2] true 0x58, .csi 0 [2, 4] true 0x48, .text zhong 0x4E2D,
   .csi 0x3f [1049] true 0x6c]

section nonvacuity
open TM.C02SpanScreen (cwS zhong)

example : C10.toksOf exBytes = exToks := by decide
theorem exToks_ok : ∀ tok ∈ exToks, TokWF tok := by
  have e : C10.toksOf exBytes = exToks := by decide
  rw [← e]
  exact fun tok h => tokWF_of_tokOK (C11M.Lemmas.toksFuel_tokOK _ exBytes tok h)
example : TokWF (.text zhong 0x4E2D) := (by decide : encodeRune (decodeRune zhong).1 = zhong)

/-- the grid-level terminal after the stream -/
def exS : GTerm := gStateAfter cwS (GTerm.init 6 3) exToks
/-- the model terminal (grid policy) after the stream -/
def exT : Term := (run cwS (Term.init .blank 6 3) exBytes).1

/-- a stored cell that is not blank -/
def gCh (rune : Nat) (text : Bytes) (width : Nat) : GCell := ⟨rune, text, width, false, Style.default⟩

/-- two screens with the same fields are equal (comparing the fields one by one is much faster for
    `decide` than the derived equality of `Scr`) -/
theorem scr_ext {s t : Scr}
    (h : s.w = t.w ∧ s.h = t.h ∧ s.grid = t.grid ∧ s.cx = t.cx ∧ s.cy = t.cy ∧ s.sx = t.sx ∧ s.sy = t.sy ∧
      s.top = t.top ∧ s.bot = t.bot ∧ s.wrap = t.wrap ∧ s.sty = t.sty) : s = t := by
  cases s; cases t
  obtain ⟨h1, h2, h3, h4, h5, h6, h7, h8, h9, h10, h11⟩ := h
  simp only at h1 h2 h3 h4 h5 h6 h7 h8 h9 h10 h11
  subst h1 h2 h3 h4 h5 h6 h7 h8 h9 h10 h11
  rfl

-- `abs` of the grid-level result is the model's result, buffer by buffer, and the events agree
set_option maxRecDepth 100000 in
example : exS.abs.main = exT.main ∧ exS.abs.alt = exT.alt ∧ exS.abs.onAlt = exT.onAlt ∧
    exS.abs.vflags = exT.vflags ∧ exS.abs.pol = exT.pol ∧ GTerm.inv exS = true :=
  ⟨scr_ext (by decide), scr_ext (by decide), by decide, by decide, by decide, by decide⟩
set_option maxRecDepth 100000 in
example : gEventsOf cwS (GTerm.init 6 3) exToks = (run cwS (Term.init .blank 6 3) exBytes).2.1 := by decide
-- the raw stored cells of the main buffer: `a_b___` (the wide character was blanked by the write on
-- its second cell), `___中·_` (`EL 1` ended inside the first wide character), `x_z___` (`DCH 2` cut
-- the wide character); the alternate buffer: blank row (`ECH 2` cut both wide characters), `___中·_`
set_option maxRecDepth 100000 in
example :
    exS.main.rows = [
      [gCh 0x61 [0x61] 1, gBlank Style.default, gCh 0x62 [0x62] 1, gBlank Style.default, gBlank Style.default,
        gBlank Style.default],
      [gBlank Style.default, gBlank Style.default, gBlank Style.default, gCh 0x4E2D zhong 2, gCont Style.default,
        gBlank Style.default],
      [gCh 0x78 [0x78] 1, gBlank Style.default, gCh 0x7a [0x7a] 1, gBlank Style.default, gBlank Style.default,
        gBlank Style.default]] ∧
    exS.alt.rows = [
      gBlankRow 6 Style.default,
      [gBlank Style.default, gBlank Style.default, gBlank Style.default, gCh 0x4E2D zhong 2, gCont Style.default,
        gBlank Style.default],
      gBlankRow 6 Style.default] ∧
    exS.main.cx = 1 ∧ exS.main.cy = 2 ∧ exS.alt.cx = 5 ∧ exS.alt.cy = 1 ∧ exS.onAlt = false := by decide
-- the theorems instantiated on the example
example : exS.abs = exT ∧ GTerm.inv exS = true := by
  have e : C10.toksOf exBytes = exToks := by decide
  have := stream_refines cwS (w := 6) (h := 3) (by decide) (by decide) exBytes
  rw [e] at this
  exact ⟨this.1, this.2.2⟩
-- before `b`: the wide character and its continuation cell; after `b` was written with the cursor
-- on the second cell of `中`: the wide character is blanked (the run-level buffer keeps it)
set_option maxRecDepth 100000 in
example :
    (gStateAfter cwS (GTerm.init 6 3) (exToks.take 3)).main.rows[0]? =
      some [gCh 0x61 [0x61] 1, gCh 0x4E2D zhong 2, gCont Style.default, gBlank Style.default,
        gBlank Style.default, gBlank Style.default] ∧
    (gStateAfter cwS (GTerm.init 6 3) (exToks.take 3)).main.cx = 2 ∧
    (gStateAfter cwS (GTerm.init 6 3) (exToks.take 4)).main.rows[0]? =
      some [gCh 0x61 [0x61] 1, gBlank Style.default, gCh 0x62 [0x62] 1, gBlank Style.default,
        gBlank Style.default, gBlank Style.default] := by decide
-- before `EL 1` (row 1 `x中中_`, cursor on the first cell of the first `中`) and before `DCH 2`
set_option maxRecDepth 100000 in
example :
    (gStateAfter cwS (GTerm.init 6 3) (exToks.take 9)).main.rows[1]? =
      some [gCh 0x78 [0x78] 1, gCh 0x4E2D zhong 2, gCont Style.default, gCh 0x4E2D zhong 2, gCont Style.default,
        gBlank Style.default] ∧
    (gStateAfter cwS (GTerm.init 6 3) (exToks.take 9)).main.cx = 1 ∧
    (gStateAfter cwS (GTerm.init 6 3) (exToks.take 16)).main.rows[2]? =
      some [gCh 0x78 [0x78] 1, gCh 0x79 [0x79] 1, gCh 0x4E2D zhong 2, gCont Style.default, gCh 0x7a [0x7a] 1,
        gBlank Style.default] ∧
    (gStateAfter cwS (GTerm.init 6 3) (exToks.take 16)).main.cx = 1 := by decide
-- `Resize(4,2)` afterwards cuts the wide character of row 1 in both buffers (its continuation cell
-- was at column 4): `abs` of the result is the model's, the events agree, the invariant holds, and
-- the cut character is stored as blanks
set_option maxRecDepth 100000 in
example : (exS.resize 4 2).1.abs.main = (exS.abs.resize 4 2).1.main ∧
    (exS.resize 4 2).1.abs.alt = (exS.abs.resize 4 2).1.alt ∧
    (exS.resize 4 2).2 = (exS.abs.resize 4 2).2 ∧ GTerm.inv (exS.resize 4 2).1 = true ∧
    (exS.resize 4 2).1.main.rows = [
      [gCh 0x61 [0x61] 1, gBlank Style.default, gCh 0x62 [0x62] 1, gBlank Style.default],
      gBlankRow 4 Style.default] ∧
    (exS.resize 4 2).1.alt.rows = [gBlankRow 4 Style.default, gBlankRow 4 Style.default] :=
  ⟨scr_ext (by decide), scr_ext (by decide), by decide, by decide, by decide, by decide⟩
-- the same against the model terminal after the stream
set_option maxRecDepth 100000 in
example : (exS.resize 4 2).1.abs.main = (exT.resize 4 2).1.main ∧
    (exS.resize 4 2).1.abs.alt = (exT.resize 4 2).1.alt ∧ (exS.resize 4 2).2 = (exT.resize 4 2).2 :=
  ⟨scr_ext (by decide), scr_ext (by decide), by decide⟩
-- `Resize(5,3)` keeps the wide character of row 1 whole (`___中·`), `Resize(3,3)` drops it whole
set_option maxRecDepth 100000 in
example : (exS.resize 5 3).1.abs.main = (exS.abs.resize 5 3).1.main ∧
    (exS.resize 5 3).1.abs.alt = (exS.abs.resize 5 3).1.alt ∧ GTerm.inv (exS.resize 5 3).1 = true ∧
    (exS.resize 5 3).1.main.rows[1]? = some [gBlank Style.default, gBlank Style.default, gBlank Style.default,
      gCh 0x4E2D zhong 2, gCont Style.default] ∧
    (exS.resize 3 3).1.abs.main = (exS.abs.resize 3 3).1.main ∧ GTerm.inv (exS.resize 3 3).1 = true ∧
    (exS.resize 3 3).1.main.rows[1]? = some (gBlankRow 3 Style.default) :=
  ⟨scr_ext (by decide), scr_ext (by decide), by decide, by decide, scr_ext (by decide), by decide, by decide⟩
-- the theorem instantiated
example : (exS.resize 4 2).1.abs = (exS.abs.resize 4 2).1 ∧ GTerm.inv (exS.resize 4 2).1 = true := by
  have hi : GTerm.inv exS = true := by
    set_option maxRecDepth 100000 in decide
  have := term_resize_refines hi (w := 4) (h := 2) (by decide) (by decide)
  exact ⟨this.1, this.2.2⟩

/-- the token hypothesis of `apply_refines` is needed: a text token carrying two characters (never
    produced by the tokeniser) is stored by the grid as its first rune only, the model terminal
    keeps both bytes -/
theorem apply_needs_tokWF :
    GTerm.inv (GTerm.init 3 1) = true ∧ ¬ TokWF (.text [0x61, 0x62] 0x61) ∧
    ((GTerm.init 3 1).apply cwS (.text [0x61, 0x62] 0x61)).1.main.abs ≠
      ((GTerm.init 3 1).abs.apply cwS (.text [0x61, 0x62] 0x61)).1.main := by
  refine ⟨by decide, ?_, ?_⟩
  · show ¬ encodeRune (decodeRune [0x61, 0x62]).1 = [0x61, 0x62]
    decide
  · intro h
    have h3 := congrArg Scr.grid h
    revert h3
    set_option maxRecDepth 100000 in decide

end nonvacuity

end TM.C20Grid

#print axioms TM.C20Grid.gBase_headOf
#print axioms TM.C20Grid.clearWideAt_abs
#print axioms TM.C20Grid.clearWideAt_length
#print axioms TM.C20Grid.clearWideAt_rowOK
#print axioms TM.C20Grid.writeBlanks_abs
#print axioms TM.C20Grid.writeBlanks_length
#print axioms TM.C20Grid.writeBlanks_rowOK
#print axioms TM.C20Grid.writeBlanks_cells
#print axioms TM.C20Grid.writeRune_abs
#print axioms TM.C20Grid.writeRune_length
#print axioms TM.C20Grid.writeRune_rowOK
#print axioms TM.C20Grid.writeRune_cells
#print axioms TM.C20Grid.deleteChars_abs
#print axioms TM.C20Grid.deleteChars_length
#print axioms TM.C20Grid.deleteChars_rowOK
#print axioms TM.C20Grid.deleteChars_cells
#print axioms TM.C20Grid.resize_abs
#print axioms TM.C20Grid.resize_length
#print axioms TM.C20Grid.resize_rowOK
#print axioms TM.C20Grid.resize_cells
#print axioms TM.C20Grid.blankLoop_simple
#print axioms TM.C20Grid.cutLoop_eq
#print axioms TM.C20Grid.abs_init
#print axioms TM.C20Grid.inv_init
#print axioms TM.C20Grid.abs_scroll
#print axioms TM.C20Grid.inv_scroll
#print axioms TM.C20Grid.abs_lineDown
#print axioms TM.C20Grid.inv_lineDown
#print axioms TM.C20Grid.abs_lineUp
#print axioms TM.C20Grid.inv_lineUp
#print axioms TM.C20Grid.eraseRegion_refines
#print axioms TM.C20Grid.eraseRegionI_refines
#print axioms TM.C20Grid.dch_refines
#print axioms TM.C20Grid.setCursor_refines
#print axioms TM.C20Grid.resize_refines
#print axioms TM.C20Grid.put_refines'
#print axioms TM.C20Grid.put_refines
#print axioms TM.C20Grid.abs_inv
#print axioms TM.C20Grid.setMargins_refines
#print axioms TM.C20Grid.saveCursor_refines
#print axioms TM.C20Grid.restoreCursor_refines
#print axioms TM.C20Grid.setCx_refines
#print axioms TM.C20Grid.setSty_refines
#print axioms TM.C20Grid.setWrap_refines
#print axioms TM.C20Grid.switchScreen_refines
#print axioms TM.C20Grid.decMode_refines
#print axioms TM.C20Grid.decModes_refines
#print axioms TM.C20Grid.csiPlain_refines
#print axioms TM.C20Grid.csi_refines
#print axioms TM.C20Grid.apply_refines
#print axioms TM.C20Grid.term_resize_refines
#print axioms TM.C20Grid.apply_size
#print axioms TM.C20Grid.run_refines_from
#print axioms TM.C20Grid.term_abs_init
#print axioms TM.C20Grid.term_inv_init
#print axioms TM.C20Grid.run_refines
#print axioms TM.C20Grid.tokWF_of_tokOK
#print axioms TM.C20Grid.stream_refines
#print axioms TM.C20Grid.stream_rows
#print axioms TM.C20Grid.apply_needs_tokWF
