import TM.SpanScreen
import Props.C02Span
import Props.C02
/-!
# C02SpanScreen — the span buffer at screen level refines the cell-level screen

`TM/SpanScreen.lean` stores a screen the way the Go code does: a list of rows of runs (`SLine`).
`SScr.abs cw` maps it to the cell-level screen `TM.Scr`.  The theorems below say that every
screen-level operation (`scroll`, `lineDown`, `lineUp`, `put`, `eraseRegion(I)`, `dch`, `resize`,
`setCursor`, and the dispatcher `apply`) commutes with `abs` and keeps the invariant `SScr.inv`
(geometry of `Scr.inv` + every row a well-formed row of runs `lineWF cw w`), for every width
function `cw` with `cw 0x20 ≤ 1` (a blank is one cell).  `put` needs in addition the token
hypothesis `clusters cw text = [(text, max w0 1)]` (one character whose width is what the
tokeniser says) and `cw 0xFFFD ≤ 1` (the replacement of a character wider than the screen is one
cell; `put_needs_narrow_replacement` shows that it cannot be dropped).  `resize` needs `1 ≤ w, h`.
No other hypothesis: `eraseRegion` commutes for every `x1 y1 x2 y2`, `scroll`/`lineDown`/`lineUp`
commute with `abs` without any hypothesis.

Results: 1 `abs_init`, `inv_init`; 2 `abs_scroll`, `inv_scroll`, `abs_lineDown`, `inv_lineDown`,
`abs_lineUp`, `inv_lineUp`, `eraseRegion_refines`, `eraseRegionI_refines`, `dch_refines`,
`setCursor_refines`, `resize_refines`, `spanWF_of_token`, `put_refines`; 3 `apply_refines`,
`run_refines_from`, `run_refines`, `run_rows` (C02's sentence row by row at every reachable state),
`abs_inv` (`SScr.inv` implies `Scr.inv` of the shown screen), `run_cells_inv`; 4 examples on a 5×2
screen at the end.
-/
namespace TM.C02SpanScreen
open TM TM.C02Span

/-! ## basics -/

theorem inv_iff {cw : Nat → Nat} {s : SScr} :
    SScr.inv cw s = true ↔
      1 ≤ s.w ∧ 1 ≤ s.h ∧ s.lines.length = s.h ∧ (∀ l ∈ s.lines, lineWF cw s.w l = true) ∧
      s.cx < s.w ∧ s.cy < s.h ∧ s.sx < s.w ∧ s.sy < s.h ∧ s.top ≤ s.bot ∧ s.bot < s.h := by
  simp [SScr.inv, and_assoc]

theorem lineCells_blankSpanLine (cw : Nat → Nat) (w : Nat) (st : Style) :
    lineCells cw (blankSpanLine w st) = blankRow w st := by
  simp [lineCells, blankSpanLine, spanCells_blankSpan, blankRow]

theorem lineCells_nil (cw : Nat → Nat) : lineCells cw ⟨[], 0⟩ = [] := rfl

theorem abs_row (cw : Nat → Nat) (s : SScr) (y : Nat) :
    (s.abs cw).row y = lineCells cw (s.line y) := by
  simp only [Scr.row, SScr.abs, SScr.line, List.getD_eq_getElem?_getD, List.getElem?_map]
  cases s.lines[y]? <;> rfl

theorem abs_setLine (cw : Nat → Nat) (s : SScr) (y : Nat) (l : SLine) :
    (s.setLine y l).abs cw = (s.abs cw).setRow y (lineCells cw l) := by
  simp [SScr.setLine, Scr.setRow, SScr.abs, List.map_set]

theorem line_mem {s : SScr} {y : Nat} (h : y < s.lines.length) : s.line y ∈ s.lines := by
  simp only [SScr.line, List.getD_eq_getElem?_getD, List.getElem?_eq_getElem h, Option.getD_some]
  exact List.getElem_mem h

/-! ## init -/

/-- 1. the initial run-level screen shows the initial cell-level screen -/
theorem abs_init (cw : Nat → Nat) (w h : Nat) : (SScr.init w h).abs cw = Scr.init w h := by
  simp [SScr.init, Scr.init, SScr.abs, lineCells_blankSpanLine]

/-- 1. the initial screen satisfies the invariant -/
theorem inv_init {cw : Nat → Nat} (hb : cw 0x20 ≤ 1) {w h : Nat} (hw : 1 ≤ w) (hh : 1 ≤ h) :
    SScr.inv cw (SScr.init w h) = true := by
  rw [inv_iff]
  refine ⟨hw, hh, by simp [SScr.init], ?_, hw, hh, hw, hh, Nat.zero_le _, by simp [SScr.init]; omega⟩
  intro l hl
  simp only [SScr.init, List.mem_replicate] at hl
  rw [hl.2]
  exact (blankSpanLine_refines hb hw _).2

/-! ## scroll, lineDown, lineUp -/

@[simp] theorem abs_w (cw : Nat → Nat) (s : SScr) : (s.abs cw).w = s.w := rfl
@[simp] theorem abs_h (cw : Nat → Nat) (s : SScr) : (s.abs cw).h = s.h := rfl
@[simp] theorem abs_cx (cw : Nat → Nat) (s : SScr) : (s.abs cw).cx = s.cx := rfl
@[simp] theorem abs_cy (cw : Nat → Nat) (s : SScr) : (s.abs cw).cy = s.cy := rfl
@[simp] theorem abs_top (cw : Nat → Nat) (s : SScr) : (s.abs cw).top = s.top := rfl
@[simp] theorem abs_bot (cw : Nat → Nat) (s : SScr) : (s.abs cw).bot = s.bot := rfl
@[simp] theorem abs_wrap (cw : Nat → Nat) (s : SScr) : (s.abs cw).wrap = s.wrap := rfl
@[simp] theorem abs_sty (cw : Nat → Nat) (s : SScr) : (s.abs cw).sty = s.sty := rfl
@[simp] theorem abs_grid (cw : Nat → Nat) (s : SScr) : (s.abs cw).grid = s.lines.map (lineCells cw) := rfl

/-- replacing the rows by as many well-formed rows keeps the invariant -/
theorem inv_lines {cw : Nat → Nat} {s : SScr} (hs : SScr.inv cw s = true) (L : List SLine)
    (hl : L.length = s.h) (hwf : ∀ l ∈ L, lineWF cw s.w l = true) :
    SScr.inv cw { s with lines := L } = true := by
  obtain ⟨h1, h2, _, _, h5, h6, h7, h8, h9, h10⟩ := inv_iff.1 hs
  exact inv_iff.2 ⟨h1, h2, hl, hwf, h5, h6, h7, h8, h9, h10⟩

/-- 2. `scroll` commutes with `abs` (no hypothesis) -/
theorem abs_scroll (cw : Nat → Nat) (s : SScr) (y1 y2 : Nat) (d : Int) :
    (s.scroll y1 y2 d).abs cw = (s.abs cw).scroll y1 y2 d := by
  unfold SScr.scroll Scr.scroll
  by_cases hc : y1 > y2 ∨ y2 ≥ s.h
  · simp only [abs_h, hc, if_true]
  · simp only [abs_h, hc, if_false]
    by_cases hd : d ≥ 0
    · simp [SScr.abs, hd, List.map_take, List.map_drop, lineCells_blankSpanLine]
    · simp [SScr.abs, hd, List.map_take, List.map_drop, lineCells_blankSpanLine]

/-- 2. `scroll` keeps the invariant -/
theorem inv_scroll {cw : Nat → Nat} (hb : cw 0x20 ≤ 1) {s : SScr} (hs : SScr.inv cw s = true)
    (y1 y2 : Nat) (d : Int) : SScr.inv cw (s.scroll y1 y2 d) = true := by
  unfold SScr.scroll
  by_cases hc : y1 > y2 ∨ y2 ≥ s.h
  · simp only [hc, if_true]; exact hs
  · simp only [hc, if_false]
    obtain ⟨h1, h2, h3, h4, _⟩ := inv_iff.1 hs
    have hblank : ∀ l ∈ List.replicate (min d.natAbs (y2 - y1 + 1)) (blankSpanLine s.w s.sty),
        lineWF cw s.w l = true := by
      intro l hl
      rw [(List.mem_replicate.1 hl).2]
      exact (blankSpanLine_refines hb h1 _).2
    apply inv_lines hs
    · by_cases hd : d ≥ 0
      · simp only [hd, if_true, List.length_append, List.length_take, List.length_drop,
          List.length_replicate, h3]
        omega
      · simp only [hd, if_false, List.length_append, List.length_take, List.length_drop,
          List.length_replicate, h3]
        omega
    · intro l hl
      rcases List.mem_append.1 hl with hl | hl
      · rcases List.mem_append.1 hl with hl | hl
        · exact h4 l (List.mem_of_mem_take hl)
        · by_cases hd : d ≥ 0
          · simp only [hd, if_true] at hl
            rcases List.mem_append.1 hl with hl | hl
            · exact hblank l hl
            · exact h4 l (List.mem_of_mem_drop (List.mem_of_mem_take (List.mem_of_mem_take hl)))
          · simp only [hd, if_false] at hl
            rcases List.mem_append.1 hl with hl | hl
            · exact h4 l (List.mem_of_mem_drop (List.mem_of_mem_take (List.mem_of_mem_drop hl)))
            · exact hblank l hl
      · exact h4 l (List.mem_of_mem_drop hl)

/-- geometry untouched by `scroll` -/
theorem scroll_geom (s : SScr) (y1 y2 : Nat) (d : Int) :
    (s.scroll y1 y2 d).w = s.w ∧ (s.scroll y1 y2 d).h = s.h ∧ (s.scroll y1 y2 d).cx = s.cx ∧
    (s.scroll y1 y2 d).cy = s.cy ∧ (s.scroll y1 y2 d).wrap = s.wrap ∧ (s.scroll y1 y2 d).sty = s.sty := by
  unfold SScr.scroll
  split <;> simp

/-- 2. `lineDown` commutes with `abs` -/
theorem abs_lineDown (cw : Nat → Nat) (s : SScr) : s.lineDown.abs cw = (s.abs cw).lineDown := by
  unfold SScr.lineDown Scr.lineDown
  simp only [abs_cy, abs_bot, abs_top, abs_h]
  by_cases h1 : s.cy = s.bot
  · simp only [h1, if_true]; exact abs_scroll ..
  · by_cases h2 : s.cy + 1 < s.h
    · simp only [h1, h2, if_true, if_false]; rfl
    · simp only [h1, h2, if_false]

/-- 2. `lineUp` commutes with `abs` -/
theorem abs_lineUp (cw : Nat → Nat) (s : SScr) : s.lineUp.abs cw = (s.abs cw).lineUp := by
  unfold SScr.lineUp Scr.lineUp
  simp only [abs_cy, abs_bot, abs_top]
  by_cases h1 : s.cy = s.top
  · simp only [h1, if_true]; exact abs_scroll ..
  · by_cases h2 : 0 < s.cy
    · simp only [h1, h2, if_true, if_false]; rfl
    · simp only [h1, h2, if_false]

/-- changing the cursor to a position inside the screen keeps the invariant -/
theorem inv_cursor {cw : Nat → Nat} {s : SScr} (hs : SScr.inv cw s = true) {x y : Nat}
    (hx : x < s.w) (hy : y < s.h) : SScr.inv cw { s with cx := x, cy := y } = true := by
  obtain ⟨h1, h2, h3, h4, _, _, h7, h8, h9, h10⟩ := inv_iff.1 hs
  exact inv_iff.2 ⟨h1, h2, h3, h4, hx, hy, h7, h8, h9, h10⟩

theorem inv_lineDown {cw : Nat → Nat} (hb : cw 0x20 ≤ 1) {s : SScr} (hs : SScr.inv cw s = true) :
    SScr.inv cw s.lineDown = true := by
  unfold SScr.lineDown
  split
  · exact inv_scroll hb hs ..
  · split
    · rename_i h
      exact inv_cursor hs (inv_iff.1 hs).2.2.2.2.1 h
    · exact hs

theorem inv_lineUp {cw : Nat → Nat} (hb : cw 0x20 ≤ 1) {s : SScr} (hs : SScr.inv cw s = true) :
    SScr.inv cw s.lineUp = true := by
  unfold SScr.lineUp
  split
  · exact inv_scroll hb hs ..
  · split
    · have := (inv_iff.1 hs).2.2.2.2.2.1
      exact inv_cursor hs (inv_iff.1 hs).2.2.2.2.1 (by omega)
    · exact hs

theorem lineDown_geom (s : SScr) :
    s.lineDown.w = s.w ∧ s.lineDown.h = s.h ∧ s.lineDown.cx = s.cx ∧
    s.lineDown.wrap = s.wrap ∧ s.lineDown.sty = s.sty := by
  unfold SScr.lineDown
  split
  · have := scroll_geom s s.top s.bot (-1); simp [this]
  · split <;> simp

/-! ## eraseRegion, eraseRegionI -/

/-- one row of `eraseRegion`, for every `a`, `b` -/
theorem eraseLine_row {cw : Nat → Nat} (hb : cw 0x20 ≤ 1) {W : Nat} {l : SLine}
    (hl : lineWF cw W l = true) (cur : Style) (a b : Nat) :
    lineCells cw (eraseLine cw W cur l a (min b W)) = Row.erase (lineCells cw l) a b cur ∧
    lineWF cw W (eraseLine cw W cur l a (min b W)) = true := by
  obtain ⟨hwf, hsum, _⟩ := lineWF_iff.1 hl
  have hlen : (lineCells cw l).length = W := by rw [length_lineCells hwf, hsum]
  by_cases hab : a < min b W
  · obtain ⟨e1, e2⟩ := eraseLine_refines hl hb cur hab (Nat.min_le_right b W)
    refine ⟨?_, e2⟩
    rw [e1]
    unfold Row.erase
    simp only [hlen, Nat.min_assoc, Nat.min_self]
  · rw [(eraseLine_empty cw W cur l (show min b W ≤ a by omega)).1]
    refine ⟨?_, hl⟩
    unfold Row.erase
    simp only [hlen, show a ≥ min b W by omega, if_true]

/-- 2. `eraseRegion` commutes with `abs` and keeps the invariant (every `x1 y1 x2 y2`) -/
theorem eraseRegion_refines {cw : Nat → Nat} (hb : cw 0x20 ≤ 1) {s : SScr} (hs : SScr.inv cw s = true)
    (x1 y1 x2 y2 : Nat) :
    (s.eraseRegion cw x1 y1 x2 y2).abs cw = (s.abs cw).eraseRegion x1 y1 x2 y2 ∧
    SScr.inv cw (s.eraseRegion cw x1 y1 x2 y2) = true := by
  obtain ⟨_, _, h3, h4, _⟩ := inv_iff.1 hs
  constructor
  · unfold SScr.eraseRegion Scr.eraseRegion
    simp only [SScr.abs, Scr.mk.injEq, true_and, and_true]
    apply List.ext_getElem?
    intro i
    simp only [List.getElem?_map, List.getElem?_mapIdx]
    cases hi : s.lines[i]? with
    | none => rfl
    | some l =>
      have hl := h4 l (List.mem_of_getElem? hi)
      simp only [Option.map_some]
      by_cases hc : y1 ≤ i ∧ i < y2
      · simp only [hc, and_self, if_true]
        rw [(eraseLine_row hb hl s.sty x1 x2).1]
      · simp only [hc, if_false]
  · unfold SScr.eraseRegion
    apply inv_lines hs
    · simp [h3]
    · intro l hl
      obtain ⟨i, hi, rfl⟩ := List.mem_mapIdx.1 hl
      have hl := h4 _ (List.getElem_mem hi)
      split
      · exact (eraseLine_row hb hl s.sty x1 x2).2
      · exact hl

/-- 2. `eraseRegionI` (clamped region) commutes with `abs` and keeps the invariant -/
theorem eraseRegionI_refines {cw : Nat → Nat} (hb : cw 0x20 ≤ 1) {s : SScr} (hs : SScr.inv cw s = true)
    (x1 y1 x2 y2 : Int) :
    (s.eraseRegionI cw x1 y1 x2 y2).abs cw = (s.abs cw).eraseRegionI x1 y1 x2 y2 ∧
    SScr.inv cw (s.eraseRegionI cw x1 y1 x2 y2) = true := by
  unfold SScr.eraseRegionI Scr.eraseRegionI
  simp only [abs_w, abs_h]
  exact eraseRegion_refines hb hs ..

theorem eraseRegionI_geom (cw : Nat → Nat) (s : SScr) (x1 y1 x2 y2 : Int) :
    (s.eraseRegionI cw x1 y1 x2 y2).w = s.w ∧ (s.eraseRegionI cw x1 y1 x2 y2).h = s.h ∧
    (s.eraseRegionI cw x1 y1 x2 y2).cx = s.cx ∧ (s.eraseRegionI cw x1 y1 x2 y2).cy = s.cy := by
  simp [SScr.eraseRegionI, SScr.eraseRegion]

/-! ## dch, setCursor, resize -/

theorem inv_setLine {cw : Nat → Nat} {s : SScr} (hs : SScr.inv cw s = true) (y : Nat) {l : SLine}
    (hl : lineWF cw s.w l = true) : SScr.inv cw (s.setLine y l) = true := by
  obtain ⟨_, _, h3, h4, _⟩ := inv_iff.1 hs
  unfold SScr.setLine
  apply inv_lines hs
  · simp [h3]
  · intro l' hl'
    rcases List.mem_or_eq_of_mem_set hl' with h | h
    · exact h4 _ h
    · rw [h]; exact hl

/-- 2. `dch` commutes with `abs` and keeps the invariant -/
theorem dch_refines {cw : Nat → Nat} (hb : cw 0x20 ≤ 1) {s : SScr} (hs : SScr.inv cw s = true) (n : Nat) :
    (s.dch cw n).abs cw = (s.abs cw).dch n ∧ SScr.inv cw (s.dch cw n) = true := by
  obtain ⟨_, _, h3, h4, h5, h6, _⟩ := inv_iff.1 hs
  have hmem : s.line s.cy ∈ s.lines := line_mem (by omega)
  have hl := h4 _ hmem
  obtain ⟨hwf, hsum, _⟩ := lineWF_iff.1 hl
  have hlen : (lineCells cw (s.line s.cy)).length = s.w := by rw [length_lineCells hwf, hsum]
  unfold SScr.dch Scr.dch
  simp only [abs_cx, abs_cy, abs_sty, abs_row]
  by_cases hc : s.cx ≥ s.w ∨ n = 0
  · simp only [hc, if_true]
    refine ⟨?_, hs⟩
    have : Row.dch (lineCells cw (s.line s.cy)) s.cx n s.sty = lineCells cw (s.line s.cy) := by
      unfold Row.dch; simp only [hlen, hc, if_true]
    rw [this, ← abs_setLine]
    congr 1
    simp only [SScr.setLine, SScr.line, List.getD_eq_getElem?_getD,
      List.getElem?_eq_getElem (show s.cy < s.lines.length by omega), Option.getD_some,
      List.set_getElem_self]
  · simp only [hc, if_false]
    obtain ⟨d1, d2⟩ := deleteCharsLine_refines hl hb s.sty (x := s.cx) (n := n) (by omega) (by omega)
    exact ⟨by rw [abs_setLine, d1], inv_setLine hs _ d2⟩

theorem clampNat_le (v : Int) (hi : Nat) : clampNat v hi ≤ hi := by
  unfold clampNat; omega

/-- 2. `setCursor` commutes with `abs` and keeps the invariant -/
theorem setCursor_refines {cw : Nat → Nat} {s : SScr} (hs : SScr.inv cw s = true) (x y : Int) :
    (s.setCursor x y).abs cw = (s.abs cw).setCursor x y ∧ SScr.inv cw (s.setCursor x y) = true := by
  obtain ⟨h1, h2, _⟩ := inv_iff.1 hs
  refine ⟨rfl, ?_⟩
  unfold SScr.setCursor
  have := clampNat_le x (s.w - 1)
  have := clampNat_le y (s.h - 1)
  exact inv_cursor hs (by omega) (by omega)

/-- 2. `resize` commutes with `abs` and keeps the invariant (for a new size of at least 1×1) -/
theorem resize_refines {cw : Nat → Nat} (hb : cw 0x20 ≤ 1) {s : SScr} (hs : SScr.inv cw s = true)
    {w h : Nat} (hw : 1 ≤ w) (hh : 1 ≤ h) :
    (s.resize cw w h).abs cw = (s.abs cw).resize w h ∧ SScr.inv cw (s.resize cw w h) = true := by
  obtain ⟨_, _, h3, h4, _⟩ := inv_iff.1 hs
  have hrow : ∀ l ∈ s.lines.take h, lineCells cw (resizeLine cw l w s.sty) = fitRow (lineCells cw l) w s.sty ∧
      lineWF cw w (resizeLine cw l w s.sty) = true :=
    fun l hl => resizeLine_refines (h4 l (List.mem_of_mem_take hl)) hb s.sty w
  constructor
  · unfold SScr.resize Scr.resize
    simp only [SScr.abs, Scr.mk.injEq, true_and, and_true, List.map_append, List.map_replicate,
      lineCells_blankSpanLine, List.length_map, List.length_take, List.map_map, ← List.map_take]
    refine ⟨?_, rfl, rfl, rfl, rfl⟩
    congr 1
    apply List.map_congr_left
    intro l hl
    exact (hrow l hl).1
  · have hc := clampNat_le ((h : Int) - ((s.h : Int) - (s.bot : Int))) (h - 1)
    rw [inv_iff]
    unfold SScr.resize
    refine ⟨hw, hh, ?_, ?_, ?_, ?_, ?_, ?_, Nat.min_le_right _ _, by simp only; omega⟩
    · simp only [List.length_append, List.length_map, List.length_take, List.length_replicate]; omega
    · intro l hl
      rcases List.mem_append.1 hl with hl | hl
      · obtain ⟨l0, hl0, rfl⟩ := List.mem_map.1 hl
        exact (hrow l0 hl0).2
      · rw [(List.mem_replicate.1 hl).2]
        exact (blankSpanLine_refines hb hw _).2
    · simp only; split <;> omega
    · simp only; split <;> omega
    · simp only; split <;> omega
    · simp only; split <;> omega

/-! ## put -/

/-- the step of `put` before the write: wrap or pin at the right edge -/
def preS (s : SScr) (w : Nat) : SScr :=
  if s.cx + w > s.w then
    (if s.wrap then ({ s with cx := 0 } : SScr).lineDown else { s with cx := s.w - w })
  else s
def preC (s : Scr) (w : Nat) : Scr :=
  if s.cx + w > s.w then
    (if s.wrap then ({ s with cx := 0 } : Scr).lineDown else { s with cx := s.w - w })
  else s
/-- the step of `put` after the write: the cursor moves to column `x` -/
def postS (s : SScr) (x : Nat) : SScr :=
  if x < s.w then { s with cx := x }
  else if s.wrap then ({ s with cx := x - s.w } : SScr).lineDown
  else { s with cx := s.w - 1 }
def postC (s : Scr) (x : Nat) : Scr :=
  if x < s.w then { s with cx := x }
  else if s.wrap then ({ s with cx := x - s.w } : Scr).lineDown
  else { s with cx := s.w - 1 }
def coreS (cw : Nat → Nat) (s : SScr) (text : Bytes) (w : Nat) : SScr :=
  let res := writeSpanLine cw s.w s.sty (s.line s.cy) s.cx ⟨s.sty, text, 0, w⟩ true
  postS (s.setLine s.cy res.1) (s.cx + w + res.2.1)
def coreC (s : Scr) (text : Bytes) (w : Nat) : Scr :=
  let r := s.row s.cy
  let keep := contAt r s.cx
  let r' := if keep then r.putKeep s.cx text w s.sty else r.put s.cx text w s.sty
  postC (s.setRow s.cy r') (s.cx + w + (if keep then headOf r s.cx + widthAt r (headOf r s.cx) - s.cx else 0))

theorem put_eqS (cw : Nat → Nat) (s : SScr) (text0 : Bytes) (w0 : Nat) :
    s.put cw text0 w0 =
      coreS cw (preS s (if max w0 1 > s.w then 1 else max w0 1))
        (if max w0 1 > s.w then replacementChar else text0) (if max w0 1 > s.w then 1 else max w0 1) := rfl

theorem put_eqC (s : Scr) (text0 : Bytes) (w0 : Nat) :
    s.put .keep text0 w0 =
      coreC (preC s (if max w0 1 > s.w then 1 else max w0 1))
        (if max w0 1 > s.w then replacementChar else text0) (if max w0 1 > s.w then 1 else max w0 1) := by
  unfold Scr.put coreC preC postC
  simp only [show (WidePolicy.keep == WidePolicy.keep) = true from rfl, Bool.and_true]
  rfl

theorem pre_refines {cw : Nat → Nat} (hb : cw 0x20 ≤ 1) {s : SScr} (hs : SScr.inv cw s = true)
    {w : Nat} (hw : 1 ≤ w) (hws : w ≤ s.w) :
    (preS s w).abs cw = preC (s.abs cw) w ∧ SScr.inv cw (preS s w) = true ∧
    (preS s w).cx + w ≤ (preS s w).w := by
  obtain ⟨h1, h2, h3, h4, h5, h6, _⟩ := inv_iff.1 hs
  by_cases hc : s.cx + w > s.w
  · cases hwr : s.wrap
    · have e1 : preS s w = { s with cx := s.w - w } := by
        simp only [preS, hc, hwr, if_true, Bool.false_eq_true, if_false]
      have e2 : preC (s.abs cw) w = { s.abs cw with cx := s.w - w } := by
        simp only [preC, abs_cx, abs_w, abs_wrap, hc, hwr, if_true, Bool.false_eq_true, if_false]
      rw [e1, e2]
      refine ⟨rfl, inv_cursor (x := s.w - w) (y := s.cy) hs (by omega) h6, ?_⟩
      simp only; omega
    · have e1 : preS s w = ({ s with cx := 0 } : SScr).lineDown := by
        simp only [preS, hc, hwr, if_true]
      have e2 : preC (s.abs cw) w = ({ s.abs cw with cx := 0 } : Scr).lineDown := by
        simp only [preC, abs_cx, abs_w, abs_wrap, hc, hwr, if_true]
      rw [e1, e2]
      have hs0 : SScr.inv cw ({ s with cx := 0 } : SScr) = true :=
        inv_cursor (x := 0) (y := s.cy) hs (by omega) h6
      refine ⟨abs_lineDown cw _, inv_lineDown hb hs0, ?_⟩
      rw [(lineDown_geom _).1, (lineDown_geom _).2.2.1]; simp only; omega
  · have e1 : preS s w = s := by simp only [preS, hc, if_false]
    have e2 : preC (s.abs cw) w = s.abs cw := by simp only [preC, abs_cx, abs_w, hc, if_false]
    rw [e1, e2]
    exact ⟨rfl, hs, by omega⟩

theorem post_refines {cw : Nat → Nat} (hb : cw 0x20 ≤ 1) {s : SScr} (hs : SScr.inv cw s = true)
    {x : Nat} (hx : x < 2 * s.w) :
    (postS s x).abs cw = postC (s.abs cw) x ∧ SScr.inv cw (postS s x) = true := by
  obtain ⟨h1, h2, h3, h4, h5, h6, _⟩ := inv_iff.1 hs
  by_cases hc : x < s.w
  · have e1 : postS s x = { s with cx := x } := by simp only [postS, hc, if_true]
    have e2 : postC (s.abs cw) x = { s.abs cw with cx := x } := by simp only [postC, abs_w, hc, if_true]
    rw [e1, e2]
    exact ⟨rfl, inv_cursor (y := s.cy) hs hc h6⟩
  · cases hwr : s.wrap
    · have e1 : postS s x = { s with cx := s.w - 1 } := by
        simp only [postS, hc, hwr, Bool.false_eq_true, if_false]
      have e2 : postC (s.abs cw) x = { s.abs cw with cx := s.w - 1 } := by
        simp only [postC, abs_w, abs_wrap, hc, hwr, Bool.false_eq_true, if_false]
      rw [e1, e2]
      exact ⟨rfl, inv_cursor (x := s.w - 1) (y := s.cy) hs (by omega) h6⟩
    · have e1 : postS s x = ({ s with cx := x - s.w } : SScr).lineDown := by
        simp only [postS, hc, hwr, if_true, if_false]
      have e2 : postC (s.abs cw) x = ({ s.abs cw with cx := x - s.w } : Scr).lineDown := by
        simp only [postC, abs_w, abs_wrap, hc, hwr, if_true, if_false]
      rw [e1, e2]
      have hs0 : SScr.inv cw ({ s with cx := x - s.w } : SScr) = true :=
        inv_cursor (x := x - s.w) (y := s.cy) hs (by omega) h6
      exact ⟨abs_lineDown cw _, inv_lineDown hb hs0⟩

/-- the token hypothesis makes the written run well formed -/
theorem spanWF_of_token {cw : Nat → Nat} {text : Bytes} {w : Nat}
    (hcl : clusters cw text = [(text, w)]) (st : Style) : spanWF cw ⟨st, text, 0, w⟩ = true := by
  have hne : text ≠ [] := by
    intro h; subst h; simp [clusters, clustersAux] at hcl
  obtain ⟨b, r, rfl⟩ := List.exists_cons_of_ne_nil hne
  have hst : stepRune cw (b :: r) = some ((b :: r).length, w) := by
    unfold clusters at hcl
    simp only [List.length_cons, clustersAux] at hcl
    cases hsr : stepRune cw (b :: r) with
    | none => simp [hsr] at hcl
    | some p =>
      obtain ⟨c, w'⟩ := p
      simp only [hsr, List.cons.injEq, Prod.mk.injEq] at hcl
      have hb := stepRune_some hsr
      have hlen := congrArg List.length hcl.1.1
      simp only [List.length_take, List.length_cons] at hlen hb
      have : c = r.length + 1 := by omega
      rw [this, hcl.1.2]; rfl
  have hw := (stepRune_some hst).2.2.1
  have : textWF cw (b :: r) w = true := by
    rw [textWF_iff, hcl]
    refine ⟨?_, by simp, by simp⟩
    intro p hp
    rw [List.mem_singleton.1 hp]; exact hst
  simp [spanWF, this]; omega

theorem clusters_replacementChar {cw : Nat → Nat} (h : cw 0xFFFD ≤ 1) :
    clusters cw replacementChar = [(replacementChar, 1)] := by
  have h1 : fullRune replacementChar = true := by decide
  have h2 : decodeRune replacementChar = (0xFFFD, 3) := by decide
  have h3 : stepRune cw replacementChar = some (3, 1) := by
    rw [stepRune_eq, h1, h2]; simp; omega
  have h4 : clusters cw replacementChar = clustersAux cw 3 replacementChar := rfl
  rw [h4]
  unfold clustersAux
  simp only [h3]
  simp [replacementChar, clustersAux, stepRune_nil]

theorem core_refines {cw : Nat → Nat} (hb : cw 0x20 ≤ 1) {s : SScr} (hs : SScr.inv cw s = true)
    {text : Bytes} {w : Nat} (hcl : clusters cw text = [(text, w)]) (hxw : s.cx + w ≤ s.w) :
    (coreS cw s text w).abs cw = coreC (s.abs cw) text w ∧ SScr.inv cw (coreS cw s text w) = true := by
  obtain ⟨h1, h2, h3, h4, h5, h6, _⟩ := inv_iff.1 hs
  have hl := h4 _ (line_mem (s := s) (y := s.cy) (by omega))
  obtain ⟨hwf, hsum, _⟩ := lineWF_iff.1 hl
  have hsp := spanWF_of_token hcl s.sty
  have hw : 0 < w := spanWF_pos hsp
  obtain ⟨k1, k2, k3⟩ := writeChar_refines hl hb s.sty hsp hcl hxw
  have hs1 := inv_setLine hs s.cy k2
  -- the column after the write stays below twice the width
  have hx : s.cx + w + (writeSpanLine cw s.w s.sty (s.line s.cy) s.cx ⟨s.sty, text, 0, w⟩ true).2.1 < 2 * s.w := by
    rw [k3]
    by_cases hc : contAt (lineCells cw (s.line s.cy)) s.cx = true
    · obtain ⟨e1, e2, e3⟩ := endOf_bounds_line hwf (x := s.cx) (by omega) hc
      rw [if_pos hc]; omega
    · rw [if_neg hc]; omega
  obtain ⟨p1, p2⟩ := post_refines hb hs1 (x := s.cx + w +
    (writeSpanLine cw s.w s.sty (s.line s.cy) s.cx ⟨s.sty, text, 0, w⟩ true).2.1) hx
  unfold coreS coreC
  refine ⟨?_, p2⟩
  simp only [] at p1 ⊢
  rw [p1, abs_setLine, k1, k3]
  simp only [abs_row, abs_cx, abs_cy, abs_sty]

/-- 2. `put` (one character token) commutes with `abs` and keeps the invariant -/
theorem put_refines {cw : Nat → Nat} (hb : cw 0x20 ≤ 1) (hr : cw 0xFFFD ≤ 1) {s : SScr}
    (hs : SScr.inv cw s = true) {text : Bytes} {w0 : Nat}
    (htok : clusters cw text = [(text, max w0 1)]) :
    (s.put cw text w0).abs cw = (s.abs cw).put .keep text w0 ∧ SScr.inv cw (s.put cw text w0) = true := by
  obtain ⟨h1, _⟩ := inv_iff.1 hs
  rw [put_eqS, put_eqC]
  simp only [abs_w]
  by_cases htw : max w0 1 > s.w
  · simp only [htw, if_true]
    have hrc := clusters_replacementChar hr
    obtain ⟨q1, q2, q3⟩ := pre_refines hb hs (w := 1) (Nat.le_refl 1) h1
    rw [← q1]
    exact core_refines hb q2 hrc q3
  · simp only [htw, if_false]
    obtain ⟨q1, q2, q3⟩ := pre_refines hb hs (w := max w0 1) (by omega) (by omega)
    rw [← q1]
    exact core_refines hb q2 htok q3

/-! ## the dispatcher and runs of operations -/

/-- what an operation needs: a `put` carries one character whose width is what the tokeniser says;
    a `resize` asks for at least 1×1 -/
def OpOK (cw : Nat → Nat) (_s : SScr) : SOp → Prop
  | .put text cp => clusters cw text = [(text, max (cw cp) 1)]
  | .resize w h => 1 ≤ w ∧ 1 ≤ h
  | _ => True

theorem abs_inRegion (cw : Nat → Nat) (s : SScr) : (s.abs cw).inRegion = s.inRegion := rfl

/-- 3. every operation of the dispatcher commutes with `abs` and keeps the invariant -/
theorem apply_refines {cw : Nat → Nat} (hb : cw 0x20 ≤ 1) (hr : cw 0xFFFD ≤ 1) {s : SScr}
    (hs : SScr.inv cw s = true) {op : SOp} (hop : OpOK cw s op) :
    (s.apply cw op).abs cw = (s.abs cw).applyS cw op ∧ SScr.inv cw (s.apply cw op) = true := by
  obtain ⟨h1, h2, h3, h4, h5, h6, _⟩ := inv_iff.1 hs
  cases op with
  | put text cp => exact put_refines hb hr hs hop
  | lf =>
    have hs0 : SScr.inv cw ({ s with cx := 0 } : SScr) = true :=
      inv_cursor (x := 0) (y := s.cy) hs (by omega) h6
    exact ⟨abs_lineDown cw _, inv_lineDown hb hs0⟩
  | ind => exact ⟨abs_lineDown cw _, inv_lineDown hb hs⟩
  | ri => exact ⟨abs_lineUp cw _, inv_lineUp hb hs⟩
  | su n => exact ⟨abs_scroll cw .., inv_scroll hb hs ..⟩
  | sd n => exact ⟨abs_scroll cw .., inv_scroll hb hs ..⟩
  | il n =>
    by_cases hreg : s.inRegion = true
    · simp only [SScr.apply, Scr.applyS, abs_inRegion, hreg, if_true]
      exact ⟨abs_scroll cw .., inv_scroll hb hs ..⟩
    · simp only [SScr.apply, Scr.applyS, abs_inRegion, hreg, Bool.false_eq_true, if_false]
      exact ⟨trivial, hs⟩
  | dl n =>
    by_cases hreg : s.inRegion = true
    · simp only [SScr.apply, Scr.applyS, abs_inRegion, hreg, if_true]
      exact ⟨abs_scroll cw .., inv_scroll hb hs ..⟩
    · simp only [SScr.apply, Scr.applyS, abs_inRegion, hreg, Bool.false_eq_true, if_false]
      exact ⟨trivial, hs⟩
  | el p =>
    simp only [SScr.apply, Scr.applyS, abs_cx, abs_cy, abs_w]
    by_cases p0 : p = 0
    · simp only [p0, if_true]; exact eraseRegionI_refines hb hs ..
    · by_cases p1 : p = 1
      · simp only [p1, if_true, if_false, Nat.one_ne_zero]; exact eraseRegionI_refines hb hs ..
      · by_cases p2 : p = 2
        · simp only [p2, if_true, if_false, Nat.succ_ne_self, Nat.succ_ne_zero]
          exact eraseRegionI_refines hb hs ..
        · simp only [p0, p1, p2, if_false]; exact ⟨trivial, hs⟩
  | ed p =>
    simp only [SScr.apply, Scr.applyS, abs_cx, abs_cy, abs_w, abs_h]
    by_cases p0 : p = 0
    · simp only [p0, if_true]
      obtain ⟨a1, a2⟩ := eraseRegionI_refines hb hs (s.cx : Int) (s.cy : Int) s.w ((s.cy : Int) + 1)
      obtain ⟨b1, b2⟩ := eraseRegionI_refines hb a2 0 ((s.cy : Int) + 1) s.w s.h
      exact ⟨by rw [b1, a1], b2⟩
    · by_cases p1 : p = 1
      · simp only [p1, if_true, if_false, Nat.one_ne_zero]
        obtain ⟨a1, a2⟩ := eraseRegionI_refines hb hs 0 0 s.w (s.cy : Int)
        obtain ⟨b1, b2⟩ := eraseRegionI_refines hb a2 0 (s.cy : Int) ((s.cx : Int) + 1) ((s.cy : Int) + 1)
        exact ⟨by rw [b1, a1], b2⟩
      · by_cases p2 : p = 2
        · simp only [p2, if_true, if_false, Nat.succ_ne_self, Nat.succ_ne_zero]
          obtain ⟨a1, a2⟩ := eraseRegionI_refines hb hs 0 0 s.w s.h
          obtain ⟨b1, b2⟩ := setCursor_refines a2 0 0
          exact ⟨by rw [b1, a1], b2⟩
        · simp only [p0, p1, p2, if_false]; exact ⟨trivial, hs⟩
  | ech n => exact eraseRegionI_refines hb hs ..
  | dch n => exact dch_refines hb hs n
  | resize w h => exact resize_refines hb hs hop.1 hop.2

/-- the token / size hypotheses hold along the run -/
def RunOK (cw : Nat → Nat) : SScr → List SOp → Prop
  | _, [] => True
  | s, op :: ops => OpOK cw s op ∧ RunOK cw (s.apply cw op) ops

/-- 3. runs of operations from any state satisfying the invariant -/
theorem run_refines_from {cw : Nat → Nat} (hb : cw 0x20 ≤ 1) (hr : cw 0xFFFD ≤ 1) (ops : List SOp) :
    ∀ {s : SScr}, SScr.inv cw s = true → RunOK cw s ops →
    (ops.foldl (SScr.apply cw) s).abs cw = ops.foldl (Scr.applyS cw) (s.abs cw) ∧
    SScr.inv cw (ops.foldl (SScr.apply cw) s) = true := by
  induction ops with
  | nil => intro s hs _; exact ⟨rfl, hs⟩
  | cons op ops ih =>
    intro s hs hok
    obtain ⟨a1, a2⟩ := apply_refines hb hr hs hok.1
    simp only [List.foldl_cons]
    rw [← a1]
    exact ih a2 hok.2

/-- 3. the capstone: from the initial screen, after any list of operations, the run-level screen
    shows what the cell-level screen computes, and satisfies the invariant -/
theorem run_refines {cw : Nat → Nat} (hb : cw 0x20 ≤ 1) (hr : cw 0xFFFD ≤ 1) {w h : Nat}
    (hw : 1 ≤ w) (hh : 1 ≤ h) (ops : List SOp) (hok : RunOK cw (SScr.init w h) ops) :
    (ops.foldl (SScr.apply cw) (SScr.init w h)).abs cw = ops.foldl (Scr.applyS cw) (Scr.init w h) ∧
    SScr.inv cw (ops.foldl (SScr.apply cw) (SScr.init w h)) = true := by
  have := run_refines_from hb hr ops (inv_init hb hw hh) hok
  rwa [abs_init] at this

/-- 3. C02's sentence at every reachable state of the run-level screen: as many rows as the
    height, each made of runs of positive width that sum to exactly the screen width (`lineOK`,
    and the stronger `lineWF`), showing (`lineCells`) the corresponding row of the cell-level run -/
theorem run_rows {cw : Nat → Nat} (hb : cw 0x20 ≤ 1) (hr : cw 0xFFFD ≤ 1) {w h : Nat}
    (hw : 1 ≤ w) (hh : 1 ≤ h) (ops : List SOp) (hok : RunOK cw (SScr.init w h) ops) :
    let S := ops.foldl (SScr.apply cw) (SScr.init w h)
    let C := ops.foldl (Scr.applyS cw) (Scr.init w h)
    S.lines.length = S.h ∧ C.w = S.w ∧ C.h = S.h ∧
    ∀ y, y < S.h →
      lineWF cw S.w (S.line y) = true ∧ lineOK cw S.w (S.line y) = true ∧
      (lineCells cw (S.line y)).length = S.w ∧ C.row y = lineCells cw (S.line y) := by
  intro S C
  obtain ⟨r1, r2⟩ := run_refines hb hr hw hh ops hok
  obtain ⟨_, _, h3, h4, _⟩ := inv_iff.1 r2
  have hC : C = S.abs cw := r1.symm
  refine ⟨h3, by rw [hC]; rfl, by rw [hC]; rfl, ?_⟩
  intro y hy
  have hl := h4 _ (line_mem (s := S) (y := y) (by rw [h3]; exact hy))
  obtain ⟨hwf, hsum, _⟩ := lineWF_iff.1 hl
  exact ⟨hl, lineWF_lineOK hl, by rw [length_lineCells hwf, hsum], by rw [hC, abs_row]⟩

/-! ## the run-level invariant implies the cell-level invariant -/

theorem rowWF_cellsK : ∀ (L : List K), PosK L → rowWF (cellsK L) = true := by
  intro L
  induction L with
  | nil => intro _; decide
  | cons k r ih =>
    intro h
    have : cellsK (k :: r) = charCells k.1.1 k.1.2 k.2 ++ cellsK r := by simp [cellsK]
    rw [this]
    exact TM.C02.Lemmas.rowWF_append (TM.C02.Lemmas.rowWF_charCells _ _ _ h.head) (ih h.tail)

/-- a well-formed row of runs shows a well-formed row of cells of the same width -/
theorem rowWF_lineCells {cw : Nat → Nat} {W : Nat} {l : SLine} (hl : lineWF cw W l = true) :
    (lineCells cw l).length = W ∧ rowWF (lineCells cw l) = true := by
  obtain ⟨hwf, hsum, _⟩ := lineWF_iff.1 hl
  refine ⟨by rw [length_lineCells hwf, hsum], ?_⟩
  rw [lineCells_eq]
  exact rowWF_cellsK _ (posK_lineK hwf)

/-- 3. a run-level screen satisfying `SScr.inv` shows a cell-level screen satisfying `Scr.inv`
    (the invariant of C02/C03: every row has `w` cells and is a well-formed row of characters) -/
theorem abs_inv {cw : Nat → Nat} {s : SScr} (hs : SScr.inv cw s = true) : (s.abs cw).inv = true := by
  obtain ⟨h1, h2, h3, h4, h5, h6, h7, h8, h9, h10⟩ := inv_iff.1 hs
  simp only [Scr.inv, abs_w, abs_h, abs_cx, abs_cy, abs_top, abs_bot, abs_grid, Bool.and_eq_true,
    List.all_eq_true, List.length_map]
  refine ⟨⟨⟨⟨⟨⟨⟨⟨⟨decide_eq_true h1, decide_eq_true h2⟩, decide_eq_true h3⟩, ?_⟩, decide_eq_true h5⟩,
    decide_eq_true h6⟩, decide_eq_true h7⟩, decide_eq_true h8⟩, decide_eq_true h9⟩, decide_eq_true h10⟩
  intro r hr
  obtain ⟨l, hl, rfl⟩ := List.mem_map.1 hr
  obtain ⟨e1, e2⟩ := rowWF_lineCells (h4 l hl)
  exact ⟨decide_eq_true e1, e2⟩

/-- 3. hence the cell-level run (`Scr.applyS`, span policy) keeps `Scr.inv` -/
theorem run_cells_inv {cw : Nat → Nat} (hb : cw 0x20 ≤ 1) (hr : cw 0xFFFD ≤ 1) {w h : Nat}
    (hw : 1 ≤ w) (hh : 1 ≤ h) (ops : List SOp) (hok : RunOK cw (SScr.init w h) ops) :
    (ops.foldl (Scr.applyS cw) (Scr.init w h)).inv = true := by
  obtain ⟨r1, r2⟩ := run_refines hb hr hw hh ops hok
  rw [← r1]; exact abs_inv r2

/-! ## non-vacuity: a concrete 5×2 screen -/

/-- a width function for the examples: CJK is two cells wide, U+FFFD and blanks one -/
def cwS : Nat → Nat := fun c => if 0x1100 ≤ c ∧ c < 0xF000 then 2 else 1
/-- U+4E2D, two cells wide under `cwS` -/
def zhong : Bytes := [0xe4, 0xb8, 0xad]

/-- `中` at columns 0-1 -/
def exA : SScr := (SScr.init 5 2).apply cwS (.put zhong 0x4E2D)
/-- the cursor moved onto its second cell and `a` written there: the wide character is kept, the
    text lands after it (`中a__`, cursor at column 3), then `b`: `中ab_` -/
def exB : SScr := ((exA.setCursor 1 0).apply cwS (.put [0x61] 0x61)).apply cwS (.put [0x62] 0x62)
/-- `EL 1` with the cursor on the first cell of the wide character: both its cells go (`__ab_`) -/
def exD : SScr := (exB.setCursor 0 0).apply cwS (.el 1)
/-- `DCH 2` at column 1: `_b___` -/
def exE : SScr := (exD.setCursor 1 0).apply cwS (.dch 2)
/-- `LF` to the bottom row, `xx中` there, `LF` at the bottom (scroll), `resize 3 2` cuts the wide
    character -/
def exOps : List SOp := [.lf, .put [0x78] 0x78, .put [0x78] 0x78, .put zhong 0x4E2D, .lf, .resize 3 2]
def exF : SScr := exOps.foldl (SScr.apply cwS) exE

example : cwS 0x20 ≤ 1 ∧ cwS 0xFFFD ≤ 1 := by decide
example : OpOK cwS (SScr.init 5 2) (.put zhong 0x4E2D) :=
  (by decide : clusters cwS zhong = [(zhong, max (cwS 0x4E2D) 1)])
set_option maxRecDepth 100000 in
example : SScr.inv cwS exA = true ∧ exA.abs cwS = (Scr.init 5 2).applyS cwS (.put zhong 0x4E2D) := by
  decide
set_option maxRecDepth 100000 in
example : exA.lines[0]? = some ⟨[⟨Style.default, zhong, 0, 2⟩, blankSpan Style.default 3], 5⟩ := by decide
-- the cursor on the second cell of the wide character
set_option maxRecDepth 100000 in
example : contAt ((exA.setCursor 1 0).abs cwS |>.row 0) 1 = true := by decide
set_option maxRecDepth 100000 in
example : SScr.inv cwS exB = true ∧
    exB.abs cwS = ((((Scr.init 5 2).applyS cwS (.put zhong 0x4E2D)).setCursor 1 0).applyS cwS
      (.put [0x61] 0x61)).applyS cwS (.put [0x62] 0x62) ∧ exB.cx = 4 := by decide
set_option maxRecDepth 100000 in
example : exB.lines[0]? = some ⟨[⟨Style.default, zhong, 0, 2⟩, ⟨Style.default, [0x61], 0, 1⟩,
    ⟨Style.default, [0x62], 0, 1⟩, blankSpan Style.default 1], 5⟩ := by decide
set_option maxRecDepth 100000 in
example : SScr.inv cwS exD = true ∧ exD.abs cwS = ((exB.abs cwS).setCursor 0 0).applyS cwS (.el 1) ∧
    exD.lines[0]? = some ⟨[blankSpan Style.default 1, blankSpan Style.default 1,
      ⟨Style.default, [0x61], 0, 1⟩, ⟨Style.default, [0x62], 0, 1⟩, blankSpan Style.default 1], 5⟩ := by
  decide
set_option maxRecDepth 100000 in
example : SScr.inv cwS exE = true ∧ exE.abs cwS = ((exD.abs cwS).setCursor 1 0).applyS cwS (.dch 2) := by
  decide
example : RunOK cwS exE exOps :=
  have hx : clusters cwS [0x78] = [([0x78], max (cwS 0x78) 1)] := by decide
  ⟨trivial, hx, hx, (by decide : clusters cwS zhong = [(zhong, max (cwS 0x4E2D) 1)]), trivial,
    (by decide : 1 ≤ 3 ∧ 1 ≤ 2), trivial⟩
set_option maxRecDepth 100000 in
example : SScr.inv cwS exF = true ∧ exF.abs cwS = exOps.foldl (Scr.applyS cwS) (exE.abs cwS) ∧
    exF.w = 3 ∧ exF.lines.length = 2 ∧ (exF.abs cwS).row 0 =
      [⟨.ch [0x78] 1, Style.default⟩, ⟨.ch [0x78] 1, Style.default⟩, blank Style.default] := by decide
/-- the hypothesis `cw 0xFFFD ≤ 1` of `put_refines` is needed: with a two-cell U+FFFD (`cwEx` of
    `C02Span`), a two-cell character written on a 1×1 screen is stored as a run of width 1 with the
    text U+FFFD, which shows two cells; the cell-level `put` writes one cell; the row is no longer
    well formed -/
theorem put_needs_narrow_replacement :
    cwEx 0x20 ≤ 1 ∧ SScr.inv cwEx (SScr.init 1 1) = true ∧
    clusters cwEx zhong = [(zhong, max 2 1)] ∧
    ((SScr.init 1 1).put cwEx zhong 2).abs cwEx ≠ ((SScr.init 1 1).abs cwEx).put .keep zhong 2 ∧
    SScr.inv cwEx ((SScr.init 1 1).put cwEx zhong 2) = false := by
  refine ⟨by decide, by decide, by decide, ?_, ?_⟩
  · set_option maxRecDepth 100000 in decide
  · set_option maxRecDepth 100000 in decide

-- a run from the initial screen that writes onto the second cell of a wide character without
-- any cursor move: three letters, a wide character in columns 3-4 (the cursor is pinned on
-- column 4, its second cell), a fourth letter
def exOps2 : List SOp :=
  [.put [0x61] 0x61, .put [0x61] 0x61, .put [0x61] 0x61, .put zhong 0x4E2D, .put [0x62] 0x62, .ed 0, .ri, .il 1]
example : RunOK cwS (SScr.init 5 2) exOps2 :=
  have ha : clusters cwS [0x61] = [([0x61], max (cwS 0x61) 1)] := by decide
  ⟨ha, ha, ha, (by decide : clusters cwS zhong = [(zhong, max (cwS 0x4E2D) 1)]),
    (by decide : clusters cwS [0x62] = [([0x62], max (cwS 0x62) 1)]), trivial, trivial, trivial, trivial⟩
set_option maxRecDepth 100000 in
example : contAt ((exOps2.take 4).foldl (Scr.applyS cwS) (Scr.init 5 2) |>.row 0) 4 = true := by decide
set_option maxRecDepth 100000 in
example : (exOps2.foldl (SScr.apply cwS) (SScr.init 5 2)).abs cwS =
    exOps2.foldl (Scr.applyS cwS) (Scr.init 5 2) := by decide

#print axioms TM.C02SpanScreen.abs_init
#print axioms TM.C02SpanScreen.inv_init
#print axioms TM.C02SpanScreen.abs_scroll
#print axioms TM.C02SpanScreen.inv_scroll
#print axioms TM.C02SpanScreen.abs_lineDown
#print axioms TM.C02SpanScreen.inv_lineDown
#print axioms TM.C02SpanScreen.abs_lineUp
#print axioms TM.C02SpanScreen.inv_lineUp
#print axioms TM.C02SpanScreen.eraseRegion_refines
#print axioms TM.C02SpanScreen.eraseRegionI_refines
#print axioms TM.C02SpanScreen.dch_refines
#print axioms TM.C02SpanScreen.setCursor_refines
#print axioms TM.C02SpanScreen.resize_refines
#print axioms TM.C02SpanScreen.spanWF_of_token
#print axioms TM.C02SpanScreen.put_refines
#print axioms TM.C02SpanScreen.apply_refines
#print axioms TM.C02SpanScreen.run_refines_from
#print axioms TM.C02SpanScreen.run_refines
#print axioms TM.C02SpanScreen.run_rows
#print axioms TM.C02SpanScreen.abs_inv
#print axioms TM.C02SpanScreen.run_cells_inv
#print axioms TM.C02SpanScreen.put_needs_narrow_replacement

end TM.C02SpanScreen
