import Props.C11SpanAnsi
import Props.C20GridAnsi
import Props.C02SpanTerm
import Props.C20Grid
import Props.C11Mirror
/-!
# C11 for both real buffers, for every input stream

This is the first sentence of property C11 ("Feeding ANSILine(y) for every row into a fresh terminal
of the same size and mode reproduces the same characters and the same attributes in every cell")
for both buffer implementations as the code stores and renders them — the span buffer (rows of
runs, `TM.lineANSI`: one escape per run) and the grid buffer (five arrays per cell, `GRow.ansi`
read from the rune array) — for every input byte stream (rune mode).

Pieces assembled here:

* `C02SpanTerm.stream_rows` / `C20Grid.stream_rows`: after every byte stream each stored row is
  well formed and shows exactly the row of the model terminal `run cw (Term.init pol w h) bs`
  (`pol = .keep` for the span buffer, `.blank` for the grid buffer);
* Part 9 of `Props/C11Mirror.lean` (`InnerOK'`, `innerOK_init`, `innerOK_apply`, `toksFuel_tokOK`):
  every row of both buffers of every state the model terminal reaches is `C11.RowOK`
  (`model_rows_rowOK` below — `C11M` uses `C11.RowOK` itself, no bridge is needed);
* `C11SpanAnsi.lineANSI_roundtrip` / `C20GridAnsi.grid_ansi_roundtrip`: the round trip of one row
  under `C11.RowOK`.

Hypotheses that remain: the width function gives the space and U+FFFD at most one cell; the size
is `1 ≤ w, h ≤ paramMax` (a CUP parameter must address the row).
-/
namespace TM.C11Streams
open TM TM.C11

/-! ## helpers -/

/-- `InnerOK'` after a list of tokens the tokeniser can produce -/
theorem innerOK'_stateAfter (cw : Nat → Nat) (hsp : cw 32 ≤ 1) (hrep : cw 0xFFFD ≤ 1) :
    ∀ (toks : List Tok) (t : Term), C11M.InnerOK' cw t → (∀ tok ∈ toks, C11M.TokOK tok) →
    C11M.InnerOK' cw (C10.stateAfter cw t toks) := by
  intro toks
  induction toks with
  | nil => intro t h _; exact h
  | cons tok toks ih =>
    intro t h htoks
    obtain ⟨h', _⟩ := C11M.innerOK_apply cw t tok h (htoks tok (List.mem_cons_self ..)) hsp hrep
    exact ih _ h' (fun tk htk => htoks tk (List.mem_cons_of_mem _ htk))

theorem rowOK_nil (cw : Nat → Nat) : RowOK cw [] :=
  ⟨rfl, fun i st h => by simp at h, fun c hc => by simp at hc, fun c hc => by simp at hc⟩

/-- a row of a list of rows whose members are `RowOK` (a row outside the list is empty) -/
theorem rowOK_getD {cw : Nat → Nat} {G : List Row} (h : ∀ r ∈ G, RowOK cw r) (y : Nat) :
    RowOK cw (G.getD y []) := by
  rw [List.getD_eq_getElem?_getD]
  by_cases hy : y < G.length
  · rw [List.getElem?_eq_getElem hy, Option.getD_some]
    exact h _ (List.getElem_mem hy)
  · rw [List.getElem?_eq_none (by omega), Option.getD_none]
    exact rowOK_nil cw

/-- every stored row of both buffers of a terminal satisfying `InnerOK'` is `RowOK` -/
theorem rowOK_of_innerOK' {cw : Nat → Nat} {t : Term} (h : C11M.InnerOK' cw t) :
    (∀ r ∈ t.main.grid, RowOK cw r) ∧ (∀ r ∈ t.alt.grid, RowOK cw r) := by
  constructor
  · intro r hr
    have a := h.rows.1.2 r hr
    have c := h.cells.1.1 r hr
    exact ⟨a.1.1, a.2, fun c' hc => (c c' hc).1, fun c' hc t' w' hg => (c c' hc).2 t' w' hg⟩
  · intro r hr
    have a := h.rows.2.1.2 r hr
    have c := h.cells.2.1 r hr
    exact ⟨a.1.1, a.2, fun c' hc => (c c' hc).1, fun c' hc t' w' hg => (c c' hc).2 t' w' hg⟩

/-! ## 1. every row the model terminal reaches is `C11.RowOK` -/

/-- **`model_rows_rowOK`**: for every byte stream, both policies, every size within
    `1 ≤ w, h ≤ paramMax` and every width function giving the space and U+FFFD at most one cell:
    every row of BOTH buffers (not only the active one) of the model terminal after the stream
    satisfies `C11.RowOK` — well formed, continuation cells in the style of their head, valid
    styles, one printable scalar value with its own width per character cell. -/
theorem model_rows_rowOK (cw : Nat → Nat) (hsp : cw 32 ≤ 1) (hrep : cw 0xFFFD ≤ 1)
    (pol : WidePolicy) {w h : Nat} (hw : 1 ≤ w) (hh : 1 ≤ h) (hW : w ≤ paramMax) (hH : h ≤ paramMax)
    (bs : Bytes) (y : Nat) :
    RowOK cw ((run cw (Term.init pol w h) bs).1.main.row y) ∧
    RowOK cw ((run cw (Term.init pol w h) bs).1.alt.row y) := by
  have h1 : (run cw (Term.init pol w h) bs).1 =
      C10.stateAfter cw (Term.init pol w h) (C10.toksOf bs) := C10.runFuel_state ..
  rw [h1]
  have hI := innerOK'_stateAfter cw hsp hrep (C10.toksOf bs) _
    (C11M.innerOK_init cw pol w h hw hh hW hH hsp) (C11M.Lemmas.toksFuel_tokOK _ bs)
  obtain ⟨a, b⟩ := rowOK_of_innerOK' hI
  exact ⟨rowOK_getD a y, rowOK_getD b y⟩

/-! ## 2. the span buffer -/

/-- **`span_ansiline_stream`**: C11, first sentence, for the span buffer as the code stores and
    renders it, for every input stream. `S` is the run-level terminal (rows of runs, Go-shaped
    operations) after the tokens of the byte stream `bs`; `T` is the model terminal after `bs`.
    For every row `y < h` of either buffer: feeding `CUP(y+1,1)` and the bytes of the span buffer's
    `ANSILine(y)` (`lineANSI` of the stored run list: the full escape in front of every run) to a
    fresh terminal of the same size (either policy) reproduces row `y` of the model terminal —
    the same text, widths / continuation cells and packed style in every cell —, which is the row
    of cells the stored run list shows; and every other row is as in the fresh terminal. -/
theorem span_ansiline_stream (cw : Nat → Nat) (hsp : cw 32 ≤ 1) (hrep : cw 0xFFFD ≤ 1)
    {w h : Nat} (hw : 1 ≤ w) (hh : 1 ≤ h) (hW : w ≤ paramMax) (hH : h ≤ paramMax)
    (bs : Bytes) (pol : WidePolicy) (y : Nat) (hy : y < h) :
    let S := C02SpanTerm.sStateAfter cw (STerm.init w h) (C10.toksOf bs)
    let T := (run cw (Term.init .keep w h) bs).1
    ((run cw (Term.init pol w h) (cupRow y ++ lineANSI (S.main.line y))).1.main.row y = T.main.row y ∧
     T.main.row y = lineCells cw (S.main.line y) ∧
     ∀ y', y' ≠ y →
      (run cw (Term.init pol w h) (cupRow y ++ lineANSI (S.main.line y))).1.main.row y' =
        (Term.init pol w h).main.row y') ∧
    ((run cw (Term.init pol w h) (cupRow y ++ lineANSI (S.alt.line y))).1.main.row y = T.alt.row y ∧
     T.alt.row y = lineCells cw (S.alt.line y) ∧
     ∀ y', y' ≠ y →
      (run cw (Term.init pol w h) (cupRow y ++ lineANSI (S.alt.line y))).1.main.row y' =
        (Term.init pol w h).main.row y') := by
  intro S T
  obtain ⟨_, _, _, _, _, _, _, hrows⟩ := C02SpanTerm.stream_rows (cw := cw) hsp hrep hw hh bs
  obtain ⟨m1, m2, a1, a2⟩ := hrows y hy
  change T.main.row y = lineCells cw (S.main.line y) at m2
  change T.alt.row y = lineCells cw (S.alt.line y) at a2
  change lineWF cw w (S.main.line y) = true at m1
  change lineWF cw w (S.alt.line y) = true at a1
  obtain ⟨rm, ra⟩ := model_rows_rowOK cw hsp hrep .keep hw hh hW hH bs y
  change RowOK cw (T.main.row y) at rm
  change RowOK cw (T.alt.row y) at ra
  have hmax : y < paramMax := by omega
  rw [m2] at rm
  rw [a2] at ra
  refine ⟨⟨?_, m2, ?_⟩, ⟨?_, a2, ?_⟩⟩
  · rw [m2]; exact C11SpanAnsi.lineANSI_roundtrip cw pol w h y _ hy hmax m1 rm
  · exact fun y' hne => C11SpanAnsi.lineANSI_other_rows cw pol w h y _ hy hmax m1 rm y' hne
  · rw [a2]; exact C11SpanAnsi.lineANSI_roundtrip cw pol w h y _ hy hmax a1 ra
  · exact fun y' hne => C11SpanAnsi.lineANSI_other_rows cw pol w h y _ hy hmax a1 ra y' hne

/-! ## 3. the grid buffer -/

/-- **`grid_ansiline_stream`**: the same for the grid buffer as the code stores it (five arrays per
    cell; `GRow.ansi` is `renderLineANSI` of `screen_grid.go`, reading the rune array). `G` is the
    array-level terminal after the tokens of `bs`; `T` the model terminal after `bs` (policy
    `.blank`, the grid buffer's). For every row `y < h` of either buffer: `CUP(y+1,1)` and the
    grid's `ANSILine(y)` fed to a fresh terminal of the same size (either policy) reproduce row `y`
    of the model terminal, which is the row of cells the stored arrays show; every other row is as
    in the fresh terminal. -/
theorem grid_ansiline_stream (cw : Nat → Nat) (hsp : cw 32 ≤ 1) (hrep : cw 0xFFFD ≤ 1)
    {w h : Nat} (hw : 1 ≤ w) (hh : 1 ≤ h) (hW : w ≤ paramMax) (hH : h ≤ paramMax)
    (bs : Bytes) (pol : WidePolicy) (y : Nat) (hy : y < h) :
    let G := C20Grid.gStateAfter cw (GTerm.init w h) (C10.toksOf bs)
    let T := (run cw (Term.init .blank w h) bs).1
    ((run cw (Term.init pol w h) (cupRow y ++ GRow.ansi (G.main.row y))).1.main.row y = T.main.row y ∧
     T.main.row y = (G.main.row y).map GCell.abs ∧
     ∀ y', y' ≠ y →
      (run cw (Term.init pol w h) (cupRow y ++ GRow.ansi (G.main.row y))).1.main.row y' =
        (Term.init pol w h).main.row y') ∧
    ((run cw (Term.init pol w h) (cupRow y ++ GRow.ansi (G.alt.row y))).1.main.row y = T.alt.row y ∧
     T.alt.row y = (G.alt.row y).map GCell.abs ∧
     ∀ y', y' ≠ y →
      (run cw (Term.init pol w h) (cupRow y ++ GRow.ansi (G.alt.row y))).1.main.row y' =
        (Term.init pol w h).main.row y') := by
  intro G T
  obtain ⟨_, _, _, _, _, _, _, hrows⟩ := C20Grid.stream_rows cw hw hh bs
  obtain ⟨m1, m2, a1, a2⟩ := hrows y hy
  change T.main.row y = (G.main.row y).map GCell.abs at m2
  change T.alt.row y = (G.alt.row y).map GCell.abs at a2
  change C20Grid.RowInv w (G.main.row y) at m1
  change C20Grid.RowInv w (G.alt.row y) at a1
  have hok : C20GridAnsi.TermOK G := C20GridAnsi.stream_chOK cw w h bs
  have cm := C20GridAnsi.cellsOK_iff.2 (C20GridAnsi.row_chOK hok.1 y)
  have ca := C20GridAnsi.cellsOK_iff.2 (C20GridAnsi.row_chOK hok.2 y)
  obtain ⟨rm, ra⟩ := model_rows_rowOK cw hsp hrep .blank hw hh hW hH bs y
  change RowOK cw (T.main.row y) at rm
  change RowOK cw (T.alt.row y) at ra
  have hmax : y < paramMax := by omega
  rw [m2] at rm
  rw [a2] at ra
  refine ⟨⟨?_, m2, ?_⟩, ⟨?_, a2, ?_⟩⟩
  · rw [m2]; exact C20GridAnsi.grid_ansi_roundtrip cw pol w h y _ cm hy hmax m1.1 rm
  · intro y' hne
    rw [C20GridAnsi.ansi_eq_renderRowANSI cm]
    exact other_rows_untouched cw pol w h y _ hy hmax (by rw [List.length_map]; exact m1.1) rm y' hne
  · rw [a2]; exact C20GridAnsi.grid_ansi_roundtrip cw pol w h y _ ca hy hmax a1.1 ra
  · intro y' hne
    rw [C20GridAnsi.ansi_eq_renderRowANSI ca]
    exact other_rows_untouched cw pol w h y _ hy hmax (by rw [List.length_map]; exact a1.1) ra y' hne

/-! ## 4. non-vacuity: a short concrete stream with attributes, a wide character and both buffers -/

namespace Examples
open TM.C02SpanScreen (cwS)

/-- `SGR 1;31`, `A`, `世` (two cells under `cwS`), `SGR 0`, `b`, `?1049h` (alternate buffer), `SGR 4`, `z` -/
def exBs : Bytes :=
  [0x1b, 0x5b, 0x31, 0x3b, 0x33, 0x31, 0x6d, 0x41, 0xe4, 0xb8, 0x96, 0x1b, 0x5b, 0x6d, 0x62,
   0x1b, 0x5b, 0x3f, 0x31, 0x30, 0x34, 0x39, 0x68, 0x1b, 0x5b, 0x34, 0x6d, 0x7a]

/-- bold, red foreground -/
def boldRed : Style := ⟨0x01000001#32, 0x00000100#32, 0x00000100#32⟩
/-- underlined -/
def under : Style := ⟨0x08000100#32, 0x00000100#32, 0x00000100#32⟩

/-- the span-level, grid-level and model terminals (6 × 2) after the stream -/
def exS : STerm := C02SpanTerm.sStateAfter cwS (STerm.init 6 2) (C10.toksOf exBs)
def exG : GTerm := C20Grid.gStateAfter cwS (GTerm.init 6 2) (C10.toksOf exBs)
def exT (pol : WidePolicy) : Term := (run cwS (Term.init pol 6 2) exBs).1

-- the hypotheses of the theorems on this instance
example : cwS 32 ≤ 1 ∧ cwS 0xFFFD ≤ 1 ∧ 1 ≤ 6 ∧ 1 ≤ 2 ∧ 6 ≤ paramMax ∧ 2 ≤ paramMax := by decide

-- (the stream contains SGR: `applySGR` is a well-founded recursion, which `decide` does not unfold;
-- `decide +kernel` lets the kernel evaluate the same `Decidable` instance — no compiler, no axiom)
-- what is stored: four runs in the span buffer's main row 0 …
set_option maxRecDepth 100000 in
example : exS.main.line 0 =
    ⟨[⟨boldRed, [0x41], 0, 1⟩, ⟨boldRed, [0xe4, 0xb8, 0x96], 0, 2⟩, ⟨Style.default, [0x62], 0, 1⟩,
      ⟨Style.default, [], 0x20, 2⟩], 6⟩ := by decide +kernel
-- … which the model terminal shows as six cells, with two renditions and a continuation cell
set_option maxRecDepth 100000 in
example : (exT .keep).main.row 0 =
    [⟨.ch [0x41] 1, boldRed⟩, ⟨.ch [0xe4, 0xb8, 0x96] 2, boldRed⟩, ⟨.cont, boldRed⟩,
     ⟨.ch [0x62] 1, Style.default⟩, ⟨.ch [0x20] 1, Style.default⟩, ⟨.ch [0x20] 1, Style.default⟩] := by
  decide +kernel
set_option maxRecDepth 100000 in
example : ((exT .keep).alt.row 0).take 2 = [⟨.ch [0x7a] 1, under⟩, ⟨.ch [0x20] 1, Style.default⟩] := by
  decide +kernel

-- the two `ANSILine(0)` byte strings: the span buffer repeats the escape in front of `世`, the grid
-- buffer does not — different bytes, the same row
set_option maxRecDepth 100000 in
example : lineANSI (exS.main.line 0) =
    boldRed.ansiEscape ++ [0x41] ++ boldRed.ansiEscape ++ [0xe4, 0xb8, 0x96] ++
      Style.default.ansiEscape ++ [0x62] ++ Style.default.ansiEscape ++ [0x20, 0x20] := by decide +kernel
set_option maxRecDepth 100000 in
example : GRow.ansi (exG.main.row 0) =
    boldRed.ansiEscape ++ [0x41, 0xe4, 0xb8, 0x96] ++ Style.default.ansiEscape ++ [0x62, 0x20, 0x20] := by
  decide +kernel
set_option maxRecDepth 100000 in
example : lineANSI (exS.alt.line 0) =
    under.ansiEscape ++ [0x7a] ++ Style.default.ansiEscape ++ [0x20, 0x20, 0x20, 0x20, 0x20] := by decide +kernel

/-- `model_rows_rowOK` on the instance -/
example (pol : WidePolicy) (y : Nat) : RowOK cwS ((exT pol).main.row y) ∧ RowOK cwS ((exT pol).alt.row y) :=
  model_rows_rowOK cwS (by decide) (by decide) pol (by decide) (by decide) (by decide) (by decide) exBs y

/-- `span_ansiline_stream` on the instance: row 0 of the main and of the alternate buffer -/
example (pol : WidePolicy) :
    (run cwS (Term.init pol 6 2) (cupRow 0 ++ lineANSI (exS.main.line 0))).1.main.row 0 =
      (exT .keep).main.row 0 ∧
    (run cwS (Term.init pol 6 2) (cupRow 0 ++ lineANSI (exS.alt.line 0))).1.main.row 0 =
      (exT .keep).alt.row 0 ∧
    (run cwS (Term.init pol 6 2) (cupRow 0 ++ lineANSI (exS.main.line 0))).1.main.row 1 =
      (Term.init pol 6 2).main.row 1 := by
  have h := span_ansiline_stream cwS (by decide) (by decide) (w := 6) (h := 2) (by decide) (by decide)
    (by decide) (by decide) exBs pol 0 (by decide)
  exact ⟨h.1.1, h.2.1, h.1.2.2 1 (by decide)⟩

/-- `grid_ansiline_stream` on the instance -/
example (pol : WidePolicy) :
    (run cwS (Term.init pol 6 2) (cupRow 0 ++ GRow.ansi (exG.main.row 0))).1.main.row 0 =
      (exT .blank).main.row 0 ∧
    (run cwS (Term.init pol 6 2) (cupRow 0 ++ GRow.ansi (exG.alt.row 0))).1.main.row 0 =
      (exT .blank).alt.row 0 ∧
    (run cwS (Term.init pol 6 2) (cupRow 0 ++ GRow.ansi (exG.main.row 0))).1.main.row 1 =
      (Term.init pol 6 2).main.row 1 := by
  have h := grid_ansiline_stream cwS (by decide) (by decide) (w := 6) (h := 2) (by decide) (by decide)
    (by decide) (by decide) exBs pol 0 (by decide)
  exact ⟨h.1.1, h.2.1, h.1.2.2 1 (by decide)⟩

end Examples

end TM.C11Streams

#print axioms TM.C11Streams.model_rows_rowOK
#print axioms TM.C11Streams.span_ansiline_stream
#print axioms TM.C11Streams.grid_ansiline_stream
