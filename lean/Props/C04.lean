import TM.Term
/-!
# C04 — cursor motion controls

BS, DEL, HT, CR, LF / FF / IND / RI, CUU / CUD / CUF / CUB, CHA, VPA, CUP / HVP and
save / restore cursor (`CSI s` / `CSI u`) move the cursor to the position the control function
defines (omitted parameters default to 1, targets clamp to the screen). They change screen
content only when an index or line feed crosses the edge of the scroll region, and then only by
scrolling that region.

Model: `TM.Term.apply` on `.ctl 8/127/9/10/12/13`, `.esc [] 0x44/0x4d` and the `A B C D G d H f s u`
rows of `TM.Term.csiPlain`. Everything is stated for the *active* screen `t.scr` of an arbitrary
terminal `t`, for every `Int` parameter list (absent, 0, 1, in range, beyond the screen, huge,
even negative), every cursor position, every margin setting and every size. The only
hypothesis used is the part `Scr.CursorIn` (`cx < w ∧ cy < h`) of `Scr.inv`
(`cursorIn_of_inv`), and for the row-by-row description of a scroll the parts
`grid.length = h`, `top ≤ bot`, `bot < h`.

Coordinates are 0-based; positions are compared in `Int` so that `x - n` is a true subtraction.
-/
namespace TM.C04
open TM

/-! ## Vocabulary -/

/-- the cursor is on the screen (part of `Scr.inv`) -/
def _root_.TM.Scr.CursorIn (s : Scr) : Prop := s.cx < s.w ∧ s.cy < s.h

/-- the saved cursor is on the screen (part of `Scr.inv`) -/
def _root_.TM.Scr.SavedIn (s : Scr) : Prop := s.sx < s.w ∧ s.sy < s.h

instance (s : Scr) : Decidable s.CursorIn := by unfold Scr.CursorIn; infer_instance
instance (s : Scr) : Decidable s.SavedIn := by unfold Scr.SavedIn; infer_instance

/-- the active screen after one token -/
def after (cw : Nat → Nat) (t : Term) (tok : Tok) : Scr := (t.apply cw tok).1.scr

/-- the events one token produces -/
def events (cw : Nat → Nat) (t : Term) (tok : Tok) : List Ev := (t.apply cw tok).2

/-- the buffer that is not displayed -/
def inactive (t : Term) : Scr := if t.onAlt then t.main else t.alt

/-- everything of the terminal that is not the active screen buffer is identical: width
    policy, which buffer is active, the inactive buffer, view flags / ints / strings, both
    keyboard-flag stacks -/
def SameOutside (t t' : Term) : Prop :=
  t'.pol = t.pol ∧ t'.onAlt = t.onAlt ∧ inactive t' = inactive t ∧
  t'.vflags = t.vflags ∧ t'.vints = t.vints ∧ t'.vstrs = t.vstrs ∧
  t'.kmain = t.kmain ∧ t'.kalt = t.kalt

/-- the cursor motion controls of C04 -/
inductive Motion
  | bs | del | ht | cr | lf | ff | ind | ri
  | cuu (ps : List Int) | cud (ps : List Int) | cuf (ps : List Int) | cub (ps : List Int)
  | cha (ps : List Int) | vpa (ps : List Int) | cup (ps : List Int) | hvp (ps : List Int)
  | save (ps : List Int) | restore (ps : List Int)
deriving Repr

/-- the token the parser delivers for each control -/
def Motion.tok : Motion → Tok
  | .bs => .ctl 8
  | .del => .ctl 127
  | .ht => .ctl 9
  | .cr => .ctl 13
  | .lf => .ctl 10
  | .ff => .ctl 12
  | .ind => .esc [] 0x44
  | .ri => .esc [] 0x4d
  | .cuu ps => .csi 0 ps true 0x41
  | .cud ps => .csi 0 ps true 0x42
  | .cuf ps => .csi 0 ps true 0x43
  | .cub ps => .csi 0 ps true 0x44
  | .cha ps => .csi 0 ps true 0x47
  | .vpa ps => .csi 0 ps true 0x64
  | .cup ps => .csi 0 ps true 0x48
  | .hvp ps => .csi 0 ps true 0x66
  | .save ps => .csi 0 ps true 0x73
  | .restore ps => .csi 0 ps true 0x75

/-- `CSI s` -/
def Motion.isSave : Motion → Bool | .save _ => true | _ => false
/-- LF, FF, IND, RI: the controls that may scroll -/
def Motion.isIndex : Motion → Bool | .lf | .ff | .ind | .ri => true | _ => false
/-- LF, FF, IND -/
def Motion.isDown : Motion → Bool | .lf | .ff | .ind => true | _ => false

/-- run a sequence of motion controls (events dropped) -/
def run (cw : Nat → Nat) (t : Term) (ms : List Motion) : Term :=
  ms.foldl (fun t m => (t.apply cw m.tok).1) t

/-! ## Helper lemmas -/
namespace Lemmas

theorem scr_setScr (t : Term) (s : Scr) : (t.setScr s).scr = s := by
  unfold Term.setScr Term.scr; cases t.onAlt <;> simp

theorem sameOutside_setScr (t : Term) (s : Scr) : SameOutside t (t.setScr s) := by
  unfold SameOutside inactive Term.setScr; cases h : t.onAlt <;> simp

/-- what each control does to the active screen, transcribed from the dispatch -/
def step : Motion → Scr → Scr
  | .bs, s | .del, s => { s with cx := s.cx - 1 }
  | .ht, s => s.setCursor (((s.cx / 8) + 1) * 8 : Nat) s.cy
  | .cr, s => { s with cx := 0 }
  | .lf, s => ({ s with cx := 0 } : Scr).lineDown
  | .ff, s | .ind, s => s.lineDown
  | .ri, s => s.lineUp
  | .cuu ps, s => s.setCursor s.cx (s.cy - pMove ps)
  | .cud ps, s => s.setCursor s.cx (s.cy + pMove ps)
  | .cuf ps, s => s.setCursor (s.cx + pMove ps) s.cy
  | .cub ps, s => s.setCursor (s.cx - pMove ps) s.cy
  | .cha ps, s => s.setCursor (p0 ps 1 - 1) s.cy
  | .vpa ps, s => s.setCursor s.cx (p0 ps 1 - 1)
  | .cup ps, s | .hvp ps, s => s.setCursor (pAt ps 1 1 - 1) (pAt ps 0 1 - 1)
  | .save _, s => s.saveCursor
  | .restore _, s => s.restoreCursor

theorem apply_tok (cw : Nat → Nat) (t : Term) (m : Motion) :
    t.apply cw m.tok =
      if m.isSave then (t.setScr (step m t.scr), []) else t.withScr (step m t.scr) := by
  cases m <;> simp [Motion.tok, step, Motion.isSave, Term.apply, Term.csi, Term.csiPlain]

theorem after_tok (cw : Nat → Nat) (t : Term) (m : Motion) : after cw t m.tok = step m t.scr := by
  unfold after; rw [apply_tok]; cases m.isSave <;> simp [Term.withScr, scr_setScr]

theorem events_tok (cw : Nat → Nat) (t : Term) (m : Motion) :
    events cw t m.tok =
      if m.isSave then [] else [.cursor (after cw t m.tok).cx (after cw t m.tok).cy] := by
  rw [after_tok]; unfold events; rw [apply_tok]; cases m.isSave <;> simp [Term.withScr]

theorem outside_tok (cw : Nat → Nat) (t : Term) (m : Motion) :
    SameOutside t (t.apply cw m.tok).1 := by
  rw [apply_tok]; cases m.isSave <;> simp [Term.withScr, sameOutside_setScr]

/-- `clampNat` is the two-sided clamp -/
theorem clampNat_eq (v : Int) (hi : Nat) :
    ((clampNat v hi : Nat) : Int) = min (max v 0) (hi : Int) := by
  unfold clampNat; omega

/-- a scroll touches only the grid -/
theorem scroll_frame (s : Scr) (a b : Nat) (d : Int) :
    s.scroll a b d = { s with grid := (s.scroll a b d).grid } := by
  unfold Scr.scroll; split <;> rfl

/-- the rows a scroll produces depend only on size, grid and rendition (not on the cursor) -/
theorem scroll_grid_congr (s s' : Scr) (a b : Nat) (d : Int) (hw : s'.w = s.w) (hh : s'.h = s.h)
    (hg : s'.grid = s.grid) (hs : s'.sty = s.sty) :
    (s'.scroll a b d).grid = (s.scroll a b d).grid := by
  unfold Scr.scroll; rw [hw, hh, hg, hs]; split <;> first | exact hg | rfl

theorem lineDown_eq (s : Scr) :
    s.lineDown =
      if s.cy = s.bot then { s with grid := (s.scroll s.top s.bot (-1)).grid }
      else if s.cy + 1 < s.h then { s with cy := s.cy + 1 } else s := by
  unfold Scr.lineDown; split
  · exact scroll_frame ..
  · rfl

theorem lineUp_eq (s : Scr) :
    s.lineUp =
      if s.cy = s.top then { s with grid := (s.scroll s.top s.bot 1).grid }
      else if 0 < s.cy then { s with cy := s.cy - 1 } else s := by
  unfold Scr.lineUp; split
  · exact scroll_frame ..
  · rfl

/-- scrolling `[a,b]` up by one, row by row -/
theorem scroll_up_getElem? (s : Scr) (a b : Nat) (hlen : s.grid.length = s.h) (hab : a ≤ b)
    (hb : b < s.h) (y : Nat) :
    (s.scroll a b (-1)).grid[y]? =
      if y < a ∨ b < y then s.grid[y]?
      else if y < b then s.grid[y + 1]?
      else some (blankRow s.w s.sty) := by
  have h1 : ¬ (a > b ∨ b ≥ s.h) := by omega
  have hk : min (1:Nat) (b - a + 1) = 1 := by omega
  simp only [Scr.scroll, h1, if_false, Int.natAbs_neg, Int.natAbs_one, hk]
  simp only [show ¬ ((-1 : Int) ≥ 0) by omega, if_false]
  simp only [List.getElem?_append, List.length_append, List.length_take, List.length_drop,
    List.length_replicate, List.getElem?_take, List.getElem?_drop, List.getElem?_replicate]
  rw [hlen]
  have m1 : min a s.h = a := by omega
  have m2 : min (b - a + 1) (s.h - a) = b - a + 1 := by omega
  simp only [m1, m2]
  repeat' split
  all_goals first | rfl | omega | (congr 1; omega)

/-- scrolling `[a,b]` down by one, row by row -/
theorem scroll_down_getElem? (s : Scr) (a b : Nat) (hlen : s.grid.length = s.h) (hab : a ≤ b)
    (hb : b < s.h) (y : Nat) :
    (s.scroll a b 1).grid[y]? =
      if y < a ∨ b < y then s.grid[y]?
      else if a < y then s.grid[y - 1]?
      else some (blankRow s.w s.sty) := by
  have h1 : ¬ (a > b ∨ b ≥ s.h) := by omega
  have hk : min (1:Nat) (b - a + 1) = 1 := by omega
  simp only [Scr.scroll, h1, if_false, Int.natAbs_one, hk]
  simp only [show ((1 : Int) ≥ 0) by omega, if_true]
  simp only [List.getElem?_append, List.length_append, List.length_take, List.length_drop,
    List.length_replicate, List.getElem?_take, List.getElem?_drop, List.getElem?_replicate]
  rw [hlen]
  have m1 : min a s.h = a := by omega
  have m2 : min (b - a + 1) (s.h - a) = b - a + 1 := by omega
  simp only [m1, m2]
  repeat' split
  all_goals first | rfl | omega | (congr 1; omega)

theorem inv_iff (s : Scr) : s.inv = true ↔
    (1 ≤ s.w ∧ 1 ≤ s.h ∧ s.grid.length = s.h ∧ (∀ r ∈ s.grid, r.length = s.w ∧ rowWF r = true) ∧
     s.cx < s.w ∧ s.cy < s.h ∧ s.sx < s.w ∧ s.sy < s.h ∧ s.top ≤ s.bot ∧ s.bot < s.h) := by
  simp [Scr.inv, and_assoc]

theorem rowWF_blankRow (w : Nat) (st : Style) : rowWF (blankRow w st) = true := by
  simp only [rowWF, blankRow, List.all_eq_true, List.mem_range, List.length_replicate]
  intro i hi
  simp [List.getElem?_replicate, hi, blank, contAt]
  omega

theorem scroll_grid_length (s : Scr) (a b : Nat) (d : Int) (hlen : s.grid.length = s.h) :
    (s.scroll a b d).grid.length = s.h := by
  unfold Scr.scroll
  split
  · exact hlen
  · simp only []
    split <;> simp [List.length_append, List.length_take, List.length_drop, hlen] <;> omega

theorem scroll_grid_mem (s : Scr) (a b : Nat) (d : Int) (r : Row) (hr : r ∈ (s.scroll a b d).grid) :
    r ∈ s.grid ∨ r = blankRow s.w s.sty := by
  unfold Scr.scroll at hr
  split at hr
  · exact .inl hr
  · simp only [] at hr
    split at hr <;> simp only [List.mem_append, List.mem_replicate] at hr
    all_goals
      rcases hr with (h | h | h) | h
      all_goals first
        | exact .inr h.2
        | exact .inl (List.mem_of_mem_take h)
        | exact .inl (List.mem_of_mem_drop h)
        | exact .inl (List.mem_of_mem_drop (List.mem_of_mem_take h))
        | exact .inl (List.mem_of_mem_take (List.mem_of_mem_drop h))
        | exact .inl (List.mem_of_mem_drop (List.mem_of_mem_take (List.mem_of_mem_drop h)))
        | exact .inl (List.mem_of_mem_drop (List.mem_of_mem_take (List.mem_of_mem_take h)))

end Lemmas
open Lemmas

/-- split the conjunctions of the goal, close every part by `trivial` or `omega` -/
local macro "finish" : tactic => `(tactic| (and_intros <;> first | trivial | omega))

/-- `Scr.inv` provides every hypothesis used below -/
theorem cursorIn_of_inv (s : Scr) (h : s.inv = true) :
    s.CursorIn ∧ s.SavedIn ∧ 1 ≤ s.w ∧ 1 ≤ s.h ∧ s.grid.length = s.h ∧ s.top ≤ s.bot ∧ s.bot < s.h := by
  simp only [Scr.inv, Bool.and_eq_true, decide_eq_true_eq] at h
  unfold Scr.CursorIn Scr.SavedIn
  omega

/-! ## 1. Where the cursor goes

Each theorem gives the exact resulting position of one control (as the formula of the control
function) and states that the result is on the screen. -/

/-- BS: one column left, stopping at column 0 -/
theorem bs_cursor (cw : Nat → Nat) (t : Term) (hc : t.scr.CursorIn) :
    ((after cw t (.ctl 8)).cx : Int) = max ((t.scr.cx : Int) - 1) 0 ∧
    (after cw t (.ctl 8)).cy = t.scr.cy ∧ (after cw t (.ctl 8)).CursorIn := by
  rw [show after cw t (.ctl 8) = _ from after_tok cw t .bs]
  simp only [step, Scr.CursorIn] at *
  finish

/-- DEL is treated as BS -/
theorem del_cursor (cw : Nat → Nat) (t : Term) (hc : t.scr.CursorIn) :
    ((after cw t (.ctl 127)).cx : Int) = max ((t.scr.cx : Int) - 1) 0 ∧
    (after cw t (.ctl 127)).cy = t.scr.cy ∧ (after cw t (.ctl 127)).CursorIn := by
  rw [show after cw t (.ctl 127) = _ from after_tok cw t .del]
  simp only [step, Scr.CursorIn] at *
  finish

/-- HT: next multiple of 8, stopping at the last column -/
theorem ht_cursor (cw : Nat → Nat) (t : Term) (hc : t.scr.CursorIn) :
    ((after cw t (.ctl 9)).cx : Int) = min (((t.scr.cx : Int) / 8 + 1) * 8) ((t.scr.w : Int) - 1) ∧
    (after cw t (.ctl 9)).cy = t.scr.cy ∧ (after cw t (.ctl 9)).CursorIn := by
  rw [show after cw t (.ctl 9) = _ from after_tok cw t .ht]
  simp only [step, Scr.setCursor, clampNat, Scr.CursorIn] at *
  finish

/-- CR: column 0 of the same row -/
theorem cr_cursor (cw : Nat → Nat) (t : Term) (hc : t.scr.CursorIn) :
    (after cw t (.ctl 13)).cx = 0 ∧ (after cw t (.ctl 13)).cy = t.scr.cy ∧
    (after cw t (.ctl 13)).CursorIn := by
  rw [show after cw t (.ctl 13) = _ from after_tok cw t .cr]
  simp only [step, Scr.CursorIn] at *
  finish

/-- LF: column 0; one row down unless on the bottom margin (then the region scrolls and the
    cursor stays) or on the last row of the screen -/
theorem lf_cursor (cw : Nat → Nat) (t : Term) (hc : t.scr.CursorIn) :
    (after cw t (.ctl 10)).cx = 0 ∧
    (after cw t (.ctl 10)).cy =
      (if t.scr.cy = t.scr.bot then t.scr.cy
       else if t.scr.cy + 1 < t.scr.h then t.scr.cy + 1 else t.scr.cy) ∧
    (after cw t (.ctl 10)).CursorIn := by
  rw [show after cw t (.ctl 10) = _ from after_tok cw t .lf]
  simp only [step, lineDown_eq, Scr.CursorIn] at *
  repeat' split
  all_goals (try simp only []) <;> finish

/-- FF: like LF but the column is kept -/
theorem ff_cursor (cw : Nat → Nat) (t : Term) (hc : t.scr.CursorIn) :
    (after cw t (.ctl 12)).cx = t.scr.cx ∧
    (after cw t (.ctl 12)).cy =
      (if t.scr.cy = t.scr.bot then t.scr.cy
       else if t.scr.cy + 1 < t.scr.h then t.scr.cy + 1 else t.scr.cy) ∧
    (after cw t (.ctl 12)).CursorIn := by
  rw [show after cw t (.ctl 12) = _ from after_tok cw t .ff]
  simp only [step, lineDown_eq, Scr.CursorIn] at *
  repeat' split
  all_goals (try simp only []) <;> finish

/-- IND (`ESC D`): one row down, column kept; scroll instead on the bottom margin -/
theorem ind_cursor (cw : Nat → Nat) (t : Term) (hc : t.scr.CursorIn) :
    (after cw t (.esc [] 0x44)).cx = t.scr.cx ∧
    (after cw t (.esc [] 0x44)).cy =
      (if t.scr.cy = t.scr.bot then t.scr.cy
       else if t.scr.cy + 1 < t.scr.h then t.scr.cy + 1 else t.scr.cy) ∧
    (after cw t (.esc [] 0x44)).CursorIn := by
  rw [show after cw t (.esc [] 0x44) = _ from after_tok cw t .ind]
  simp only [step, lineDown_eq, Scr.CursorIn] at *
  repeat' split
  all_goals (try simp only []) <;> finish

/-- RI (`ESC M`): one row up, column kept; scroll instead on the top margin; stay on row 0 -/
theorem ri_cursor (cw : Nat → Nat) (t : Term) (hc : t.scr.CursorIn) :
    (after cw t (.esc [] 0x4d)).cx = t.scr.cx ∧
    ((after cw t (.esc [] 0x4d)).cy : Int) =
      (if t.scr.cy = t.scr.top then (t.scr.cy : Int) else max ((t.scr.cy : Int) - 1) 0) ∧
    (after cw t (.esc [] 0x4d)).CursorIn := by
  rw [show after cw t (.esc [] 0x4d) = _ from after_tok cw t .ri]
  simp only [step, lineUp_eq, Scr.CursorIn] at *
  repeat' split
  all_goals (try simp only []) <;> finish

/-- CUU `CSI n A`: `n` rows up, clamped to the screen (never scrolls, see
    `motion_preserves_content`). For `0 ≤ n` this is `max (y - n) 0`: `cuu_cursor_nonneg`. -/
theorem cuu_cursor (cw : Nat → Nat) (t : Term) (ps : List Int) (hc : t.scr.CursorIn) :
    (after cw t (.csi 0 ps true 0x41)).cx = t.scr.cx ∧
    ((after cw t (.csi 0 ps true 0x41)).cy : Int)
      = min (max ((t.scr.cy : Int) - pMove ps) 0) ((t.scr.h : Int) - 1) ∧
    (after cw t (.csi 0 ps true 0x41)).CursorIn := by
  rw [show after cw t (.csi 0 ps true 0x41) = _ from after_tok cw t (.cuu ps)]
  simp only [step, Scr.setCursor, clampNat, Scr.CursorIn] at *
  finish

theorem cuu_cursor_nonneg (cw : Nat → Nat) (t : Term) (ps : List Int) (hc : t.scr.CursorIn)
    (hn : 0 ≤ pMove ps) :
    ((after cw t (.csi 0 ps true 0x41)).cy : Int) = max ((t.scr.cy : Int) - pMove ps) 0 := by
  have := cuu_cursor cw t ps hc
  simp only [Scr.CursorIn] at *
  omega

/-- CUD `CSI n B`: `n` rows down, clamped to the screen; never scrolls. For `0 ≤ n` this is
    `min (y + n) (h - 1)`. -/
theorem cud_cursor (cw : Nat → Nat) (t : Term) (ps : List Int) (hc : t.scr.CursorIn) :
    (after cw t (.csi 0 ps true 0x42)).cx = t.scr.cx ∧
    ((after cw t (.csi 0 ps true 0x42)).cy : Int)
      = min (max ((t.scr.cy : Int) + pMove ps) 0) ((t.scr.h : Int) - 1) ∧
    (after cw t (.csi 0 ps true 0x42)).CursorIn := by
  rw [show after cw t (.csi 0 ps true 0x42) = _ from after_tok cw t (.cud ps)]
  simp only [step, Scr.setCursor, clampNat, Scr.CursorIn] at *
  finish

theorem cud_cursor_nonneg (cw : Nat → Nat) (t : Term) (ps : List Int) (hc : t.scr.CursorIn)
    (hn : 0 ≤ pMove ps) :
    ((after cw t (.csi 0 ps true 0x42)).cy : Int)
      = min ((t.scr.cy : Int) + pMove ps) ((t.scr.h : Int) - 1) := by
  have := cud_cursor cw t ps hc
  simp only [Scr.CursorIn] at *
  omega

/-- CUF `CSI n C`: `n` columns right, clamped; never wraps. For `0 ≤ n`: `min (x + n) (w - 1)` -/
theorem cuf_cursor (cw : Nat → Nat) (t : Term) (ps : List Int) (hc : t.scr.CursorIn) :
    ((after cw t (.csi 0 ps true 0x43)).cx : Int)
      = min (max ((t.scr.cx : Int) + pMove ps) 0) ((t.scr.w : Int) - 1) ∧
    (after cw t (.csi 0 ps true 0x43)).cy = t.scr.cy ∧
    (after cw t (.csi 0 ps true 0x43)).CursorIn := by
  rw [show after cw t (.csi 0 ps true 0x43) = _ from after_tok cw t (.cuf ps)]
  simp only [step, Scr.setCursor, clampNat, Scr.CursorIn] at *
  finish

theorem cuf_cursor_nonneg (cw : Nat → Nat) (t : Term) (ps : List Int) (hc : t.scr.CursorIn)
    (hn : 0 ≤ pMove ps) :
    ((after cw t (.csi 0 ps true 0x43)).cx : Int)
      = min ((t.scr.cx : Int) + pMove ps) ((t.scr.w : Int) - 1) := by
  have := cuf_cursor cw t ps hc
  simp only [Scr.CursorIn] at *
  omega

/-- CUB `CSI n D`: `n` columns left, clamped. For `0 ≤ n`: `max (x - n) 0` -/
theorem cub_cursor (cw : Nat → Nat) (t : Term) (ps : List Int) (hc : t.scr.CursorIn) :
    ((after cw t (.csi 0 ps true 0x44)).cx : Int)
      = min (max ((t.scr.cx : Int) - pMove ps) 0) ((t.scr.w : Int) - 1) ∧
    (after cw t (.csi 0 ps true 0x44)).cy = t.scr.cy ∧
    (after cw t (.csi 0 ps true 0x44)).CursorIn := by
  rw [show after cw t (.csi 0 ps true 0x44) = _ from after_tok cw t (.cub ps)]
  simp only [step, Scr.setCursor, clampNat, Scr.CursorIn] at *
  finish

theorem cub_cursor_nonneg (cw : Nat → Nat) (t : Term) (ps : List Int) (hc : t.scr.CursorIn)
    (hn : 0 ≤ pMove ps) :
    ((after cw t (.csi 0 ps true 0x44)).cx : Int) = max ((t.scr.cx : Int) - pMove ps) 0 := by
  have := cub_cursor cw t ps hc
  simp only [Scr.CursorIn] at *
  omega

/-- CHA `CSI n G`: column `n` (1-based), clamped to the row; row kept -/
theorem cha_cursor (cw : Nat → Nat) (t : Term) (ps : List Int) (hc : t.scr.CursorIn) :
    ((after cw t (.csi 0 ps true 0x47)).cx : Int)
      = min (max (p0 ps 1 - 1) 0) ((t.scr.w : Int) - 1) ∧
    (after cw t (.csi 0 ps true 0x47)).cy = t.scr.cy ∧
    (after cw t (.csi 0 ps true 0x47)).CursorIn := by
  rw [show after cw t (.csi 0 ps true 0x47) = _ from after_tok cw t (.cha ps)]
  simp only [step, Scr.setCursor, clampNat, Scr.CursorIn] at *
  finish

/-- VPA `CSI n d`: row `n` (1-based), clamped to the screen; column kept -/
theorem vpa_cursor (cw : Nat → Nat) (t : Term) (ps : List Int) (hc : t.scr.CursorIn) :
    (after cw t (.csi 0 ps true 0x64)).cx = t.scr.cx ∧
    ((after cw t (.csi 0 ps true 0x64)).cy : Int)
      = min (max (p0 ps 1 - 1) 0) ((t.scr.h : Int) - 1) ∧
    (after cw t (.csi 0 ps true 0x64)).CursorIn := by
  rw [show after cw t (.csi 0 ps true 0x64) = _ from after_tok cw t (.vpa ps)]
  simp only [step, Scr.setCursor, clampNat, Scr.CursorIn] at *
  finish

/-- CUP `CSI r ; c H`: row `r`, column `c` (1-based, each defaulting to 1), both clamped.
    Absolute: independent of the old position and of the margins. -/
theorem cup_cursor (cw : Nat → Nat) (t : Term) (ps : List Int) (hc : t.scr.CursorIn) :
    ((after cw t (.csi 0 ps true 0x48)).cx : Int)
      = min (max (pAt ps 1 1 - 1) 0) ((t.scr.w : Int) - 1) ∧
    ((after cw t (.csi 0 ps true 0x48)).cy : Int)
      = min (max (pAt ps 0 1 - 1) 0) ((t.scr.h : Int) - 1) ∧
    (after cw t (.csi 0 ps true 0x48)).CursorIn := by
  rw [show after cw t (.csi 0 ps true 0x48) = _ from after_tok cw t (.cup ps)]
  simp only [step, Scr.setCursor, clampNat, Scr.CursorIn] at *
  finish

/-- HVP `CSI r ; c f` is CUP -/
theorem hvp_cursor (cw : Nat → Nat) (t : Term) (ps : List Int) (hc : t.scr.CursorIn) :
    ((after cw t (.csi 0 ps true 0x66)).cx : Int)
      = min (max (pAt ps 1 1 - 1) 0) ((t.scr.w : Int) - 1) ∧
    ((after cw t (.csi 0 ps true 0x66)).cy : Int)
      = min (max (pAt ps 0 1 - 1) 0) ((t.scr.h : Int) - 1) ∧
    (after cw t (.csi 0 ps true 0x66)).CursorIn := by
  rw [show after cw t (.csi 0 ps true 0x66) = _ from after_tok cw t (.hvp ps)]
  simp only [step, Scr.setCursor, clampNat, Scr.CursorIn] at *
  finish

/-- HVP and CUP are the same control: identical terminal and events -/
theorem hvp_eq_cup (cw : Nat → Nat) (t : Term) (ps : List Int) :
    t.apply cw (.csi 0 ps true 0x66) = t.apply cw (.csi 0 ps true 0x48) := by
  rw [show Tok.csi 0 ps true 0x66 = (Motion.hvp ps).tok from rfl,
      show Tok.csi 0 ps true 0x48 = (Motion.cup ps).tok from rfl, apply_tok, apply_tok]
  rfl

/-- `CSI s`: the saved position becomes the cursor position; the cursor does not move -/
theorem save_cursor (cw : Nat → Nat) (t : Term) (ps : List Int) :
    (after cw t (.csi 0 ps true 0x73)).sx = t.scr.cx ∧ (after cw t (.csi 0 ps true 0x73)).sy = t.scr.cy ∧
    (after cw t (.csi 0 ps true 0x73)).cx = t.scr.cx ∧ (after cw t (.csi 0 ps true 0x73)).cy = t.scr.cy := by
  rw [show after cw t (.csi 0 ps true 0x73) = _ from after_tok cw t (.save ps)]
  simp [step, Scr.saveCursor]

/-- `CSI u`: the cursor goes to the saved position, which is on the screen whenever the saved
    position is (as `Scr.inv` guarantees); the saved position is kept -/
theorem restore_cursor (cw : Nat → Nat) (t : Term) (ps : List Int) :
    (after cw t (.csi 0 ps true 0x75)).cx = t.scr.sx ∧ (after cw t (.csi 0 ps true 0x75)).cy = t.scr.sy ∧
    (after cw t (.csi 0 ps true 0x75)).sx = t.scr.sx ∧ (after cw t (.csi 0 ps true 0x75)).sy = t.scr.sy ∧
    (t.scr.SavedIn → (after cw t (.csi 0 ps true 0x75)).CursorIn) := by
  rw [show after cw t (.csi 0 ps true 0x75) = _ from after_tok cw t (.restore ps)]
  simp [step, Scr.restoreCursor, Scr.CursorIn, Scr.SavedIn]

/-- every motion control keeps the cursor on the screen -/
theorem motion_cursorIn (cw : Nat → Nat) (t : Term) (m : Motion) (hc : t.scr.CursorIn)
    (hs : t.scr.SavedIn) : (after cw t m.tok).CursorIn ∧ (after cw t m.tok).SavedIn := by
  rw [after_tok]
  cases m <;>
    simp only [step, lineDown_eq, lineUp_eq, Scr.setCursor, clampNat, Scr.saveCursor,
      Scr.restoreCursor, Scr.CursorIn, Scr.SavedIn] at * <;>
    repeat' split
  all_goals (try simp only []) <;> finish

/-! ## 2. What does not change -/

/-- Every motion control, scrolling or not, leaves the size, the margins, the rendition, the
    autowrap flag and (except `CSI s`) the saved cursor of the active screen alone, changes
    nothing outside the active screen, produces no reply, and reports nothing but the new
    cursor position. -/
theorem motion_frame (cw : Nat → Nat) (t : Term) (m : Motion) :
    (after cw t m.tok).w = t.scr.w ∧ (after cw t m.tok).h = t.scr.h ∧
    (after cw t m.tok).top = t.scr.top ∧ (after cw t m.tok).bot = t.scr.bot ∧
    (after cw t m.tok).sty = t.scr.sty ∧ (after cw t m.tok).wrap = t.scr.wrap ∧
    (m.isSave = false → (after cw t m.tok).sx = t.scr.sx ∧ (after cw t m.tok).sy = t.scr.sy) ∧
    SameOutside t (t.apply cw m.tok).1 ∧
    (∀ b, Ev.reply b ∉ events cw t m.tok) ∧
    (∀ e ∈ events cw t m.tok, e = .cursor (after cw t m.tok).cx (after cw t m.tok).cy) := by
  refine ⟨?_, ?_, ?_, ?_, ?_, ?_, ?_, outside_tok cw t m, ?_, ?_⟩
  case' refine_8 => rw [events_tok]; cases m.isSave <;> simp
  case' refine_9 => rw [events_tok]; cases m.isSave <;> simp
  all_goals
    rw [after_tok]
    cases m <;>
      simp only [step, lineDown_eq, lineUp_eq, Scr.setCursor, Scr.saveCursor,
        Scr.restoreCursor, Motion.isSave] <;>
      repeat' split
  all_goals simp

/-- **Content preservation.** Every control except LF / FF / IND / RI leaves the grid of the
    active screen identical, together with size, margins, rendition, autowrap and (except for
    `CSI s`, which in turn does not move the cursor) the saved cursor; nothing outside the
    active screen changes (inactive buffer, view state, keyboard state) and no reply is sent. -/
theorem motion_preserves_content (cw : Nat → Nat) (t : Term) (m : Motion) (hm : m.isIndex = false) :
    (after cw t m.tok).grid = t.scr.grid ∧
    (after cw t m.tok).w = t.scr.w ∧ (after cw t m.tok).h = t.scr.h ∧
    (after cw t m.tok).top = t.scr.top ∧ (after cw t m.tok).bot = t.scr.bot ∧
    (after cw t m.tok).sty = t.scr.sty ∧ (after cw t m.tok).wrap = t.scr.wrap ∧
    (m.isSave = false → (after cw t m.tok).sx = t.scr.sx ∧ (after cw t m.tok).sy = t.scr.sy) ∧
    (m.isSave = true → (after cw t m.tok).cx = t.scr.cx ∧ (after cw t m.tok).cy = t.scr.cy) ∧
    SameOutside t (t.apply cw m.tok).1 ∧
    (∀ b, Ev.reply b ∉ events cw t m.tok) := by
  obtain ⟨h1, h2, h3, h4, h5, h6, h7, h8, h9, _⟩ := motion_frame cw t m
  refine ⟨?_, h1, h2, h3, h4, h5, h6, h7, ?_, h8, h9⟩
  · rw [after_tok]
    cases m <;> first | (simp [Motion.isIndex] at hm; done) | rfl
  · rw [after_tok]
    cases m <;> simp [Motion.isSave, step, Scr.saveCursor]

/-- LF / FF / IND away from the bottom margin, RI away from the top margin: the grid is
    identical (this includes the last row of the screen below a bottom margin and row 0 above
    a top margin, where the cursor simply stays) -/
theorem index_inside_preserves_grid (cw : Nat → Nat) (t : Term) (m : Motion)
    (hm : (m.isDown = true ∧ t.scr.cy ≠ t.scr.bot) ∨ (m = .ri ∧ t.scr.cy ≠ t.scr.top)) :
    (after cw t m.tok).grid = t.scr.grid := by
  rw [after_tok]
  rcases hm with ⟨hd, hne⟩ | ⟨rfl, hne⟩
  · cases m <;> simp [Motion.isDown] at hd <;>
      simp only [step, lineDown_eq, hne, if_false] <;> split <;> rfl
  · simp only [step, lineUp_eq, hne, if_false]; split <;> rfl

/-- LF / FF / IND on the bottom margin: the grid becomes that of the scroll region moved up one
    line, the cursor row does not change, the column is 0 for LF and unchanged for FF / IND -/
theorem index_down_at_margin (cw : Nat → Nat) (t : Term) (m : Motion) (hd : m.isDown = true)
    (hb : t.scr.cy = t.scr.bot) :
    (after cw t m.tok).grid = (t.scr.scroll t.scr.top t.scr.bot (-1)).grid ∧
    (after cw t m.tok).cy = t.scr.cy ∧
    (after cw t m.tok).cx = (match m with | .lf => 0 | _ => t.scr.cx) := by
  rw [after_tok]
  cases m <;> simp [Motion.isDown] at hd <;> simp [step, lineDown_eq, hb]
  exact scroll_grid_congr _ _ _ _ _ rfl rfl rfl rfl

/-- RI on the top margin: the region moves down one line, the cursor does not move -/
theorem ri_at_margin (cw : Nat → Nat) (t : Term) (ht : t.scr.cy = t.scr.top) :
    (after cw t (.esc [] 0x4d)).grid = (t.scr.scroll t.scr.top t.scr.bot 1).grid ∧
    (after cw t (.esc [] 0x4d)).cy = t.scr.cy ∧ (after cw t (.esc [] 0x4d)).cx = t.scr.cx := by
  rw [show after cw t (.esc [] 0x4d) = _ from after_tok cw t .ri]
  simp [step, lineUp_eq, ht]

/-- "…and then only by scrolling that region", row by row: after LF / FF / IND on the bottom
    margin every row outside `[top, bot]` is untouched, row `y` of the region shows what row
    `y + 1` showed, and the bottom row of the region is blank in the current rendition. -/
theorem index_down_rows (cw : Nat → Nat) (t : Term) (m : Motion) (hd : m.isDown = true)
    (hb : t.scr.cy = t.scr.bot)
    (hlen : t.scr.grid.length = t.scr.h) (htb : t.scr.top ≤ t.scr.bot) (hbh : t.scr.bot < t.scr.h)
    (y : Nat) :
    (after cw t m.tok).grid[y]? =
      if y < t.scr.top ∨ t.scr.bot < y then t.scr.grid[y]?
      else if y < t.scr.bot then t.scr.grid[y + 1]?
      else some (blankRow t.scr.w t.scr.sty) := by
  rw [(index_down_at_margin cw t m hd hb).1]
  exact scroll_up_getElem? t.scr _ _ hlen htb hbh y

/-- RI on the top margin, row by row: rows outside `[top, bot]` untouched, row `y` of the
    region shows what row `y - 1` showed, the top row of the region is blank. -/
theorem ri_rows (cw : Nat → Nat) (t : Term) (ht : t.scr.cy = t.scr.top)
    (hlen : t.scr.grid.length = t.scr.h) (htb : t.scr.top ≤ t.scr.bot) (hbh : t.scr.bot < t.scr.h)
    (y : Nat) :
    (after cw t (.esc [] 0x4d)).grid[y]? =
      if y < t.scr.top ∨ t.scr.bot < y then t.scr.grid[y]?
      else if t.scr.top < y then t.scr.grid[y - 1]?
      else some (blankRow t.scr.w t.scr.sty) := by
  rw [(ri_at_margin cw t ht).1]
  exact scroll_down_getElem? t.scr _ _ hlen htb hbh y

/-- the grid after a motion control is the old grid or the scroll region moved by one line -/
theorem after_grid_cases (cw : Nat → Nat) (t : Term) (m : Motion) :
    (after cw t m.tok).grid = t.scr.grid ∨
    (after cw t m.tok).grid = (t.scr.scroll t.scr.top t.scr.bot (-1)).grid ∨
    (after cw t m.tok).grid = (t.scr.scroll t.scr.top t.scr.bot 1).grid := by
  by_cases hi : m.isIndex = false
  · exact .inl (motion_preserves_content cw t m hi).1
  · by_cases hd : m.isDown = true
    · by_cases hb : t.scr.cy = t.scr.bot
      · exact .inr (.inl (index_down_at_margin cw t m hd hb).1)
      · exact .inl (index_inside_preserves_grid cw t m (.inl ⟨hd, hb⟩))
    · have hri : m = .ri := by cases m <;> simp_all [Motion.isIndex, Motion.isDown]
      subst hri
      by_cases ht : t.scr.cy = t.scr.top
      · exact .inr (.inr (ri_at_margin cw t ht).1)
      · exact .inl (index_inside_preserves_grid cw t .ri (.inr ⟨rfl, ht⟩))

/-- **The screen invariant is preserved** by every motion control (so the hypotheses of all
    theorems of this file hold again for the next control): size ≥ 1×1, `h` rows of `w`
    well-formed cells, cursor and saved cursor on the screen, margins ordered and on the screen. -/
theorem motion_preserves_inv (cw : Nat → Nat) (t : Term) (m : Motion) (h : t.scr.inv = true) :
    (after cw t m.tok).inv = true := by
  rw [inv_iff] at h ⊢
  obtain ⟨hw, hh, hlen, hrows, hcx, hcy, hsx, hsy, htb, hbh⟩ := h
  obtain ⟨fw, fh, ftop, fbot, -⟩ := motion_frame cw t m
  obtain ⟨⟨c1, c2⟩, ⟨s1, s2⟩⟩ := motion_cursorIn cw t m ⟨hcx, hcy⟩ ⟨hsx, hsy⟩
  have hblank : (blankRow t.scr.w t.scr.sty).length = t.scr.w ∧
      rowWF (blankRow t.scr.w t.scr.sty) = true := ⟨by simp [blankRow], rowWF_blankRow _ _⟩
  refine ⟨by omega, by omega, ?_, ?_, c1, c2, s1, s2, by omega, by omega⟩
  · rw [fh]
    rcases after_grid_cases cw t m with e | e | e <;> rw [e]
    · exact hlen
    · exact scroll_grid_length _ _ _ _ hlen
    · exact scroll_grid_length _ _ _ _ hlen
  · rw [fw]
    rcases after_grid_cases cw t m with e | e | e <;> rw [e]
    · exact hrows
    · intro r hr
      rcases scroll_grid_mem _ _ _ _ r hr with h' | h'
      · exact hrows r h'
      · rw [h']; exact hblank
    · intro r hr
      rcases scroll_grid_mem _ _ _ _ r hr with h' | h'
      · exact hrows r h'
      · rw [h']; exact hblank

/-- …hence along any sequence of motion controls -/
theorem run_preserves_inv (cw : Nat → Nat) (ms : List Motion) (t : Term) (h : t.scr.inv = true) :
    (run cw t ms).scr.inv = true := by
  induction ms generalizing t with
  | nil => exact h
  | cons m ms ih => exact ih _ (motion_preserves_inv cw t m h)

/-! ## 3. Save / restore round trip -/

/-- a control other than `CSI s` keeps the saved cursor and the active buffer -/
theorem run_saved (cw : Nat → Nat) (ms : List Motion) (hms : ∀ m ∈ ms, m.isSave = false) (t : Term) :
    (run cw t ms).scr.sx = t.scr.sx ∧ (run cw t ms).scr.sy = t.scr.sy ∧
    (run cw t ms).scr.w = t.scr.w ∧ (run cw t ms).scr.h = t.scr.h ∧
    (run cw t ms).onAlt = t.onAlt := by
  induction ms generalizing t with
  | nil => simp [run]
  | cons m ms ih =>
    have hm : m.isSave = false := hms m (by simp)
    have ih' := ih (fun m' h' => hms m' (by simp [h'])) (t.apply cw m.tok).1
    obtain ⟨h1, h2, -, -, -, -, h7, h8, -, -⟩ := motion_frame cw t m
    have h7' := h7 hm
    unfold after at h1 h2 h7'
    simp only [run, List.foldl_cons] at ih' ⊢
    refine ⟨by omega, by omega, by omega, by omega, ?_⟩
    rw [ih'.2.2.2.2]; exact h8.2.1

/-- **Round trip.** `CSI s`, then any sequence of motion controls that does not contain
    another `CSI s` (line feeds and indexes that scroll included), then `CSI u`: the cursor is
    back where it was saved, in the same buffer, on a screen of the same size. -/
theorem save_restore_roundtrip (cw : Nat → Nat) (t : Term) (ps ps' : List Int) (ms : List Motion)
    (hms : ∀ m ∈ ms, m.isSave = false) :
    let t1 := (t.apply cw (.csi 0 ps true 0x73)).1
    let t2 := run cw t1 ms
    let t3 := (t2.apply cw (.csi 0 ps' true 0x75)).1
    t3.scr.cx = t.scr.cx ∧ t3.scr.cy = t.scr.cy ∧
    t3.scr.w = t.scr.w ∧ t3.scr.h = t.scr.h ∧ t3.onAlt = t.onAlt := by
  intro t1 t2 t3
  have hs := save_cursor cw t ps
  have hsf := motion_frame cw t (.save ps)
  have hr := run_saved cw ms hms t1
  have hu := restore_cursor cw t2 ps'
  have huf := motion_frame cw t2 (.restore ps')
  unfold after at hs hsf hu huf
  simp only [Motion.tok] at hsf huf
  refine ⟨?_, ?_, ?_, ?_, ?_⟩
  · show t3.scr.cx = _; rw [hu.1, hr.1]; exact hs.1
  · show t3.scr.cy = _; rw [hu.2.1, hr.2.1]; exact hs.2.1
  · show t3.scr.w = _; rw [huf.1, hr.2.2.1]; exact hsf.1
  · show t3.scr.h = _; rw [huf.2.1, hr.2.2.2.1]; exact hsf.2.1
  · show t3.onAlt = _
    rw [huf.2.2.2.2.2.2.2.1.2.1, hr.2.2.2.2]; exact hsf.2.2.2.2.2.2.2.1.2.1

/-- the round trip lands on the screen when it started there -/
theorem save_restore_inside (cw : Nat → Nat) (t : Term) (ps ps' : List Int) (ms : List Motion)
    (hms : ∀ m ∈ ms, m.isSave = false) (hc : t.scr.CursorIn) :
    ((run cw (t.apply cw (.csi 0 ps true 0x73)).1 ms).apply cw (.csi 0 ps' true 0x75)).1.scr.CursorIn := by
  have h := save_restore_roundtrip cw t ps ps' ms hms
  simp only [Scr.CursorIn] at *
  omega

/-! ## 4. Defaults and extremes -/

theorem p0_absent : p0 [] 1 = 1 := rfl

/-- an absent parameter means 1: `CSI A` is `CSI 1 A`, likewise B C D G d (whole terminal and
    events identical) -/
theorem absent_is_one (cw : Nat → Nat) (t : Term) (fin : UInt8)
    (hf : fin = 0x41 ∨ fin = 0x42 ∨ fin = 0x43 ∨ fin = 0x44 ∨ fin = 0x47 ∨ fin = 0x64) :
    t.apply cw (.csi 0 [] true fin) = t.apply cw (.csi 0 [1] true fin) := by
  rcases hf with rfl | rfl | rfl | rfl | rfl | rfl
  · exact (apply_tok cw t (.cuu [])).trans (apply_tok cw t (.cuu [1])).symm
  · exact (apply_tok cw t (.cud [])).trans (apply_tok cw t (.cud [1])).symm
  · exact (apply_tok cw t (.cuf [])).trans (apply_tok cw t (.cuf [1])).symm
  · exact (apply_tok cw t (.cub [])).trans (apply_tok cw t (.cub [1])).symm
  · exact (apply_tok cw t (.cha [])).trans (apply_tok cw t (.cha [1])).symm
  · exact (apply_tok cw t (.vpa [])).trans (apply_tok cw t (.vpa [1])).symm

/-- CUP / HVP: both parameters default to 1 independently -/
theorem cup_absent (cw : Nat → Nat) (t : Term) (r : Int) (fin : UInt8) (hf : fin = 0x48 ∨ fin = 0x66) :
    t.apply cw (.csi 0 [] true fin) = t.apply cw (.csi 0 [1, 1] true fin) ∧
    t.apply cw (.csi 0 [r] true fin) = t.apply cw (.csi 0 [r, 1] true fin) := by
  rcases hf with rfl | rfl
  · exact ⟨(apply_tok cw t (.cup [])).trans (apply_tok cw t (.cup [1, 1])).symm,
      (apply_tok cw t (.cup [r])).trans (apply_tok cw t (.cup [r, 1])).symm⟩
  · exact ⟨(apply_tok cw t (.hvp [])).trans (apply_tok cw t (.hvp [1, 1])).symm,
      (apply_tok cw t (.hvp [r])).trans (apply_tok cw t (.hvp [r, 1])).symm⟩

/-- `CSI H` homes the cursor -/
theorem cup_home (cw : Nat → Nat) (t : Term) (hc : t.scr.CursorIn) :
    (after cw t (.csi 0 [] true 0x48)).cx = 0 ∧ (after cw t (.csi 0 [] true 0x48)).cy = 0 := by
  have := cup_cursor cw t [] hc
  simp only [pAt, Scr.CursorIn] at *
  simp at this
  omega

/-- `pMove` is never 0, is 1 for an omitted first parameter, for a parameter omitted in front
    of a `;` (stored as 0 by the parser) and for an explicit 0, and the parameter otherwise -/
theorem pMove_spec (ps : List Int) :
    pMove [] = 1 ∧ pMove (0 :: ps) = 1 ∧ (∀ n : Int, n ≠ 0 → pMove (n :: ps) = n) ∧ pMove ps ≠ 0 := by
  refine ⟨by simp [pMove, p0], by simp [pMove, p0], ?_, ?_⟩
  · intro n hn; simp [pMove, p0, hn]
  · unfold pMove; split <;> omega

/-- **omitted means 1, also in front of a `;`, and so does an explicit 0** (VT100/xterm: "a
    parameter value of zero or one moves one position"): CUU / CUD / CUF / CUB with first
    parameter 0 act exactly like the same function with parameter 1 -/
theorem relative_zero (cw : Nat → Nat) (t : Term) (ps : List Int) (fin : UInt8)
    (hf : fin = 0x41 ∨ fin = 0x42 ∨ fin = 0x43 ∨ fin = 0x44) :
    Term.apply cw t (.csi 0 (0 :: ps) true fin) = Term.apply cw t (.csi 0 (1 :: ps) true fin) := by
  rcases hf with rfl | rfl | rfl | rfl
  · exact (apply_tok cw t (.cuu (0 :: ps))).trans (by simp [step, pMove, p0]; exact (apply_tok cw t (.cuu (1 :: ps))).symm)
  · exact (apply_tok cw t (.cud (0 :: ps))).trans (by simp [step, pMove, p0]; exact (apply_tok cw t (.cud (1 :: ps))).symm)
  · exact (apply_tok cw t (.cuf (0 :: ps))).trans (by simp [step, pMove, p0]; exact (apply_tok cw t (.cuf (1 :: ps))).symm)
  · exact (apply_tok cw t (.cub (0 :: ps))).trans (by simp [step, pMove, p0]; exact (apply_tok cw t (.cub (1 :: ps))).symm)

/-- for the absolute motions an explicit 0 clamps to the first column / row: CHA 0, VPA 0 -/
theorem absolute_zero (cw : Nat → Nat) (t : Term) (ps : List Int) (hc : t.scr.CursorIn) :
    (after cw t (.csi 0 (0 :: ps) true 0x47)).cx = 0 ∧ (after cw t (.csi 0 (0 :: ps) true 0x64)).cy = 0 := by
  have h1 := cha_cursor cw t (0 :: ps) hc
  have h2 := vpa_cursor cw t (0 :: ps) hc
  simp only [p0, Scr.CursorIn] at *
  omega

/-- CUP / HVP with explicit zeros: `CSI 0;0 H` is home, and a 0 in either place means 1 -/
theorem cup_zero (cw : Nat → Nat) (t : Term) (r c : Int) (ps : List Int) (hc : t.scr.CursorIn) :
    (after cw t (.csi 0 (0 :: c :: ps) true 0x48)).cy = 0 ∧
    (after cw t (.csi 0 (r :: 0 :: ps) true 0x48)).cx = 0 ∧
    (after cw t (.csi 0 [0] true 0x48)).cx = 0 ∧ (after cw t (.csi 0 [0] true 0x48)).cy = 0 := by
  have h1 := cup_cursor cw t (0 :: c :: ps) hc
  have h2 := cup_cursor cw t (r :: 0 :: ps) hc
  have h3 := cup_cursor cw t [0] hc
  simp only [pAt, Scr.CursorIn] at *
  simp at h1 h2 h3
  omega

/-- parameters beyond the screen (including the parser's saturation value and anything
    larger) pin the cursor to the corresponding edge -/
theorem beyond_screen (cw : Nat → Nat) (t : Term) (n : Int) (ps : List Int) (hc : t.scr.CursorIn) :
    (t.scr.h ≤ n → (after cw t (.csi 0 (n :: ps) true 0x41)).cy = 0) ∧
    (t.scr.h ≤ n → (after cw t (.csi 0 (n :: ps) true 0x42)).cy = t.scr.h - 1) ∧
    (t.scr.w ≤ n → (after cw t (.csi 0 (n :: ps) true 0x43)).cx = t.scr.w - 1) ∧
    (t.scr.w ≤ n → (after cw t (.csi 0 (n :: ps) true 0x44)).cx = 0) ∧
    (t.scr.w ≤ n → (after cw t (.csi 0 (n :: ps) true 0x47)).cx = t.scr.w - 1) ∧
    (t.scr.h ≤ n → (after cw t (.csi 0 (n :: ps) true 0x64)).cy = t.scr.h - 1) ∧
    (t.scr.h ≤ n → (after cw t (.csi 0 (n :: ps) true 0x48)).cy = t.scr.h - 1) ∧
    (t.scr.w ≤ n → (after cw t (.csi 0 (1 :: n :: ps) true 0x48)).cx = t.scr.w - 1) := by
  have h1 := cuu_cursor cw t (n :: ps) hc
  have h2 := cud_cursor cw t (n :: ps) hc
  have h3 := cuf_cursor cw t (n :: ps) hc
  have h4 := cub_cursor cw t (n :: ps) hc
  have h5 := cha_cursor cw t (n :: ps) hc
  have h6 := vpa_cursor cw t (n :: ps) hc
  have h7 := cup_cursor cw t (n :: ps) hc
  have h8 := cup_cursor cw t (1 :: n :: ps) hc
  have hm : n = 0 ∨ pMove (n :: ps) = n := by
    by_cases h0 : n = 0
    · exact Or.inl h0
    · exact Or.inr (by simp [pMove, p0, h0])
  simp only [p0, Scr.CursorIn] at h1 h2 h3 h4 h5 h6 hc
  simp [pAt] at h7 h8
  refine ⟨?_, ?_, ?_, ?_, ?_, ?_, ?_, ?_⟩
  · clear h2 h3 h4 h5 h6 h7 h8
    rcases hm with h0 | hm
    · omega
    · rw [hm] at h1; omega
  · clear h1 h3 h4 h5 h6 h7 h8
    rcases hm with h0 | hm
    · omega
    · rw [hm] at h2; omega
  · clear h1 h2 h4 h5 h6 h7 h8
    rcases hm with h0 | hm
    · omega
    · rw [hm] at h3; omega
  · clear h1 h2 h3 h5 h6 h7 h8
    rcases hm with h0 | hm
    · omega
    · rw [hm] at h4; omega
  · clear h1 h2 h3 h4 h6 h7 h8; omega
  · clear h1 h2 h3 h4 h5 h7 h8; omega
  · clear h1 h2 h3 h4 h5 h6 h8; omega
  · clear h1 h2 h3 h4 h5 h6 h7; omega

/-- an in-range parameter is reached exactly: CHA / VPA / CUP to 1-based `(r, c)` on the
    screen put the cursor on 0-based `(c - 1, r - 1)` -/
theorem in_range_exact (cw : Nat → Nat) (t : Term) (r c : Nat) (ps : List Int) (hc : t.scr.CursorIn)
    (hr : 1 ≤ r ∧ r ≤ t.scr.h) (hcc : 1 ≤ c ∧ c ≤ t.scr.w) :
    (after cw t (.csi 0 ((c : Int) :: ps) true 0x47)).cx = c - 1 ∧
    (after cw t (.csi 0 ((r : Int) :: ps) true 0x64)).cy = r - 1 ∧
    (after cw t (.csi 0 ((r : Int) :: (c : Int) :: ps) true 0x48)).cx = c - 1 ∧
    (after cw t (.csi 0 ((r : Int) :: (c : Int) :: ps) true 0x48)).cy = r - 1 := by
  have h5 := cha_cursor cw t ((c : Int) :: ps) hc
  have h6 := vpa_cursor cw t ((r : Int) :: ps) hc
  have h7 := cup_cursor cw t ((r : Int) :: (c : Int) :: ps) hc
  simp only [p0, pAt, Scr.CursorIn] at *
  simp at h7
  omega

/-! ## Non-vacuity -/

/-- 10×5 main screen, margins rows 1..3, cursor at (4,3) = bottom margin, saved cursor (2,1),
    rows marked by distinct letters -/
def demoRow (b : UInt8) : Row := List.replicate 10 ⟨.ch [b] 1, Style.default⟩
def demoScr : Scr :=
  { Scr.init 10 5 with
    grid := [demoRow 0x61, demoRow 0x62, demoRow 0x63, demoRow 0x64, demoRow 0x65],
    cx := 4, cy := 3, sx := 2, sy := 1, top := 1, bot := 3 }
def demo : Term := { Term.init .blank 10 5 with main := demoScr }

/-- the same screen with the cursor on the top margin -/
def demoTop : Term := { demo with main := { demoScr with cy := 1 } }

example : demo.scr.inv = true := by decide
example : demo.scr.CursorIn ∧ demo.scr.SavedIn := by decide
-- hypotheses of `index_down_at_margin` / `index_down_rows`, and of `index_inside_preserves_grid`
example : demo.scr.cy = demo.scr.bot ∧ demo.scr.grid.length = demo.scr.h ∧
    demo.scr.top ≤ demo.scr.bot ∧ demo.scr.bot < demo.scr.h ∧ demo.scr.cy ≠ demo.scr.top := by decide
-- hypotheses of `ri_at_margin` / `ri_rows`
example : demoTop.scr.inv = true ∧ demoTop.scr.cy = demoTop.scr.top ∧ demoTop.scr.cy ≠ demoTop.scr.bot := by
  decide
-- RI on the top margin scrolls rows 1..3 down; rows 0 and 4 survive; the cursor stays
example : (after id demoTop (.esc [] 0x4d)).grid =
    [demoRow 0x61, blankRow 10 Style.default, demoRow 0x62, demoRow 0x63, demoRow 0x65] ∧
    ((after id demoTop (.esc [] 0x4d)).cx, (after id demoTop (.esc [] 0x4d)).cy) = (4, 1) := by decide
-- RI away from the top margin just moves
example : (after id demo (.esc [] 0x4d)).grid = demo.scr.grid ∧ (after id demo (.esc [] 0x4d)).cy = 2 := by
  decide
-- absent = 1, explicit 0 = 1 too, for CUB
example : (after id demo (.csi 0 [] true 0x44)).cx = 3 ∧ (after id demo (.csi 0 [0] true 0x44)).cx = 3 ∧
    (after id demo (.csi 0 [2147483647] true 0x44)).cx = 0 := by decide
-- IND on the bottom margin scrolls rows 1..3 only; rows 0 and 4 survive
example : (after id demo (.esc [] 0x44)).grid =
    [demoRow 0x61, demoRow 0x63, demoRow 0x64, blankRow 10 Style.default, demoRow 0x65] := by decide
example : ((after id demo (.esc [] 0x44)).cx, (after id demo (.esc [] 0x44)).cy) = (4, 3) := by decide
-- LF: same scroll, column 0
example : ((after id demo (.ctl 10)).cx, (after id demo (.ctl 10)).cy) = (0, 3) := by decide
-- CUD from the bottom margin goes below it without scrolling
example : (after id demo (.csi 0 [] true 0x42)).cy = 4 ∧
    (after id demo (.csi 0 [] true 0x42)).grid = demo.scr.grid := by decide
-- CUP with a huge row and an in-range column
example : ((after id demo (.csi 0 [2147483647, 7] true 0x48)).cx,
    (after id demo (.csi 0 [2147483647, 7] true 0x48)).cy) = (6, 4) := by decide
-- HT from column 4 goes to 8, from 8 to the last column 9
example : (after id demo (.ctl 9)).cx = 8 ∧ (after id (run id demo [.ht]) (.ctl 9)).cx = 9 := by decide
-- save, wander (with a scrolling LF), restore
example : let t3 := ((run id (demo.apply id (.csi 0 [] true 0x73)).1
      [.lf, .cup [1, 1], .ri, .cuf [100], .restore [], .cud []]).apply id (.csi 0 [] true 0x75)).1
    (t3.scr.cx, t3.scr.cy) = (4, 3) := by decide

end TM.C04

#print axioms TM.C04.cursorIn_of_inv
#print axioms TM.C04.bs_cursor
#print axioms TM.C04.del_cursor
#print axioms TM.C04.ht_cursor
#print axioms TM.C04.cr_cursor
#print axioms TM.C04.lf_cursor
#print axioms TM.C04.ff_cursor
#print axioms TM.C04.ind_cursor
#print axioms TM.C04.ri_cursor
#print axioms TM.C04.cuu_cursor
#print axioms TM.C04.cuu_cursor_nonneg
#print axioms TM.C04.cud_cursor
#print axioms TM.C04.cud_cursor_nonneg
#print axioms TM.C04.cuf_cursor
#print axioms TM.C04.cuf_cursor_nonneg
#print axioms TM.C04.cub_cursor
#print axioms TM.C04.cub_cursor_nonneg
#print axioms TM.C04.cha_cursor
#print axioms TM.C04.vpa_cursor
#print axioms TM.C04.cup_cursor
#print axioms TM.C04.hvp_cursor
#print axioms TM.C04.hvp_eq_cup
#print axioms TM.C04.save_cursor
#print axioms TM.C04.restore_cursor
#print axioms TM.C04.motion_cursorIn
#print axioms TM.C04.motion_frame
#print axioms TM.C04.motion_preserves_content
#print axioms TM.C04.index_inside_preserves_grid
#print axioms TM.C04.index_down_at_margin
#print axioms TM.C04.ri_at_margin
#print axioms TM.C04.index_down_rows
#print axioms TM.C04.ri_rows
#print axioms TM.C04.motion_preserves_inv
#print axioms TM.C04.run_preserves_inv
#print axioms TM.C04.save_restore_roundtrip
#print axioms TM.C04.save_restore_inside
#print axioms TM.C04.absent_is_one
#print axioms TM.C04.cup_absent
#print axioms TM.C04.cup_home
#print axioms TM.C04.relative_zero
#print axioms TM.C04.pMove_spec
#print axioms TM.C04.absolute_zero
#print axioms TM.C04.cup_zero
#print axioms TM.C04.beyond_screen
#print axioms TM.C04.in_range_exact
