import Props.C03SpanWrite
import Props.C16Reader
import Props.C02SpanTerm
/-!
# C03SpanFeed — valid text through `replaceInvalidUTF8`, and `SScr.feedText`

The two leftovers of `Props/C03SpanWrite.lean`.

* F1 `replaceInvalidUTF8_valid` (a concatenation of complete, valid characters — `ValidChar`:
  non-empty, decodes as a whole, encodes back to itself — is returned as it is),
  `replaceInvalidUTF8_flat` (the same for characters with widths, `VCl`),
  `replaceInvalidUTF8_token` (the text of a `C11M.TokOK` token), and the theorems of `C03SpanWrite`
  without the `replaceInvalidUTF8` hypothesis: `writeString_token`, `writeString_validChar`,
  `writeString_validRun`.
* F2 reader side: `readPrintable_noErr` (a script without error flags: an error is reported only
  when the script is exhausted), `readPrintable_feed` (one call during a feed hands out a
  non-empty prefix of the characters still to come, within the limit or a single character).
* F2 (a) `feedTextAux_eq_runs` (`feedTextAux` = `writeString` of the runs `feedRuns`),
  `feedText_runs` (the runs concatenate to the text; each is whole characters, respects the limit
  in force when it was cut or is one character), `writeString_feed_noSplit` (the `splitRunToFit`
  path of `writeString` is not taken for such a run).
* F2 (b) `feedText_refines` / `feedTextAux_refines`: under `CleanFeed` (no run of SEVERAL
  characters starts on the second cell of a wide character along the execution; decidable, a
  `Bool` function following `feedTextAux`) the fed screen shows the cell-level screen after the
  characters have been put one by one, autowrap on or off, and the invariant holds.
  `feedText_needs_clean`: the hypothesis cannot be dropped.
-/
namespace TM.C03SpanFeed
open TM TM.C02Span TM.C02SpanScreen TM.C03SpanWrite TM.C16Reader

/-! ## F1 — valid text is left alone -/

/-- a complete, valid UTF-8 character: it decodes as a whole and encodes back to itself -/
def ValidChar (b : Bytes) : Prop :=
  b ≠ [] ∧ ∃ r, decodeRune b = (r, b.length) ∧ encodeRune r = b

theorem encodeRune_invalid {r : Nat} (h : ¬ C11.validScalar r) : encodeRune r = replacementChar := by
  unfold C11.validScalar at h
  unfold encodeRune replacementChar
  simp only
  repeat' split
  all_goals first | rfl | omega

/-- a valid character is the encoding of a scalar value -/
theorem validChar_scalar {b : Bytes} (h : ValidChar b) : ∃ cp, C11.validScalar cp ∧ b = encodeRune cp := by
  obtain ⟨_, r, _, he⟩ := h
  by_cases hv : C11.validScalar r
  · exact ⟨r, hv, he.symm⟩
  · refine ⟨0xFFFD, by decide, ?_⟩
    rw [← he, encodeRune_invalid hv]; decide

theorem validChar_encodeRune {cp : Nat} (h : C11.validScalar cp) : ValidChar (encodeRune cp) := by
  have hd := C11.Lemmas.decodeRune_encodeRune cp [] h
  rw [List.append_nil] at hd
  have hp := C11.Lemmas.encodeRune_length_pos cp
  refine ⟨fun hc => by rw [hc] at hp; simp at hp, cp, hd, rfl⟩

theorem replaceInvalidAux_nil (fuel : Nat) : replaceInvalidAux fuel [] = [] := by
  cases fuel <;> rfl

/-- one step of `replaceInvalidUTF8` on a valid character followed by anything -/
theorem replaceInvalidAux_step {b : Bytes} (h : ValidChar b) (rest : Bytes) (fuel : Nat) :
    replaceInvalidAux (fuel + 1) (b ++ rest) = b ++ replaceInvalidAux fuel rest := by
  obtain ⟨cp, hv, rfl⟩ := validChar_scalar h
  have hd := C11.Lemmas.decodeRune_encodeRune cp rest hv
  have hp := C11.Lemmas.encodeRune_length_pos cp
  obtain ⟨b0, tl, he, _, _⟩ := C11.Lemmas.encodeRune_head cp hv
  have hm : max (encodeRune cp).length 1 = (encodeRune cp).length := by omega
  have hdrop : (encodeRune cp ++ rest).drop (encodeRune cp).length = rest := List.drop_left
  generalize hE : encodeRune cp = E at *
  subst he
  rw [List.cons_append] at hd hdrop ⊢
  rw [replaceInvalidAux, hd]
  simp only [hm, hdrop, hE]

theorem replaceInvalidAux_valid : ∀ (bs : List Bytes), (∀ b ∈ bs, ValidChar b) →
    ∀ fuel, bs.flatten.length ≤ fuel → replaceInvalidAux fuel bs.flatten = bs.flatten := by
  intro bs
  induction bs with
  | nil => intro _ fuel _; exact replaceInvalidAux_nil fuel
  | cons b bs ih =>
    intro hv fuel hf
    have hb := hv b (List.mem_cons_self ..)
    have hne : 0 < b.length := List.length_pos_iff.2 hb.1
    rw [List.flatten_cons, List.length_append] at hf
    obtain ⟨f, rfl⟩ : ∃ f, fuel = f + 1 := ⟨fuel - 1, by omega⟩
    rw [List.flatten_cons, replaceInvalidAux_step hb,
      ih (fun x hx => hv x (List.mem_cons_of_mem _ hx)) f (by omega)]

/-- **F1** a text that is a concatenation of complete, valid characters is returned as it is -/
theorem replaceInvalidUTF8_valid (bs : List Bytes) (h : ∀ b ∈ bs, ValidChar b) :
    replaceInvalidUTF8 bs.flatten = bs.flatten :=
  replaceInvalidAux_valid bs h _ (Nat.le_refl _)

/-- a character with its width: valid, complete, as wide as the reader and the row code say -/
def VCl (cw : Nat → Nat) (c : Cl) : Prop :=
  ValidChar c.1 ∧ c.2 = max (cw (decodeRune c.1).1) 1

theorem stepRune_encodeRune (cw : Nat → Nat) {cp : Nat} (hv : C11.validScalar cp) :
    stepRune cw (encodeRune cp) = some ((encodeRune cp).length, max (cw cp) 1) := by
  obtain ⟨b0, tl, he, hl, _⟩ := C11.Lemmas.encodeRune_head cp hv
  have hd := C11.Lemmas.decodeRune_encodeRune cp [] hv
  rw [List.append_nil] at hd
  have hlen : (encodeRune cp).length = tl.length + 1 := by rw [he]; rfl
  have hfull : fullRune (encodeRune cp) = true := by
    rw [he]; simp only [fullRune, hl]
    by_cases h1 : tl.length + 1 ≤ 1 <;> simp [h1]
  rw [stepRune_eq, hfull, hd]; simp [hlen]

theorem vcl_step {cw : Nat → Nat} {c : Cl} (h : VCl cw c) : stepRune cw c.1 = some (c.1.length, c.2) := by
  obtain ⟨hv, hw⟩ := h
  obtain ⟨cp, hs, he⟩ := validChar_scalar hv
  have hd := C11.Lemmas.decodeRune_encodeRune cp [] hs
  rw [List.append_nil, ← he] at hd
  rw [hw, hd, he]
  exact stepRune_encodeRune cw hs

theorem vcl_toks {cw : Nat → Nat} {cs : List Cl} (h : ∀ c ∈ cs, VCl cw c) : Toks cw cs :=
  fun p hp => vcl_step (h p hp)

/-- **F1** for a list of characters with their widths -/
theorem replaceInvalidUTF8_flat {cw : Nat → Nat} {cs : List Cl} (h : ∀ c ∈ cs, VCl cw c) :
    replaceInvalidUTF8 (flat cs) = flat cs := by
  unfold flat
  exact replaceInvalidUTF8_valid _ (by
    intro b hb
    obtain ⟨c, hc, rfl⟩ := List.mem_map.1 hb
    exact (h c hc).1)

/-- **F1 (a)** the text of a token the tokeniser yields is left alone -/
theorem replaceInvalidUTF8_token {stored : Bytes} {cp : Nat} (h : C11M.TokOK (.text stored cp)) :
    replaceInvalidUTF8 stored = stored := by
  obtain ⟨hv, _, _, rfl⟩ := h
  have := replaceInvalidUTF8_valid [encodeRune cp] (by
    intro b hb
    rw [List.mem_singleton] at hb
    subst hb
    exact validChar_encodeRune hv)
  simpa using this

/-- **F1 (b)** `writeString_char` for a token of the tokeniser, no hypothesis on `replaceInvalidUTF8` -/
theorem writeString_token {cw : Nat → Nat} (hb : cw 0x20 ≤ 1) (hr : cw 0xFFFD ≤ 1) {s : SScr}
    (hs : SScr.inv cw s = true) {stored : Bytes} {cp : Nat} (h : C11M.TokOK (.text stored cp)) (n : Nat) :
    s.writeString cw (n + 1) stored (cw cp) = s.put cw stored (cw cp) ∧
    (s.writeString cw (n + 1) stored (cw cp)).abs cw = (s.abs cw).put .keep stored (cw cp) ∧
    SScr.inv cw (s.writeString cw (n + 1) stored (cw cp)) = true := by
  have htok : clusters cw stored = [(stored, max (cw cp) 1)] := C02SpanTerm.tokWF_of_tokOK cw h
  have hval := replaceInvalidUTF8_token h
  exact ⟨writeString_char hb hr hs htok hval n, writeString_char_refines hb hr hs htok hval n⟩

theorem clusters_single {cw : Nat → Nat} {c : Cl} (h : VCl cw c) : clusters cw c.1 = [c] := by
  have := clusters_flat (vcl_toks (cs := [c]) (by intro x hx; rw [List.mem_singleton] at hx; subst hx; exact h))
  simpa using this

/-- **F1 (b)** `writeString_char` / `writeString_char_refines` for one valid character -/
theorem writeString_validChar {cw : Nat → Nat} (hb : cw 0x20 ≤ 1) (hr : cw 0xFFFD ≤ 1) {s : SScr}
    (hs : SScr.inv cw s = true) {c : Cl} (h : VCl cw c) (n : Nat) :
    s.writeString cw (n + 1) c.1 c.2 = s.put cw c.1 c.2 ∧
    (s.writeString cw (n + 1) c.1 c.2).abs cw = (s.abs cw).put .keep c.1 c.2 ∧
    SScr.inv cw (s.writeString cw (n + 1) c.1 c.2) = true := by
  have hw : max c.2 1 = c.2 := by have := h.2; omega
  have htok : clusters cw c.1 = [(c.1, max c.2 1)] := by rw [hw]; exact clusters_single h
  have hval : replaceInvalidUTF8 c.1 = c.1 := by
    have := replaceInvalidUTF8_flat (cs := [c]) (by intro x hx; rw [List.mem_singleton] at hx; subst hx; exact h)
    simpa using this
  exact ⟨writeString_char hb hr hs htok hval n, writeString_char_refines hb hr hs htok hval n⟩

/-- **F1 (b)** `writeString_run` for a run of valid characters, no hypothesis on `replaceInvalidUTF8` -/
theorem writeString_validRun {cw : Nat → Nat} (hb : cw 0x20 ≤ 1) {s : SScr} (hs : SScr.inv cw s = true)
    {cs : List Cl} (hv : ∀ c ∈ cs, VCl cw c) (hne : cs ≠ []) (hfit : s.cx + ws cs ≤ s.w)
    (hc : contAt (lineCells cw (s.line s.cy)) s.cx = false) (n : Nat) :
    (s.writeString cw (n + 1) (flat cs) (ws cs)).abs cw =
      cs.foldl (fun sc c => sc.put .keep c.1 c.2) (s.abs cw) ∧
    SScr.inv cw (s.writeString cw (n + 1) (flat cs) (ws cs)) = true :=
  writeString_run hb hs (vcl_toks hv) hne hfit hc (replaceInvalidUTF8_flat hv) n

/-! ## F2 — `feedText`: the reader side -/

/-- no entry of the script reports an error (the script of `feedText` is `[(text, false)]`) -/
def NoErr (r : Rdr) : Prop := ∀ p ∈ r.src, p.2 = false

/-- the result of a reader function: still no error in the script, and an error is reported
    only when the script is exhausted -/
def EndP (res : Rdr × RunOut) : Prop := NoErr res.1 ∧ (res.2.err = true → res.1.src = [])

theorem fill_noErr (r : Rdr) (h : NoErr r) : NoErr r.fill.1 ∧ (r.fill.2 = true → r.fill.1.src = []) := by
  unfold NoErr at *
  rw [Lemmas.rfill_eq]
  cases hs : r.src with
  | nil => simp
  | cons p rest =>
    obtain ⟨d, e⟩ := p
    have he : e = false := h (d, e) (by rw [hs]; exact List.mem_cons_self ..)
    subst he
    have hrest : ∀ q ∈ rest, q.2 = false := fun q hq => h q (by rw [hs]; exact List.mem_cons_of_mem _ hq)
    simp only
    split
    · exact ⟨hrest, fun hc => by cases hc⟩
    · refine ⟨?_, fun hc => by cases hc⟩
      intro q hq
      rcases List.mem_cons.1 hq with rfl | hq
      · rfl
      · exact hrest q hq

def StepP : Lemmas.Step → Prop
  | .done res => EndP res
  | .cont r' _ _ => NoErr r'

theorem finish_endP (r : Rdr) (rs wu : Nat) (hc : NoErr r) : EndP (r.finish rs wu) := by
  unfold Rdr.finish
  split
  · exact ⟨hc, fun h => by cases h⟩
  · exact ⟨hc, fun h => by cases h⟩

theorem stepOf_noErr (cw : Nat → Nat) (maxW : Nat) (r : Rdr) (rs wu : Nat) (hc : NoErr r) :
    StepP (Lemmas.stepOf cw maxW r rs wu) := by
  have hf := fill_noErr r hc
  have hfin := finish_endP r rs wu hc
  unfold Lemmas.stepOf
  repeat' split
  all_goals first
    | exact hf.1 | exact hfin | exact hc
    | exact ⟨hf.1, fun h => absurd h Bool.false_ne_true⟩
    | (rename_i h; exact ⟨hf.1, fun _ => hf.2 h.1⟩)
    | (rename_i h; exact ⟨hf.1, fun _ => hf.2 h.2⟩)

theorem runLoop_noErr (cw : Nat → Nat) (maxW : Nat) : ∀ (fuel : Nat) (r : Rdr) (rs wu : Nat), r.wf → NoErr r →
    EndP (Rdr.runLoop cw maxW fuel r rs wu) := by
  intro fuel
  induction fuel with
  | zero => intro r rs wu _ hc; rw [Rdr.runLoop]; exact finish_endP r rs wu hc
  | succ f ih =>
    intro r rs wu h hc
    rw [Lemmas.runLoop_succ]
    have hs := stepOf_noErr cw maxW r rs wu hc
    cases hst : Lemmas.stepOf cw maxW r rs wu with
    | done res => rw [hst] at hs; exact hs
    | cont r' rs' wu' => rw [hst] at hs; exact ih r' rs' wu' (Lemmas.stepOf_cont h hst).1 hs

theorem waitData_noErr : ∀ (fuel : Nat) (r : Rdr), r.wf → NoErr r →
    NoErr (Rdr.waitData fuel r).1 ∧ ((Rdr.waitData fuel r).2 = true → (Rdr.waitData fuel r).1.src = []) := by
  intro fuel
  induction fuel with
  | zero => intro r _ hc; exact ⟨hc, fun h => by cases h⟩
  | succ f ih =>
    intro r h hc
    have hf := fill_noErr r hc
    rw [Lemmas.waitData_succ]
    split
    · exact ⟨hc, fun h => by cases h⟩
    · split
      · rename_i hh; exact ⟨hf.1, fun _ => hf.2 hh.1⟩
      · exact ih _ (rdr_fill_conserves r h).2 hf.1

theorem readPrintable_noErr (cw : Nat → Nat) (r : Rdr) (maxW : Nat) (h : r.wf) (hc : NoErr r) :
    EndP (r.readPrintable cw maxW) := by
  have hw := waitData_noErr r.fuel r h hc
  rw [Lemmas.readPrintable_eq]
  split
  · rename_i he; exact ⟨hw.1, fun _ => hw.2 he⟩
  · split
    · exact ⟨hw.1, fun h => by cases h⟩
    · exact runLoop_noErr cw maxW _ _ _ _ (Lemmas.waitData_spec r.fuel r h).1 hw.1

/-- the reader in the middle of a feed: the characters `rest` are still to be handed out -/
structure Feeding (cw : Nat → Nat) (r : Rdr) (rest : List Cl) : Prop where
  wf : r.wf
  noErr : NoErr r
  pending : r.pending = flat rest
  valid : ∀ c ∈ rest, VCl cw c
  printable : ∀ b ∈ flat rest, isPrintableByte b = true

/-- one call of the reader during a feed: it hands out a non-empty prefix `c1` of the characters
    still to come (as long as there are any), within the limit or a single character -/
theorem readPrintable_feed {cw : Nat → Nat} {r : Rdr} {rest : List Cl} (h : Feeding cw r rest) (maxW : Nat) :
    ∃ c1 rest', rest = c1 ++ rest' ∧ (r.readPrintable cw maxW).2.text = flat c1 ∧
      (r.readPrintable cw maxW).2.width = ws c1 ∧ Feeding cw (r.readPrintable cw maxW).1 rest' ∧
      (rest ≠ [] → c1 ≠ []) ∧ (0 < maxW → ws c1 ≤ maxW ∨ c1.length ≤ 1) := by
  obtain ⟨cs, hp⟩ := Lemmas.readPrintable_post cw r maxW h.wf
  obtain ⟨rest2, hr⟩ := Lemmas.heads_clustersAux cs r.pending r.pending.length hp.heads
    (Lemmas.heads_length cs _ hp.heads)
  have hr' : clusters cw r.pending = cs ++ rest2 := hr
  rw [h.pending, clusters_flat (vcl_toks h.valid)] at hr'
  have hE := readPrintable_noErr cw r maxW h.wf h.noErr
  have hpend : (r.readPrintable cw maxW).1.pending = flat rest2 := by
    have := hp.stream
    rw [hp.text, h.pending, hr', flat_append] at this
    exact (List.append_cancel_left this).symm
  have hsub2 : ∀ c ∈ rest2, c ∈ rest := fun c hc => by rw [hr']; exact List.mem_append_right _ hc
  refine ⟨cs, rest2, hr', hp.text, hp.width, ⟨hp.wf, hE.1, hpend, fun c hc => h.valid c (hsub2 c hc), ?_⟩, ?_, ?_⟩
  · intro b hb
    refine h.printable b ?_
    rw [hr', flat_append]; exact List.mem_append_right _ hb
  · intro hne hcs
    subst hcs
    have htext : (r.readPrintable cw maxW).2.text = [] := hp.text
    obtain ⟨c, tl, hrest⟩ : ∃ c tl, rest = c :: tl := by
      cases rest with
      | nil => exact absurd rfl hne
      | cons c tl => exact ⟨c, tl, rfl⟩
    have hc := h.valid c (by rw [hrest]; exact List.mem_cons_self ..)
    cases herr : (r.readPrintable cw maxW).2.err with
    | false =>
      obtain ⟨b, v, hv, hnp, hpe⟩ := readPrintable_progress cw r maxW h.wf herr htext
      have hb : b ∈ flat rest := by
        rw [← h.pending, ← hpe, Lemmas.pending_eq, hv]
        exact List.mem_append_left _ (List.mem_cons_self ..)
      rw [h.printable b hb] at hnp
      cases hnp
    | true =>
      obtain ⟨_, _, hpe, _, hstop⟩ := readPrintable_error cw r maxW h.wf herr
      have hsrc := hE.2 herr
      have hview : (r.readPrintable cw maxW).1.buf.view = c.1 ++ flat tl := by
        have := hpe
        rw [Lemmas.pending_eq, hsrc, h.pending, hrest] at this
        simpa using this
      have hcl := (vcl_toks h.valid).pos c (by rw [hrest]; exact List.mem_cons_self ..)
      rcases hstop with hz | hz
      · have hl := Lemmas.view_len hp.wf
        rw [hz, hview, List.length_append] at hl
        omega
      · rw [hview, stepRune_append _ (vcl_step hc)] at hz
        cases hz
  · rw [← hp.width]; exact hp.limit

theorem feeding_init {cw : Nat → Nat} {cs : List Cl} (hv : ∀ c ∈ cs, VCl cw c)
    (hp : ∀ b ∈ flat cs, isPrintableByte b = true) : Feeding cw (Rdr.init [(flat cs, false)]) cs := by
  refine ⟨(init_wf _).1, ?_, ?_, hv, hp⟩
  · intro p hp
    rw [show (Rdr.init [(flat cs, false)]).src = [(flat cs, false)] from rfl, List.mem_singleton] at hp
    rw [hp]
  · rw [(init_wf _).2]; simp [srcBytes]

/-! ## F2 — `feedText`: the screen side -/

theorem feedTextAux_succ (cw : Nat → Nat) (fuel : Nat) (s : SScr) (r : Rdr) :
    SScr.feedTextAux cw (fuel + 1) s r =
      if (r.readPrintable cw (max (s.w - s.cx) 1)).2.text.isEmpty then s
      else SScr.feedTextAux cw fuel
        (SScr.writeString cw ((r.readPrintable cw (max (s.w - s.cx) 1)).2.text.length + 1) s
          (r.readPrintable cw (max (s.w - s.cx) 1)).2.text (r.readPrintable cw (max (s.w - s.cx) 1)).2.width)
        (r.readPrintable cw (max (s.w - s.cx) 1)).1 := rfl

/-- no run of several characters starts on the second cell of a wide character, along the
    execution of `feedTextAux` (a run of one character may: `writeString` then behaves as `put`) -/
def cleanFeed (cw : Nat → Nat) : Nat → SScr → Rdr → Bool
  | 0, _, _ => true
  | fuel+1, s, r =>
    let res := r.readPrintable cw (max (s.w - s.cx) 1)
    res.2.text.isEmpty ||
    ((decide ((clusters cw res.2.text).length = 1) || !contAt (lineCells cw (s.line s.cy)) s.cx) &&
      cleanFeed cw fuel (SScr.writeString cw (res.2.text.length + 1) s res.2.text res.2.width) res.1)

/-- `cleanFeed` for `feedText` -/
def CleanFeed (cw : Nat → Nat) (s : SScr) (text : Bytes) : Prop :=
  cleanFeed cw (text.length + 1) s (Rdr.init [(text, false)]) = true

/-- one run of the feed: a single character, or a run that fits in the rest of the row -/
theorem writeString_feedRun {cw : Nat → Nat} (hb : cw 0x20 ≤ 1) (hr : cw 0xFFFD ≤ 1) {s : SScr}
    (hs : SScr.inv cw s = true) {c1 : List Cl} (hv : ∀ c ∈ c1, VCl cw c) (hne : c1 ≠ [])
    (hlim : ws c1 ≤ max (s.w - s.cx) 1 ∨ c1.length ≤ 1)
    (hc : c1.length ≠ 1 → contAt (lineCells cw (s.line s.cy)) s.cx = false) (n : Nat) :
    (s.writeString cw (n + 1) (flat c1) (ws c1)).abs cw =
      c1.foldl (fun sc c => sc.put .keep c.1 c.2) (s.abs cw) ∧
    SScr.inv cw (s.writeString cw (n + 1) (flat c1) (ws c1)) = true := by
  by_cases hlen : c1.length = 1
  · obtain ⟨c, rfl⟩ : ∃ c, c1 = [c] := by
      match c1, hlen with
      | [c], _ => exact ⟨c, rfl⟩
    have := writeString_validChar hb hr hs (hv c (List.mem_singleton.2 rfl)) n
    simp only [flat_cons, flat_nil, List.append_nil, ws_cons, ws_nil, Nat.add_zero, List.foldl_cons,
      List.foldl_nil]
    exact this.2
  · have hcx := (geom_of_inv hs).cx
    have hl0 : 0 < c1.length := List.length_pos_iff.2 hne
    have hfit : s.cx + ws c1 ≤ s.w := by
      rcases hlim with h | h
      · omega
      · omega
    exact writeString_validRun hb hs hv hne hfit (hc hlen) n

/-- **F2 (b), general form**: from any reader state in the middle of a feed -/
theorem feedTextAux_refines {cw : Nat → Nat} (hb : cw 0x20 ≤ 1) (hr : cw 0xFFFD ≤ 1) :
    ∀ (fuel : Nat) (s : SScr) (r : Rdr) (rest : List Cl), SScr.inv cw s = true → Feeding cw r rest →
      (flat rest).length < fuel → cleanFeed cw fuel s r = true →
      (SScr.feedTextAux cw fuel s r).abs cw = rest.foldl (fun sc c => sc.put .keep c.1 c.2) (s.abs cw) ∧
      SScr.inv cw (SScr.feedTextAux cw fuel s r) = true := by
  intro fuel
  induction fuel with
  | zero => intro s r rest _ _ hf _; omega
  | succ f ih =>
    intro s r rest hs hF hf hcl
    obtain ⟨c1, rest', hsplit, htext, hwidth, hF', hne, hlim⟩ := readPrintable_feed hF (max (s.w - s.cx) 1)
    rw [feedTextAux_succ]
    rw [cleanFeed] at hcl
    simp only [htext, hwidth] at hcl ⊢
    by_cases hrest : rest = []
    · subst hrest
      have hc1 : c1 = [] := (List.append_eq_nil_iff.1 hsplit.symm).1
      subst hc1
      simp only [flat_nil, List.isEmpty_nil, if_true, List.foldl_nil]
      exact ⟨trivial, hs⟩
    · have hne1 := hne hrest
      have hv1 : ∀ c ∈ c1, VCl cw c := fun c hc => hF.valid c (by rw [hsplit]; exact List.mem_append_left _ hc)
      have hemp := flat_isEmpty (vcl_toks hv1) hne1
      rw [hemp] at hcl ⊢
      simp only [Bool.false_or, Bool.and_eq_true, Bool.or_eq_true, decide_eq_true_eq,
        Bool.not_eq_true', clusters_flat (vcl_toks hv1)] at hcl
      simp only [Bool.false_eq_true, if_false]
      obtain ⟨q1, q2⟩ := writeString_feedRun hb hr hs hv1 hne1 (hlim (by omega))
        (fun hl => by rcases hcl.1 with h | h; exact absurd h hl; exact h) (flat c1).length
      have hpos := flat_length_pos (fun p hp => ((vcl_toks hv1).pos p hp).1) hne1
      have hlen : (flat rest').length < f := by
        rw [hsplit, flat_append, List.length_append] at hf; omega
      obtain ⟨i1, i2⟩ := ih _ _ rest' q2 hF' hlen hcl.2
      refine ⟨?_, i2⟩
      rw [i1, q1, hsplit, List.foldl_append]

/-- **F2 (b)** a stretch of valid, printable text fed through the real reader's cutting and
    `writeString`'s one-span writes shows what the model terminal shows after the characters have
    been put one by one, and the invariant holds afterwards -/
theorem feedText_refines {cw : Nat → Nat} (hb : cw 0x20 ≤ 1) (hr : cw 0xFFFD ≤ 1) {s : SScr}
    (hs : SScr.inv cw s = true) {cs : List Cl} (hv : ∀ c ∈ cs, VCl cw c)
    (hp : ∀ b ∈ flat cs, isPrintableByte b = true) (hcl : CleanFeed cw s (flat cs)) :
    (s.feedText cw (flat cs)).abs cw = cs.foldl (fun sc c => sc.put .keep c.1 c.2) (s.abs cw) ∧
    SScr.inv cw (s.feedText cw (flat cs)) = true :=
  feedTextAux_refines hb hr _ s _ cs hs (feeding_init hv hp) (Nat.lt_succ_self _) hcl

/-! ## F2 (a) — the runs handed to `writeString` -/

/-- the runs `feedTextAux` hands to `writeString`: text, width, and the limit in force when the
    run was cut (`max (w - cx) 1` of the screen at that moment) -/
def feedRuns (cw : Nat → Nat) : Nat → SScr → Rdr → List (Bytes × Nat × Nat)
  | 0, _, _ => []
  | fuel+1, s, r =>
    let res := r.readPrintable cw (max (s.w - s.cx) 1)
    if res.2.text.isEmpty then []
    else (res.2.text, res.2.width, max (s.w - s.cx) 1) ::
      feedRuns cw fuel (SScr.writeString cw (res.2.text.length + 1) s res.2.text res.2.width) res.1

/-- `feedTextAux` is `writeString` of the runs of `feedRuns`, one after the other -/
theorem feedTextAux_eq_runs (cw : Nat → Nat) : ∀ (fuel : Nat) (s : SScr) (r : Rdr),
    SScr.feedTextAux cw fuel s r =
      (feedRuns cw fuel s r).foldl (fun s run => SScr.writeString cw (run.1.length + 1) s run.1 run.2.1) s := by
  intro fuel
  induction fuel with
  | zero => intro s r; rfl
  | succ f ih =>
    intro s r
    rw [feedTextAux_succ, feedRuns]
    split
    · rfl
    · rw [List.foldl_cons, ← ih]

/-- the runs from any reader state in the middle of a feed, whatever the screen: they are
    non-empty groups of the characters still to come, in order, all of them; each is cut under a
    positive limit and respects it or is a single character -/
theorem feedRuns_spec {cw : Nat → Nat} : ∀ (fuel : Nat) (s : SScr) (r : Rdr) (rest : List Cl),
    Feeding cw r rest → (flat rest).length < fuel →
    ∃ runs : List (List Cl × Nat), rest = (runs.map (·.1)).flatten ∧
      feedRuns cw fuel s r = runs.map (fun p => (flat p.1, ws p.1, p.2)) ∧
      ∀ p ∈ runs, p.1 ≠ [] ∧ 0 < p.2 ∧ (ws p.1 ≤ p.2 ∨ p.1.length = 1) := by
  intro fuel
  induction fuel with
  | zero => intro s r rest _ hf; omega
  | succ f ih =>
    intro s r rest hF hf
    obtain ⟨c1, rest', hsplit, htext, hwidth, hF', hne, hlim⟩ := readPrintable_feed hF (max (s.w - s.cx) 1)
    rw [feedRuns]
    simp only [htext, hwidth]
    by_cases hrest : rest = []
    · subst hrest
      have hc1 : c1 = [] := (List.append_eq_nil_iff.1 hsplit.symm).1
      subst hc1
      exact ⟨[], rfl, by simp, fun p hp => by cases hp⟩
    · have hne1 := hne hrest
      have hv1 : ∀ c ∈ c1, VCl cw c := fun c hc => hF.valid c (by rw [hsplit]; exact List.mem_append_left _ hc)
      have hemp := flat_isEmpty (vcl_toks hv1) hne1
      have hpos := flat_length_pos (fun p hp => ((vcl_toks hv1).pos p hp).1) hne1
      have hlen : (flat rest').length < f := by
        rw [hsplit, flat_append, List.length_append] at hf; omega
      obtain ⟨runs, e1, e2, e3⟩ := ih (SScr.writeString cw ((flat c1).length + 1) s (flat c1) (ws c1)) _ rest' hF' hlen
      refine ⟨(c1, max (s.w - s.cx) 1) :: runs, ?_, ?_, ?_⟩
      · rw [List.map_cons, List.flatten_cons, ← e1, hsplit]
      · rw [hemp, e2]; simp
      · intro p hp
        rcases List.mem_cons.1 hp with rfl | hp
        · refine ⟨hne1, (by show 0 < max (s.w - s.cx) 1; omega), ?_⟩
          have hl0 : 0 < c1.length := List.length_pos_iff.2 hne1
          rcases hlim (by omega) with h | h
          · exact Or.inl h
          · exact Or.inr (by show c1.length = 1; omega)
        · exact e3 p hp

/-- **F2 (a)** the runs `feedText` hands to `writeString` (`feedTextAux_eq_runs`) concatenate to
    the text; each run is a non-empty sequence of whole characters with the width of its
    characters, cut under a positive limit, and it respects the limit in force when it was cut or
    is a single character (which is handed over whatever its width) -/
theorem feedText_runs {cw : Nat → Nat} (s : SScr) {cs : List Cl} (hv : ∀ c ∈ cs, VCl cw c)
    (hp : ∀ b ∈ flat cs, isPrintableByte b = true) :
    ((feedRuns cw ((flat cs).length + 1) s (Rdr.init [(flat cs, false)])).map (·.1)).flatten = flat cs ∧
    ∀ run ∈ feedRuns cw ((flat cs).length + 1) s (Rdr.init [(flat cs, false)]),
      run.1 ≠ [] ∧ textWF cw run.1 run.2.1 = true ∧ 0 < run.2.2 ∧
      (run.2.1 ≤ run.2.2 ∨ clusters cw run.1 = [(run.1, run.2.1)]) := by
  obtain ⟨runs, e1, e2, e3⟩ := feedRuns_spec (cw := cw) _ s _ cs (feeding_init hv hp) (Nat.lt_succ_self _)
  have hvr : ∀ p ∈ runs, ∀ c ∈ p.1, VCl cw c := by
    intro p hp c hc
    refine hv c ?_
    rw [e1]
    exact List.mem_flatten.2 ⟨p.1, List.mem_map.2 ⟨p, hp, rfl⟩, hc⟩
  rw [e2]
  constructor
  · rw [e1]
    simp only [List.map_map]
    clear e1 e2 e3 hvr
    induction runs with
    | nil => rfl
    | cons p runs ih =>
      simp only [List.map_cons, List.flatten_cons, flat_append, Function.comp] at ih ⊢
      rw [ih]
  · intro run hrun
    obtain ⟨p, hp, rfl⟩ := List.mem_map.1 hrun
    obtain ⟨k1, k2, k3⟩ := e3 p hp
    have ht := vcl_toks (hvr p hp)
    refine ⟨?_, textWF_flat ht, k2, ?_⟩
    · intro hc
      have := flat_isEmpty ht k1
      simp only at hc
      rw [hc] at this; cases this
    · rcases k3 with h | h
      · exact Or.inl h
      · right
        obtain ⟨c, hc⟩ : ∃ c, p.1 = [c] := by
          match p.1, h with
          | [c], _ => exact ⟨c, rfl⟩
        simp only [hc, flat_cons, flat_nil, List.append_nil, ws_cons, ws_nil, Nat.add_zero]
        exact clusters_single (hvr p hp c (by rw [hc]; exact List.mem_singleton.2 rfl))

/-- the split path of `writeString` (`splitRunToFit`) is not taken for a run of the feed: the run
    fits in the rest of the row, or it is a single character -/
theorem writeString_feed_noSplit {cw : Nat → Nat} {s : SScr} (hcx : s.cx < s.w) {c1 : List Cl}
    (hv : ∀ c ∈ c1, VCl cw c) (hne : c1 ≠ []) (hlim : ws c1 ≤ max (s.w - s.cx) 1 ∨ c1.length = 1) (n : Nat) :
    s.writeString cw (n + 1) (flat c1) (ws c1) = wsNone cw s (flat c1) (ws c1) := by
  have ht := vcl_toks hv
  have hw := ws_pos (fun p hp => (ht.pos p hp).2) hne
  have hm : max (ws c1) 1 = ws c1 := by omega
  rw [writeString_succ, replaceInvalidUTF8_flat hv, flat_isEmpty ht hne, hm]
  simp only [Bool.false_eq_true, if_false]
  have hsplit : (if s.cx + ws c1 > s.w ∧ ws c1 > 1 then splitRunToFit cw (flat c1) (s.w - s.cx) else none)
      = none := by
    split
    · rename_i hcond
      have hlen : c1.length = 1 := by
        rcases hlim with h | h
        · omega
        · exact h
      obtain ⟨c, rfl⟩ : ∃ c, c1 = [c] := by
        match c1, hlen with
        | [c], _ => exact ⟨c, rfl⟩
      have hcl := clusters_single (hv c (List.mem_singleton.2 rfl))
      simp only [flat_cons, flat_nil, List.append_nil]
      exact splitRunToFit_single (w := c.2) hcl _
    · rfl
  rw [hsplit]

/-! ## non-vacuity: the 6×2 screens of `C03SpanWrite` (`exW`: autowrap on, cursor at column 4) and
the text `ab中c` (`exCs`), which crosses the right edge -/

theorem exCs_valid : ∀ c ∈ exCs, VCl cwS c := by
  intro c hc
  simp only [exCs, List.mem_cons, List.not_mem_nil, or_false] at hc
  rcases hc with rfl | rfl | rfl | rfl
  · exact ⟨⟨by decide, 0x61, by decide, by decide⟩, by decide⟩
  · exact ⟨⟨by decide, 0x62, by decide, by decide⟩, by decide⟩
  · exact ⟨⟨by decide, 0x4E2D, by decide, by decide⟩, by decide⟩
  · exact ⟨⟨by decide, 0x63, by decide, by decide⟩, by decide⟩

example : ∀ b ∈ flat exCs, isPrintableByte b = true := by decide
set_option maxRecDepth 100000 in
example : SScr.inv cwS exW = true ∧ CleanFeed cwS exW (flat exCs) := by
  unfold CleanFeed; decide
-- the reader cuts `ab` (limit 2: the rest of the first row), then `中c` (limit 6: a whole row)
set_option maxRecDepth 100000 in
example : feedRuns cwS ((flat exCs).length + 1) exW (Rdr.init [(flat exCs, false)]) =
    [([0x61, 0x62], 2, 2), ([0xe4, 0xb8, 0xad, 0x63], 3, 6)] := by decide
set_option maxRecDepth 100000 in
example : (exW.feedText cwS (flat exCs)).abs cwS =
      exCs.foldl (fun sc c => sc.put .keep c.1 c.2) (exW.abs cwS) ∧
    (exW.feedText cwS (flat exCs)).cx = 3 ∧ (exW.feedText cwS (flat exCs)).cy = 1 := by decide

-- autowrap off (`exS`: cursor at column 1): `ab中c` fills the row, the cursor is pinned on the last
-- column, `d` and `e` arrive as runs of one character (limit 1) and overwrite it
set_option maxRecDepth 100000 in
example : SScr.inv cwS exS = true ∧ CleanFeed cwS exS (flat (exCs ++ [([0x64], 1), ([0x65], 1)])) ∧
    feedRuns cwS 9 exS (Rdr.init [(flat (exCs ++ [([0x64], 1), ([0x65], 1)]), false)]) =
      [(flat exCs, 5, 5), ([0x64], 1, 1), ([0x65], 1, 1)] ∧
    (exS.feedText cwS (flat (exCs ++ [([0x64], 1), ([0x65], 1)]))).abs cwS =
      (exCs ++ [([0x64], 1), ([0x65], 1)]).foldl (fun sc (c : Cl) => sc.put .keep c.1 c.2) (exS.abs cwS) := by
  unfold CleanFeed; decide
-- autowrap off, `abcd中e` from column 0: the cursor is pinned on the second cell of `中`; the next
-- run starts there, but it is a single character (limit 1), which `CleanFeed` allows
set_option maxRecDepth 100000 in
example :
    let t : List Cl := [([0x61], 1), ([0x62], 1), ([0x63], 1), ([0x64], 1), (zhong, 2), ([0x65], 1)]
    CleanFeed cwS (SScr.init 6 2) (flat t) ∧
    feedRuns cwS 9 (SScr.init 6 2) (Rdr.init [(flat t, false)]) =
      [([0x61, 0x62, 0x63, 0x64, 0xe4, 0xb8, 0xad], 6, 6), ([0x65], 1, 1)] ∧
    contAt (lineCells cwS (((SScr.init 6 2).writeString cwS 8 [0x61, 0x62, 0x63, 0x64, 0xe4, 0xb8, 0xad] 6).line 0)) 5 = true ∧
    ((SScr.init 6 2).feedText cwS (flat t)).abs cwS =
      t.foldl (fun sc (c : Cl) => sc.put .keep c.1 c.2) ((SScr.init 6 2).abs cwS) := by
  unfold CleanFeed; decide

/-- the hypothesis `CleanFeed` of `feedText_refines` is needed (the state of
    `writeString_run_needs_boundary`): `中` in columns 3-4 of a 6-column row, the cursor moved onto
    column 4 (its second cell), autowrap off, text `ab`. The reader hands over `ab` as one run
    (limit 2), `writeString` inserts it after the kept wide character and the row is cut back:
    column 5 shows `a`; put one by one, column 5 shows `b`. -/
theorem feedText_needs_clean :
    let s0 := (((SScr.init 6 2).setCursor 3 0).put cwS zhong 2).setCursor 4 0
    let ab : List Cl := [([0x61], 1), ([0x62], 1)]
    SScr.inv cwS s0 = true ∧ ¬ CleanFeed cwS s0 (flat ab) ∧
    feedRuns cwS ((flat ab).length + 1) s0 (Rdr.init [(flat ab, false)]) = [([0x61, 0x62], 2, 2)] ∧
    (s0.feedText cwS (flat ab)).abs cwS ≠ ab.foldl (fun sc c => sc.put .keep c.1 c.2) (s0.abs cwS) := by
  unfold CleanFeed
  set_option maxRecDepth 100000 in decide

#print axioms TM.C03SpanFeed.replaceInvalidUTF8_valid
#print axioms TM.C03SpanFeed.replaceInvalidUTF8_flat
#print axioms TM.C03SpanFeed.replaceInvalidUTF8_token
#print axioms TM.C03SpanFeed.writeString_token
#print axioms TM.C03SpanFeed.writeString_validChar
#print axioms TM.C03SpanFeed.writeString_validRun
#print axioms TM.C03SpanFeed.readPrintable_noErr
#print axioms TM.C03SpanFeed.readPrintable_feed
#print axioms TM.C03SpanFeed.feedTextAux_eq_runs
#print axioms TM.C03SpanFeed.feedText_runs
#print axioms TM.C03SpanFeed.writeString_feed_noSplit
#print axioms TM.C03SpanFeed.feedTextAux_refines
#print axioms TM.C03SpanFeed.feedText_refines
#print axioms TM.C03SpanFeed.feedText_needs_clean

end TM.C03SpanFeed
