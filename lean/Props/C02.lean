import TM.Run
/-!
# C02 — the screen invariant

"After every processed input and every Resize, each row of the active and the inactive buffer
consists of styled runs of positive width that sum to exactly the screen width, and Line(y),
StyledLine(0,W,y) and ANSILine(y) describe the same text. The cursor position reported to the
frontend and in cursor-position reports lies inside the screen, and the scroll region is a
non-empty row range inside the screen."

Model-level reading: the geometric invariant `Scr.geo` (grid of `h` rows of `w` cells, cursor,
saved cursor and margins inside) holds for both buffers in every reachable state, together with
the well-formedness of every row (`rowWF`: every cell is the first cell of a character of width
`n ≥ 1` followed by exactly `n-1` continuation cells inside the row — "runs of positive width
that sum to the screen width").

What is proved, and where the boundary is:
* Both policies, EVERY width function (characters of any width: U+2E3A is 3 cells, U+2E3B 4 in
  the real table): the full invariant `Term.wf` (= `Term.inv`: `Scr.inv` on both buffers, equal
  sizes) is inductive for every token and every resize (`apply_wf`, `resize_wf`, `reachable_wf`,
  `run_wf`), and every reported cursor position is inside the screen
  (`cursor_reports_in_range`). No hypothesis on the width function is needed: `Row.putKeep`
  keeps the row length and `rowWF` for kept / written / cut characters of every width
  (`putKeep_rowWF`; example with a width-3 character: `keep_policy_width3_keeps_geo`).
* `blank` policy (grid buffer): even `Term.geo` alone is inductive (`apply_geo_blank`).
* `keep` policy (span buffer): `Term.geo` alone is NOT inductive
  (`geo_alone_not_inductive_under_keep`); the well-formedness of rows is needed.
* The earlier formulation (invariant `Term.wfNarrow` = `Term.inv` + "no stored character wider
  than 2" under the hypothesis `WidthOK`) is kept as the corollary `apply_wfNarrow`.
* The model has no `Line/StyledLine/ANSILine` accessors, so their agreement is not stated here.
-/
namespace TM

/-- the geometric part of `Scr.inv` -/
def Scr.geo (s : Scr) : Prop :=
  1 ≤ s.w ∧ 1 ≤ s.h ∧ s.grid.length = s.h ∧ (∀ r ∈ s.grid, r.length = s.w) ∧
  s.cx < s.w ∧ s.cy < s.h ∧ s.sx < s.w ∧ s.sy < s.h ∧ s.top ≤ s.bot ∧ s.bot < s.h

/-- both buffers satisfy the geometric invariant and have the same size -/
def Term.geo (t : Term) : Prop :=
  t.main.geo ∧ t.alt.geo ∧ t.main.w = t.alt.w ∧ t.main.h = t.alt.h

instance (s : Scr) : Decidable s.geo := by unfold Scr.geo; infer_instance
instance (t : Term) : Decidable t.geo := by unfold Term.geo; infer_instance

/-- the full invariant `Scr.inv` (geometry and well-formed rows) on both buffers, same size -/
def Term.inv (t : Term) : Prop :=
  t.main.inv = true ∧ t.alt.inv = true ∧ t.main.w = t.alt.w ∧ t.main.h = t.alt.h

/-- the invariant of reachable states. It is `Term.inv`, for both policies and every width
    function. (Until `Row.putKeep` was made right for kept characters of every width it carried,
    under the `keep` policy, the extra component "no stored character is wider than 2 cells" —
    now `Term.wfNarrow` — and the theorems took the hypothesis `WidthOK`, which is false for the
    width table of the real terminal: U+2E3A is 3 cells wide, U+2E3B 4.) -/
def Term.wf (t : Term) : Prop := t.inv

/-- every character stored in the grid is at most 2 cells wide -/
def Scr.narrow (s : Scr) : Prop :=
  ∀ r ∈ s.grid, ∀ t w st, (⟨.ch t w, st⟩ : Cell) ∈ r → w ≤ 2

/-- the earlier, stronger invariant: `Term.inv`, and under the `keep` policy (span buffer) no
    stored character is wider than 2 cells. Still preserved when the width function is bounded
    by 2 (`apply_wfNarrow`), but no longer needed for anything. -/
def Term.wfNarrow (t : Term) : Prop :=
  t.inv ∧ (t.pol = .keep → t.main.narrow ∧ t.alt.narrow)

/-- an assumption on the width function that is NOT needed any more by the invariant theorems
    (and is false for the real width table): under the `keep` policy widths are at most 2 -/
def WidthOK (pol : WidePolicy) (cw : Nat → Nat) : Prop := pol = .keep → ∀ cp, cw cp ≤ 2

end TM

namespace TM.C02
open TM

/-! ## Helper lemmas -/
namespace Lemmas

/-! ### `contAt`, `widthAt`, `headOf` -/

theorem contAt_iff {r : Row} {x : Nat} : contAt r x = true ↔ ∃ st, r[x]? = some ⟨.cont, st⟩ := by
  unfold contAt; split <;> simp_all

theorem contAt_cont {r : Row} {x : Nat} {st : Style} (h : r[x]? = some ⟨.cont, st⟩) :
    contAt r x = true := contAt_iff.2 ⟨st, h⟩

theorem contAt_ch {r : Row} {x : Nat} {t : Bytes} {w : Nat} {st : Style}
    (h : r[x]? = some ⟨.ch t w, st⟩) : contAt r x = false := by
  unfold contAt; rw [h]

theorem contAt_none {r : Row} {x : Nat} (h : r[x]? = none) : contAt r x = false := by
  unfold contAt; rw [h]

theorem contAt_ge {r : Row} {x : Nat} (h : r.length ≤ x) : contAt r x = false :=
  contAt_none (List.getElem?_eq_none h)

theorem contAt_lt {r : Row} {x : Nat} (h : contAt r x = true) : x < r.length := by
  false_or_by_contra
  rw [contAt_ge (by omega)] at h; cases h

theorem contAt_congr {r r' : Row} {x : Nat} (h : r'[x]? = r[x]?) : contAt r' x = contAt r x := by
  unfold contAt; rw [h]

theorem contAt_blank {r : Row} {x : Nat} {st : Style} (h : r[x]? = some (blank st)) :
    contAt r x = false := contAt_ch h

theorem widthAt_ch {r : Row} {x : Nat} {t : Bytes} {w : Nat} {st : Style}
    (h : r[x]? = some ⟨.ch t w, st⟩) : widthAt r x = max w 1 := by
  unfold widthAt; rw [h]

theorem widthAt_pos (r : Row) (x : Nat) : 1 ≤ widthAt r x := by
  unfold widthAt; split <;> omega

theorem headOf_le (r : Row) (x : Nat) : headOf r x ≤ x := by
  induction x with
  | zero => simp [headOf]
  | succ x ih => simp only [headOf]; split <;> omega

theorem headOf_cont (r : Row) (x j : Nat) (h1 : headOf r x < j) (h2 : j ≤ x) : contAt r j = true := by
  induction x with
  | zero => simp [headOf] at h1; omega
  | succ x ih =>
    simp only [headOf] at h1
    split at h1
    · next hc =>
      by_cases hj : j = x + 1
      · rw [hj]; exact hc
      · exact ih h1 (by omega)
    · omega

theorem headOf_head (r : Row) (x : Nat) : headOf r x = 0 ∨ contAt r (headOf r x) = false := by
  induction x with
  | zero => simp [headOf]
  | succ x ih =>
    simp only [headOf]
    split
    · exact ih
    · next hc => right; simpa using hc

/-! ### `rowWF` as a predicate -/

theorem rowWF_iff (r : Row) : rowWF r = true ↔
    (contAt r 0 = false ∧ ∀ i t w st, r[i]? = some ⟨.ch t w, st⟩ →
      1 ≤ w ∧ i + w ≤ r.length ∧ (∀ k, i < k → k < i + w → contAt r k = true) ∧
        contAt r (i + w) = false) := by
  unfold rowWF
  rw [List.all_eq_true]
  simp only [List.mem_range]
  constructor
  · intro H
    constructor
    · cases hc : contAt r 0 with
      | false => rfl
      | true =>
        obtain ⟨st, hst⟩ := contAt_iff.1 hc
        have := H 0 (contAt_lt hc)
        rw [hst] at this
        simp at this
    · intro i t w st h
      have hi : i < r.length := by
        false_or_by_contra
        rw [List.getElem?_eq_none (by omega)] at h; cases h
      have := H i hi
      rw [h] at this
      simp only [Bool.and_eq_true, decide_eq_true_eq, List.all_eq_true, List.mem_range,
        Bool.not_eq_true'] at this
      refine ⟨this.1.1.1, this.1.1.2, ?_, this.2⟩
      intro k h1 h2
      have := this.1.2 (k - (i + 1)) (by omega)
      have e : i + 1 + (k - (i + 1)) = k := by omega
      rwa [e] at this
  · intro ⟨h0, H⟩ i hi
    cases hc : r[i]? with
    | none => rw [List.getElem?_eq_none_iff] at hc; omega
    | some c =>
      obtain ⟨g, st⟩ := c
      cases g with
      | cont =>
        simp only [decide_eq_true_eq]
        false_or_by_contra
        have : i = 0 := by omega
        subst this
        rw [contAt_cont hc] at h0; cases h0
      | ch t w =>
        obtain ⟨a, b, c, d⟩ := H i t w st hc
        simp only [Bool.and_eq_true, decide_eq_true_eq, List.all_eq_true, List.mem_range,
          Bool.not_eq_true']
        exact ⟨⟨⟨a, b⟩, fun k hk => c _ (by omega) (by omega)⟩, d⟩

theorem headOf_unique (r : Row) (x h : Nat) (hle : h ≤ x)
    (hc : ∀ j, h < j → j ≤ x → contAt r j = true) (hh : h = 0 ∨ contAt r h = false) :
    headOf r x = h := by
  induction x with
  | zero => simp [headOf]; omega
  | succ x ih =>
    simp only [headOf]
    by_cases hx : h = x + 1
    · have : contAt r (x + 1) = false := by
        rcases hh with hh | hh
        · omega
        · rw [← hx]; exact hh
      simp [this, hx]
    · have : contAt r (x + 1) = true := hc _ (by omega) (by omega)
      simp only [this, if_true]
      exact ih (by omega) (fun j a b => hc j a (by omega))

theorem headOf_of_not_cont {r : Row} {x : Nat} (h : contAt r x = false) : headOf r x = x :=
  headOf_unique r x x (Nat.le_refl _) (fun j a b => by omega) (Or.inr h)

/-- in a well-formed row the cell at `headOf r x` is the first cell of a character that
    covers column `x` -/
theorem wf_head {r : Row} (hwf : rowWF r = true) {x : Nat} (hx : x < r.length) :
    ∃ t cw st, r[headOf r x]? = some ⟨.ch t cw, st⟩ ∧ 1 ≤ cw ∧ x < headOf r x + cw ∧
      headOf r x + cw ≤ r.length ∧ contAt r (headOf r x) = false ∧
      contAt r (headOf r x + cw) = false := by
  obtain ⟨h0, H⟩ := (rowWF_iff r).1 hwf
  have hle := headOf_le r x
  have hnc : contAt r (headOf r x) = false := by
    rcases headOf_head r x with h | h
    · rw [h]; exact h0
    · exact h
  cases hc : r[headOf r x]? with
  | none => rw [List.getElem?_eq_none_iff] at hc; omega
  | some c =>
    obtain ⟨g, st⟩ := c
    cases g with
    | cont => rw [contAt_cont hc] at hnc; cases hnc
    | ch t cw =>
      obtain ⟨a, b, _, d⟩ := H _ t cw st hc
      refine ⟨t, cw, st, rfl, a, ?_, b, hnc, d⟩
      false_or_by_contra
      have := headOf_cont r x (headOf r x + cw) (by omega) (by omega)
      rw [this] at d; cases d

/-! ### `blankRange`, `blankCharAt`, `fitRow` -/

@[simp] theorem blankRange_length (r : Row) (a n : Nat) (st : Style) :
    (blankRange r a n st).length = r.length := by
  simp [blankRange]

theorem getElem?_blankRange (r : Row) (a n : Nat) (st : Style) (i : Nat) :
    (blankRange r a n st)[i]? =
      if a ≤ i ∧ i < a + n ∧ i < r.length then some (blank st) else r[i]? := by
  unfold blankRange
  rw [List.getElem?_mapIdx]
  by_cases hi : i < r.length
  · rw [List.getElem?_eq_getElem hi]
    by_cases h : a ≤ i ∧ i < a + n
    · simp [h, hi]
    · have : ¬ (a ≤ i ∧ i < a + n ∧ i < r.length) := fun ⟨p, q, _⟩ => h ⟨p, q⟩
      simp [h, this]
  · rw [List.getElem?_eq_none (by omega)]
    have : ¬ (a ≤ i ∧ i < a + n ∧ i < r.length) := fun ⟨_, _, q⟩ => hi q
    simp [this]

@[simp] theorem blankCharAt_length (r : Row) (x : Nat) (st : Style) :
    (blankCharAt r x st).length = r.length := by
  unfold blankCharAt
  simp only
  split <;> simp

theorem blankCharAt_of_cont {r : Row} {x : Nat} (st : Style) (h : contAt r x = true) :
    blankCharAt r x st = blankRange r (headOf r x) (widthAt r (headOf r x)) st := by
  unfold blankCharAt
  simp [h]

@[simp] theorem fitRow_length (r : Row) (w : Nat) (st : Style) : (fitRow r w st).length = w := by
  unfold fitRow
  split
  · simp only [List.length_take]
    split <;> (try simp only [blankCharAt_length]) <;> omega
  · simp; omega

/-- a cell of `fitRow` that was inside the old row -/
theorem getElem?_fitRow_old (r : Row) (w : Nat) (st : Style) (x : Nat) (hx : x < w)
    (hxr : x < r.length) :
    (fitRow r w st)[x]? =
      if contAt r w = true ∧ headOf r w ≤ x ∧ x < headOf r w + widthAt r (headOf r w)
      then some (blank st) else r[x]? := by
  unfold fitRow
  split
  · rw [List.getElem?_take, if_pos hx]
    by_cases hc : contAt r w = true
    · rw [if_pos hc, blankCharAt_of_cont st hc, getElem?_blankRange]
      simp [hc, hxr]
    · simp [hc]
  · next hlen =>
    have hc : contAt r w = false := contAt_ge (by omega)
    rw [List.getElem?_append, if_pos hxr]
    simp [hc]

/-- a cell of `fitRow` to the right of the old row -/
theorem getElem?_fitRow_new (r : Row) (w : Nat) (st : Style) (x : Nat) (hx : x < w)
    (hxr : r.length ≤ x) : (fitRow r w st)[x]? = some (blank st) := by
  unfold fitRow
  rw [if_neg (by omega), List.getElem?_append, if_neg (by omega), List.getElem?_replicate,
    if_pos (by omega)]

theorem fitRow_self {r : Row} {w : Nat} (st : Style) (h : r.length = w) : fitRow r w st = r := by
  subst h
  unfold fitRow
  have hc : contAt r r.length = false := contAt_ge (Nat.le_refl _)
  rw [if_pos (Nat.le_refl _)]
  simp [hc]

theorem contAt_blankRow (w : Nat) (st : Style) (x : Nat) : contAt (blankRow w st) x = false := by
  unfold contAt blankRow
  rw [List.getElem?_replicate]
  split <;> simp_all [blank]

theorem fitRow_blankRow (w0 w : Nat) (st : Style) : fitRow (blankRow w0 st) w st = blankRow w st := by
  unfold fitRow
  rw [contAt_blankRow]
  simp only [blankRow, List.length_replicate]
  split
  · simp [List.take_replicate]; omega
  · simp [List.replicate_append_replicate]; omega



/-! ### more on `blankRange`, `setRange`, `charCells` -/

theorem contAt_blankRange_imp {r : Row} {a n : Nat} {st : Style} {k : Nat}
    (h : contAt (blankRange r a n st) k = true) : contAt r k = true := by
  obtain ⟨st', hst⟩ := contAt_iff.1 h
  rw [getElem?_blankRange] at hst
  split at hst
  · simp [blank] at hst
  · exact contAt_cont hst

theorem contAt_blankRange_in {r : Row} {a n : Nat} {st : Style} {k : Nat}
    (h1 : a ≤ k) (h2 : k < a + n) : contAt (blankRange r a n st) k = false := by
  by_cases hk : k < r.length
  · apply contAt_blank (st := st); rw [getElem?_blankRange, if_pos ⟨h1, h2, hk⟩]
  · apply contAt_ge; simp; omega

theorem blankRange_eq (r : Row) (a n : Nat) (st : Style) (h : a + n ≤ r.length) :
    blankRange r a n st = r.take a ++ List.replicate n (blank st) ++ r.drop (a + n) := by
  apply List.ext_getElem?; intro i
  rw [getElem?_blankRange, List.append_assoc, List.getElem?_append, List.getElem?_append]
  simp only [List.length_take, List.length_replicate, Nat.min_eq_left (show a ≤ r.length by omega)]
  by_cases h1 : i < a
  · rw [if_pos h1, if_neg (by omega), List.getElem?_take, if_pos h1]
  · rw [if_neg h1]
    by_cases h2 : i - a < n
    · rw [if_pos h2, if_pos ⟨by omega, by omega, by omega⟩, List.getElem?_replicate, if_pos h2]
    · rw [if_neg h2, if_neg (by omega), List.getElem?_drop]; congr 1; omega

@[simp] theorem setRange_length (r : Row) (a : Nat) (cells : List Cell) :
    (setRange r a cells).length = r.length := by simp [setRange]

theorem getElem?_setRange (r : Row) (a : Nat) (cells : List Cell) (i : Nat) :
    (setRange r a cells)[i]? =
      if a ≤ i ∧ i < a + cells.length ∧ i < r.length then cells[i - a]? else r[i]? := by
  unfold setRange
  rw [List.getElem?_mapIdx]
  by_cases hi : i < r.length
  · rw [List.getElem?_eq_getElem hi]
    by_cases h : a ≤ i ∧ i < a + cells.length
    · have h' : a ≤ i ∧ i < a + cells.length ∧ i < r.length := ⟨h.1, h.2, hi⟩
      have hl : i - a < cells.length := by omega
      simp only [Option.map, if_pos h, if_pos h', List.getD_eq_getElem?_getD,
        List.getElem?_eq_getElem hl, Option.getD_some]
    · have h' : ¬ (a ≤ i ∧ i < a + cells.length ∧ i < r.length) := fun ⟨p, q, _⟩ => h ⟨p, q⟩
      simp only [Option.map, if_neg h, if_neg h']
  · rw [List.getElem?_eq_none (by omega)]
    have : ¬ (a ≤ i ∧ i < a + cells.length ∧ i < r.length) := fun ⟨_, _, q⟩ => hi q
    simp [this]

theorem setRange_eq (r : Row) (a : Nat) (cells : List Cell) (h : a + cells.length ≤ r.length) :
    setRange r a cells = r.take a ++ cells ++ r.drop (a + cells.length) := by
  apply List.ext_getElem?; intro i
  rw [getElem?_setRange, List.append_assoc, List.getElem?_append, List.getElem?_append]
  simp only [List.length_take, Nat.min_eq_left (show a ≤ r.length by omega)]
  by_cases h1 : i < a
  · rw [if_pos h1, if_neg (by omega), List.getElem?_take, if_pos h1]
  · rw [if_neg h1]
    by_cases h2 : i - a < cells.length
    · rw [if_pos h2, if_pos ⟨by omega, by omega, by omega⟩]
    · rw [if_neg h2, if_neg (by omega), List.getElem?_drop]; congr 1; omega

theorem charCells_length (t : Bytes) (w : Nat) (st : Style) :
    (charCells t w st).length = 1 + (w - 1) := by simp [charCells]; omega

theorem getElem?_charCells (t : Bytes) (w : Nat) (st : Style) (i : Nat) :
    (charCells t w st)[i]? =
      if i = 0 then some ⟨.ch t w, st⟩ else if i < w then some ⟨.cont, st⟩ else none := by
  unfold charCells
  cases i with
  | zero => simp
  | succ i =>
    rw [List.getElem?_cons_succ, List.getElem?_replicate]
    have h0 : ¬ (i + 1 = 0) := by omega
    rw [if_neg h0]
    by_cases h : i < w - 1
    · rw [if_pos h, if_pos (by omega)]
    · rw [if_neg h, if_neg (by omega)]

/-! ### compositional well-formedness -/

theorem contAt_append (r1 r2 : Row) (k : Nat) :
    contAt (r1 ++ r2) k = if k < r1.length then contAt r1 k else contAt r2 (k - r1.length) := by
  unfold contAt; rw [List.getElem?_append]
  by_cases h : k < r1.length <;> simp only [h, ↓reduceIte]

theorem contAt_take (r : Row) (n k : Nat) :
    contAt (r.take n) k = if k < n then contAt r k else false := by
  unfold contAt; rw [List.getElem?_take]
  by_cases h : k < n <;> simp only [h, ↓reduceIte]

theorem contAt_drop (r : Row) (n k : Nat) : contAt (r.drop n) k = contAt r (n + k) := by
  unfold contAt; rw [List.getElem?_drop]

theorem rowWF_append {r1 r2 : Row} (h1 : rowWF r1 = true) (h2 : rowWF r2 = true) :
    rowWF (r1 ++ r2) = true := by
  obtain ⟨a0, A⟩ := (rowWF_iff r1).1 h1
  obtain ⟨b0, Bq⟩ := (rowWF_iff r2).1 h2
  rw [rowWF_iff]
  refine ⟨?_, ?_⟩
  · rw [contAt_append]; split
    · exact a0
    · simpa using b0
  · intro i t w st hi
    rw [List.getElem?_append] at hi
    rw [List.length_append]
    by_cases h : i < r1.length
    · rw [if_pos h] at hi
      obtain ⟨a, b, c, d⟩ := A i t w st hi
      refine ⟨a, by omega, ?_, ?_⟩
      · intro k hk1 hk2; rw [contAt_append, if_pos (by omega)]; exact c k hk1 hk2
      · rw [contAt_append]; split
        · exact d
        · have : i + w - r1.length = 0 := by omega
          rw [this]; exact b0
    · rw [if_neg h] at hi
      obtain ⟨a, b, c, d⟩ := Bq (i - r1.length) t w st hi
      refine ⟨a, by omega, ?_, ?_⟩
      · intro k hk1 hk2; rw [contAt_append, if_neg (by omega)]; exact c _ (by omega) (by omega)
      · rw [contAt_append, if_neg (by omega)]
        have : i + w - r1.length = i - r1.length + w := by omega
        rw [this]; exact d

theorem rowWF_take {r : Row} {n : Nat} (h : rowWF r = true) (hb : contAt r n = false) :
    rowWF (r.take n) = true := by
  obtain ⟨a0, A⟩ := (rowWF_iff r).1 h
  rw [rowWF_iff]
  refine ⟨?_, ?_⟩
  · rw [contAt_take]; split
    · exact a0
    · rfl
  · intro i t w st hi
    rw [List.getElem?_take] at hi
    by_cases hin : i < n
    · rw [if_pos hin] at hi
      obtain ⟨a, b, c, d⟩ := A i t w st hi
      have hle : i + w ≤ n := by
        false_or_by_contra
        have := c n (by omega) (by omega); rw [this] at hb; cases hb
      refine ⟨a, by rw [List.length_take]; omega, ?_, ?_⟩
      · intro k hk1 hk2; rw [contAt_take, if_pos (by omega)]; exact c k hk1 hk2
      · rw [contAt_take]; split
        · exact d
        · rfl
    · rw [if_neg hin] at hi; cases hi

theorem rowWF_drop {r : Row} {n : Nat} (h : rowWF r = true) (hb : contAt r n = false) :
    rowWF (r.drop n) = true := by
  obtain ⟨a0, A⟩ := (rowWF_iff r).1 h
  rw [rowWF_iff]
  refine ⟨?_, ?_⟩
  · rw [contAt_drop]; exact hb
  · intro i t w st hi
    rw [List.getElem?_drop] at hi
    obtain ⟨a, b, c, d⟩ := A (n + i) t w st hi
    refine ⟨a, by rw [List.length_drop]; omega, ?_, ?_⟩
    · intro k hk1 hk2; rw [contAt_drop]; exact c _ (by omega) (by omega)
    · rw [contAt_drop]
      have : n + (i + w) = n + i + w := by omega
      rw [this]; exact d

theorem contAt_blanks (n : Nat) (st : Style) (x : Nat) :
    contAt (List.replicate n (blank st)) x = false := contAt_blankRow n st x

theorem rowWF_blanks (n : Nat) (st : Style) : rowWF (List.replicate n (blank st)) = true := by
  rw [rowWF_iff]
  refine ⟨contAt_blanks n st 0, ?_⟩
  intro i t w st' hi
  rw [List.getElem?_replicate] at hi
  split at hi
  · simp only [blank, Option.some.injEq, Cell.mk.injEq, Glyph.ch.injEq] at hi
    obtain ⟨⟨_, rfl⟩, _⟩ := hi
    refine ⟨Nat.le_refl _, by simp; omega, fun k h1 h2 => by omega, contAt_blanks n st _⟩
  · cases hi

theorem rowWF_charCells (t : Bytes) (w : Nat) (st : Style) (hw : 1 ≤ w) :
    rowWF (charCells t w st) = true := by
  rw [rowWF_iff]
  refine ⟨contAt_ch (t := t) (w := w) (st := st) (by rw [getElem?_charCells]; simp), ?_⟩
  intro i t' w' st' hi
  rw [getElem?_charCells] at hi
  by_cases h0 : i = 0
  · subst h0
    simp only [if_true, Option.some.injEq, Cell.mk.injEq, Glyph.ch.injEq] at hi
    obtain ⟨⟨rfl, rfl⟩, rfl⟩ := hi
    refine ⟨hw, by rw [charCells_length]; omega, ?_, ?_⟩
    · intro k h1 h2
      apply contAt_cont (st := st)
      rw [getElem?_charCells, if_neg (by omega), if_pos (by omega)]
    · apply contAt_none
      rw [getElem?_charCells, if_neg (by omega), if_neg (by omega)]
  · rw [if_neg h0] at hi
    split at hi <;> simp at hi

/-- a row is well formed and every character in it has a width satisfying `B` -/
def okRow (B : Nat → Prop) (r : Row) : Prop :=
  rowWF r = true ∧ ∀ t w st, (⟨.ch t w, st⟩ : Cell) ∈ r → B w

theorem ok_append {B : Nat → Prop} {r1 r2 : Row} (h1 : okRow B r1) (h2 : okRow B r2) :
    okRow B (r1 ++ r2) :=
  ⟨rowWF_append h1.1 h2.1, fun t w st hm => by
    rcases List.mem_append.1 hm with hm | hm
    · exact h1.2 t w st hm
    · exact h2.2 t w st hm⟩

theorem ok_take {B : Nat → Prop} {r : Row} {n : Nat} (h : okRow B r) (hb : contAt r n = false) :
    okRow B (r.take n) :=
  ⟨rowWF_take h.1 hb, fun t w st hm => h.2 t w st (List.mem_of_mem_take hm)⟩

theorem ok_drop {B : Nat → Prop} {r : Row} {n : Nat} (h : okRow B r) (hb : contAt r n = false) :
    okRow B (r.drop n) :=
  ⟨rowWF_drop h.1 hb, fun t w st hm => h.2 t w st (List.mem_of_mem_drop hm)⟩

theorem ok_blanks {B : Nat → Prop} (hB1 : B 1) (n : Nat) (st : Style) :
    okRow B (List.replicate n (blank st)) :=
  ⟨rowWF_blanks n st, fun t w st' hm => by
    have := (List.mem_replicate.1 hm).2
    simp only [blank, Cell.mk.injEq, Glyph.ch.injEq] at this
    rw [this.1.2]; exact hB1⟩

theorem ok_charCells {B : Nat → Prop} {t : Bytes} {w : Nat} {st : Style} (hw : 1 ≤ w) (hBw : B w) :
    okRow B (charCells t w st) :=
  ⟨rowWF_charCells t w st hw, fun t' w' st' hm => by
    unfold charCells at hm
    rcases List.mem_cons.1 hm with hm | hm
    · simp only [Cell.mk.injEq, Glyph.ch.injEq] at hm
      rw [hm.1.2]; exact hBw
    · have := (List.mem_replicate.1 hm).2
      simp at this⟩

theorem ok_blankRange {B : Nat → Prop} (hB1 : B 1) {r : Row} {a n : Nat} {st : Style}
    (h : okRow B r) (ha : contAt r a = false) (hb : contAt r (a + n) = false)
    (hl : a + n ≤ r.length) : okRow B (blankRange r a n st) := by
  rw [blankRange_eq r a n st hl]
  exact ok_append (ok_append (ok_take h ha) (ok_blanks hB1 n st)) (ok_drop h hb)

/-! ### `blankCharAt`, `blankStraddlers` on well-formed rows -/

theorem ok_blankCharAt {B : Nat → Prop} (hB1 : B 1) {r : Row} (h : okRow B r) (x : Nat)
    (st : Style) :
    okRow B (blankCharAt r x st) ∧ contAt (blankCharAt r x st) x = false ∧
      ∀ k, contAt (blankCharAt r x st) k = true → contAt r k = true := by
  by_cases hx : x < r.length
  · obtain ⟨t, cw, st', hhd, h1, h2, h3, h4, h5⟩ := wf_head h.1 hx
    have hw : widthAt r (headOf r x) = cw := by rw [widthAt_ch hhd]; omega
    have hle := headOf_le r x
    unfold blankCharAt
    simp only [hw]
    split
    · next hc => exact ⟨h, by simpa using hc.2, fun k hk => hk⟩
    · exact ⟨ok_blankRange hB1 h h4 h5 h3, contAt_blankRange_in hle h2,
        fun k => contAt_blankRange_imp⟩
  · have hc : contAt r x = false := contAt_ge (by omega)
    have hhd : headOf r x = x := headOf_of_not_cont hc
    have hw : widthAt r x = 1 := by unfold widthAt; rw [List.getElem?_eq_none (by omega)]
    unfold blankCharAt
    simp only [hhd, hw, hc]
    simp only [Nat.le_refl, Bool.not_false, and_self, if_true]
    exact ⟨h, hc, fun k hk => hk⟩

@[simp] theorem blankStraddlers_length (r : Row) (a b : Nat) (st : Style) :
    (blankStraddlers r a b st).length = r.length := by
  unfold blankStraddlers
  simp only
  split <;> split <;> simp

theorem ok_blankStraddlers {B : Nat → Prop} (hB1 : B 1) {r : Row} (h : okRow B r) (a b : Nat)
    (st : Style) :
    okRow B (blankStraddlers r a b st) ∧ contAt (blankStraddlers r a b st) a = false ∧
      contAt (blankStraddlers r a b st) b = false := by
  have key : ∀ r1 : Row, okRow B r1 → contAt r1 a = false →
      okRow B (if contAt r1 b = true then blankCharAt r1 b st else r1) ∧
      contAt (if contAt r1 b = true then blankCharAt r1 b st else r1) a = false ∧
      contAt (if contAt r1 b = true then blankCharAt r1 b st else r1) b = false := by
    intro r1 o1 c1
    by_cases hb : contAt r1 b = true
    · rw [if_pos hb]
      obtain ⟨o2, c2, m2⟩ := ok_blankCharAt hB1 o1 b st
      refine ⟨o2, ?_, c2⟩
      cases hq : contAt (blankCharAt r1 b st) a with
      | false => rfl
      | true => rw [m2 a hq] at c1; cases c1
    · rw [if_neg hb]; exact ⟨o1, c1, by simpa using hb⟩
  unfold blankStraddlers
  simp only
  by_cases ha : contAt r a = true
  · rw [if_pos ha]
    obtain ⟨o1, c1, _⟩ := ok_blankCharAt hB1 h a st
    exact key _ o1 c1
  · rw [if_neg ha]
    exact key _ h (by simpa using ha)

/-! ### `Row.put`, `Row.erase`, `Row.dch` -/

@[simp] theorem put_length (r : Row) (x : Nat) (t : Bytes) (w : Nat) (st : Style) :
    (r.put x t w st).length = r.length := by simp [Row.put]

theorem ok_put {B : Nat → Prop} (hB1 : B 1) {r : Row} (h : okRow B r) {x w : Nat} (t : Bytes)
    (st : Style) (hw : 1 ≤ w) (hxw : x + w ≤ r.length) (hBw : B w) :
    okRow B (r.put x t w st) := by
  obtain ⟨o, ca, cb⟩ := ok_blankStraddlers hB1 h x (x + w) st
  unfold Row.put
  have hl : (charCells t w st).length = w := by rw [charCells_length]; omega
  rw [setRange_eq _ _ _ (by rw [hl]; simpa using hxw), hl]
  exact ok_append (ok_append (ok_take o ca) (ok_charCells hw hBw)) (ok_drop o cb)

@[simp] theorem erase_length (r : Row) (a b : Nat) (st : Style) :
    (r.erase a b st).length = r.length := by
  unfold Row.erase
  simp only
  split <;> simp

theorem ok_erase {B : Nat → Prop} (hB1 : B 1) {r : Row} (h : okRow B r) (a b : Nat) (st : Style) :
    okRow B (r.erase a b st) := by
  unfold Row.erase
  simp only
  split
  · exact h
  · next hab =>
    obtain ⟨o, ca, cb⟩ := ok_blankStraddlers hB1 h a (min b r.length) st
    apply ok_blankRange hB1 o ca
    · have : a + (min b r.length - a) = min b r.length := by omega
      rw [this]; exact cb
    · simp; omega

@[simp] theorem dch_length (r : Row) (x n : Nat) (st : Style) :
    (r.dch x n st).length = r.length := by
  unfold Row.dch
  simp only
  split
  · rfl
  · simp; omega

theorem ok_dch {B : Nat → Prop} (hB1 : B 1) {r : Row} (h : okRow B r) (x n : Nat) (st : Style) :
    okRow B (r.dch x n st) := by
  unfold Row.dch
  simp only
  split
  · exact h
  · obtain ⟨o, ca, cb⟩ := ok_blankStraddlers hB1 h x (x + min n (r.length - x)) st
    exact ok_append (ok_append (ok_take o ca) (ok_drop o cb)) (ok_blanks hB1 _ st)

/-! ### `fixTail` (no longer used by the model) -/

@[simp] theorem fixTail_length (r : Row) (st : Style) : (fixTail r st).length = r.length := by
  unfold fixTail
  split
  · next h =>
    split
    · have hne : r ≠ [] := by intro e; subst e; simp at h
      have := List.length_pos_iff.2 hne
      simp; omega
    · rfl
  · rfl

/-! ### `fitRow` -/

theorem getElem?_takeBlanks (r : Row) (n m : Nat) (st : Style) (hn : n ≤ r.length) (i : Nat) :
    (r.take n ++ List.replicate m (blank st))[i]? =
      if i < n then r[i]? else if i < n + m then some (blank st) else none := by
  rw [List.getElem?_append]
  simp only [List.length_take, Nat.min_eq_left hn]
  by_cases h1 : i < n
  · rw [if_pos h1, if_pos h1, List.getElem?_take, if_pos h1]
  · rw [if_neg h1, if_neg h1, List.getElem?_replicate]
    by_cases h2 : i < n + m
    · rw [if_pos h2, if_pos (by omega)]
    · rw [if_neg h2, if_neg (by omega)]


theorem ok_fitRow {B : Nat → Prop} (hB1 : B 1) {r : Row} (h : okRow B r) (w : Nat) (st : Style) :
    okRow B (fitRow r w st) := by
  by_cases hc : contAt r w = true
  · have hw := contAt_lt hc
    have hle := headOf_le r w
    obtain ⟨t, cw, st', hhd, h1, h2, h3, h4, h5⟩ := wf_head h.1 hw
    have : fitRow r w st = r.take (headOf r w) ++ List.replicate (w - headOf r w) (blank st) := by
      apply List.ext_getElem?
      intro x
      rw [getElem?_takeBlanks r _ _ st (by omega)]
      by_cases hx : x < w
      · rw [getElem?_fitRow_old r w st x hx (by omega), widthAt_ch hhd]
        by_cases hx2 : x < headOf r w
        · have hn : ¬ (contAt r w = true ∧ headOf r w ≤ x ∧ x < headOf r w + max cw 1) :=
            fun h => by omega
          rw [if_neg hn, if_pos hx2]
        · have hp : contAt r w = true ∧ headOf r w ≤ x ∧ x < headOf r w + max cw 1 :=
            ⟨hc, by omega, by omega⟩
          rw [if_pos hp, if_neg hx2, if_pos (by omega)]
      · rw [List.getElem?_eq_none (by simp; omega), if_neg (by omega), if_neg (by omega)]
    rw [this]
    exact ok_append (ok_take h h4) (ok_blanks hB1 _ st)
  · have hc' : contAt r w = false := by simpa using hc
    unfold fitRow
    simp only [hc']
    split
    · exact ok_take h hc'
    · exact ok_append h (ok_blanks hB1 _ st)

/-! ### `cutRow`, `Row.putKeep` -/

/-- a row at least `W` long cut back to `W` cells is `fitRow` -/
theorem cutRow_eq_fitRow {r : Row} {W : Nat} (st : Style) (h : W ≤ r.length) :
    cutRow r W st = fitRow r W st := by
  unfold cutRow fitRow
  rw [if_pos (show r.length ≥ W from h)]

theorem cutRow_length {r : Row} {W : Nat} (st : Style) (h : W ≤ r.length) :
    (cutRow r W st).length = W := by
  rw [cutRow_eq_fitRow st h, fitRow_length]

/-- `Row.putKeep` on a well-formed row (characters of ANY width), called on a continuation
    cell with the new character fitting in the row: the result is well formed, has the same
    length, and the kept character ends inside the row, after the cursor -/
theorem ok_putKeep {B : Nat → Prop} (hB1 : B 1) {r : Row}
    (h : okRow B r) {x w : Nat} (t : Bytes) (st : Style) (hc : contAt r x = true) (hw : 1 ≤ w)
    (hxw : x + w ≤ r.length) (hBw : B w) :
    okRow B (r.putKeep x t w st) ∧ (r.putKeep x t w st).length = r.length ∧
      x < headOf r x + widthAt r (headOf r x) ∧
      headOf r x + widthAt r (headOf r x) ≤ r.length ∧ 0 < x := by
  have hx : x < r.length := contAt_lt hc
  obtain ⟨tt, cw, st', hhd, h1, h2, h3, h4, h5⟩ := wf_head h.1 hx
  have hwd : widthAt r (headOf r x) = cw := by rw [widthAt_ch hhd]; omega
  have hle := headOf_le r x
  have hx0 : 0 < x := by
    false_or_by_contra
    have : x = 0 := by omega
    subst this
    rw [((rowWF_iff r).1 h.1).1] at hc; cases hc
  have R1 : ∃ r1, (if contAt r (x + w) = true then blankCharAt r (x + w) st else r) = r1 ∧
      okRow B r1 ∧ r1.length = r.length ∧ contAt r1 (x + w) = false := by
    by_cases hq : contAt r (x + w) = true
    · rw [if_pos hq]
      obtain ⟨o1, c1, m1⟩ := ok_blankCharAt hB1 h (x + w) st
      exact ⟨_, rfl, o1, by simp, c1⟩
    · rw [if_neg hq]; exact ⟨_, rfl, h, rfl, by simpa using hq⟩
  obtain ⟨r1, e1, o1, l1, c1⟩ := R1
  have T : ∃ tail, (if x + w < headOf r x + cw
        then List.replicate (headOf r x + cw - (x + w)) (blank st) ++ r.drop (headOf r x + cw)
        else r1.drop (x + w)) = tail ∧ okRow B tail ∧
      r.length ≤ headOf r x + cw + w + tail.length := by
    by_cases hq : x + w < headOf r x + cw
    · rw [if_pos hq]
      refine ⟨_, rfl, ok_append (ok_blanks hB1 _ st) (ok_drop h h5), ?_⟩
      simp only [List.length_append, List.length_replicate, List.length_drop]
      omega
    · rw [if_neg hq]
      refine ⟨_, rfl, ok_drop o1 c1, ?_⟩
      simp only [List.length_drop, l1]
      omega
  obtain ⟨tail, e2, o2, l2⟩ := T
  have o3 : okRow B (r.take (headOf r x + cw) ++ charCells t w st ++ tail) :=
    ok_append (ok_append (ok_take h h5) (ok_charCells hw hBw)) o2
  have l3 : r.length ≤ (r.take (headOf r x + cw) ++ charCells t w st ++ tail).length := by
    simp only [List.length_append, List.length_take, charCells_length]
    omega
  unfold Row.putKeep
  simp only [hwd, e1, e2]
  rw [cutRow_eq_fitRow st l3]
  exact ⟨ok_fitRow hB1 o3 _ st, fitRow_length .., h2, h3, hx0⟩

theorem ok_blankRow {B : Nat → Prop} (hB1 : B 1) (w : Nat) (st : Style) : okRow B (blankRow w st) :=
  ok_blanks hB1 w st

/-! ### what the dispatcher needs from an invariant on rows -/

/-- `P` is an invariant on rows that all row operations used under policy `pol` preserve, for
    new characters whose width satisfies `Wd` -/
structure RowInv (pol : WidePolicy) (Wd : Nat → Prop) (P : Row → Prop) : Prop where
  one : Wd 1
  blank : ∀ w st, P (blankRow w st)
  erase : ∀ {r : Row}, P r → ∀ a b st, P (r.erase a b st)
  dch : ∀ {r : Row}, P r → ∀ x n st, P (r.dch x n st)
  put : ∀ {r : Row} {x w : Nat}, P r → ∀ (t : Bytes) (st : Style), 1 ≤ w → x + w ≤ r.length →
    Wd w → P (r.put x t w st)
  putKeep : pol = .keep → ∀ {r : Row} {x w : Nat}, P r → ∀ (t : Bytes) (st : Style),
    contAt r x = true → 1 ≤ w → x + w ≤ r.length → Wd w →
    P (r.putKeep x t w st) ∧ (r.putKeep x t w st).length = r.length ∧
      x < headOf r x + widthAt r (headOf r x) ∧
      headOf r x + widthAt r (headOf r x) ≤ r.length ∧ 0 < x
  fit : ∀ {r : Row}, P r → ∀ w st, P (fitRow r w st)

/-- well-formed rows with widths in `B` -/
theorem rowInv_ok (pol : WidePolicy) (B : Nat → Prop) (hB1 : B 1) : RowInv pol B (okRow B) where
  one := hB1
  blank := fun w st => ok_blankRow hB1 w st
  erase := fun h a b st => ok_erase hB1 h a b st
  dch := fun h x n st => ok_dch hB1 h x n st
  put := fun h t st hw hxw hBw => ok_put hB1 h t st hw hxw hBw
  putKeep := fun _ _ _ _ h t st hc hw hxw hBw => ok_putKeep hB1 h t st hc hw hxw hBw
  fit := fun h w st => ok_fitRow hB1 h w st

/-- under the `blank` policy the trivial row invariant will do (lengths are kept by every row
    operation unconditionally) -/
theorem rowInv_trivial : RowInv .blank (fun _ => True) (fun _ => True) where
  one := trivial
  blank := fun _ _ => trivial
  erase := fun _ _ _ _ => trivial
  dch := fun _ _ _ _ => trivial
  put := fun _ _ _ _ _ _ => trivial
  putKeep := fun hp => by cases hp
  fit := fun _ _ _ => trivial

/-! ### screens -/

/-- the screen invariant: geometry, and every row satisfies `P` -/
def SOk (P : Row → Prop) (s : Scr) : Prop := s.geo ∧ ∀ r ∈ s.grid, P r

/-- `s` is a valid screen of the same size as `s0` -/
def Keeps (P : Row → Prop) (s0 s : Scr) : Prop := SOk P s ∧ s.w = s0.w ∧ s.h = s0.h

section Screens
variable {P : Row → Prop} {Wd : Nat → Prop} {pol : WidePolicy}

theorem keeps_refl {s : Scr} (h : SOk P s) : Keeps P s s := ⟨h, rfl, rfl⟩

theorem SOk.wpos {s : Scr} (h : SOk P s) : 1 ≤ s.w := h.1.1
theorem SOk.hpos {s : Scr} (h : SOk P s) : 1 ≤ s.h := h.1.2.1
theorem SOk.glen {s : Scr} (h : SOk P s) : s.grid.length = s.h := h.1.2.2.1
theorem SOk.rlen {s : Scr} (h : SOk P s) : ∀ r ∈ s.grid, r.length = s.w := h.1.2.2.2.1
theorem SOk.cxlt {s : Scr} (h : SOk P s) : s.cx < s.w := h.1.2.2.2.2.1
theorem SOk.cylt {s : Scr} (h : SOk P s) : s.cy < s.h := h.1.2.2.2.2.2.1
theorem SOk.sxlt {s : Scr} (h : SOk P s) : s.sx < s.w := h.1.2.2.2.2.2.2.1
theorem SOk.sylt {s : Scr} (h : SOk P s) : s.sy < s.h := h.1.2.2.2.2.2.2.2.1
theorem SOk.tb {s : Scr} (h : SOk P s) : s.top ≤ s.bot := h.1.2.2.2.2.2.2.2.2.1
theorem SOk.botlt {s : Scr} (h : SOk P s) : s.bot < s.h := h.1.2.2.2.2.2.2.2.2.2

theorem keeps_grid {s0 s : Scr} (hk : Keeps P s0 s) {g : List Row} (hl : g.length = s.h)
    (hr : ∀ r ∈ g, r.length = s.w ∧ P r) : Keeps P s0 { s with grid := g } := by
  obtain ⟨⟨⟨a, b, c, d, e, f, g', i, j, k⟩, o⟩, hw, hh⟩ := hk
  exact ⟨⟨⟨a, b, hl, fun r m => (hr r m).1, e, f, g', i, j, k⟩, fun r m => (hr r m).2⟩, hw, hh⟩

/-- only scalar fields change -/
theorem keeps_scalars {s0 s s' : Scr} (hk : Keeps P s0 s) (hw : s'.w = s.w) (hh : s'.h = s.h)
    (hg : s'.grid = s.grid) (hcx : s'.cx < s.w) (hcy : s'.cy < s.h) (hsx : s'.sx < s.w)
    (hsy : s'.sy < s.h) (htb : s'.top ≤ s'.bot) (hb : s'.bot < s.h) : Keeps P s0 s' := by
  obtain ⟨⟨⟨a, b, c, d, e, f, g', i, j, k⟩, o⟩, hw0, hh0⟩ := hk
  refine ⟨⟨⟨?_, ?_, ?_, ?_, ?_, ?_, ?_, ?_, htb, ?_⟩, ?_⟩, hw.trans hw0, hh.trans hh0⟩
  all_goals first | rw [hg, hw] | rw [hg, hh] | rw [hw] | rw [hh] | rw [hg]
  all_goals assumption

theorem keeps_cx {s0 s : Scr} (hk : Keeps P s0 s) {x : Nat} (hx : x < s.w) :
    Keeps P s0 { s with cx := x } :=
  keeps_scalars hk rfl rfl rfl hx hk.1.cylt hk.1.sxlt hk.1.sylt hk.1.tb hk.1.botlt

theorem keeps_cy {s0 s : Scr} (hk : Keeps P s0 s) {y : Nat} (hy : y < s.h) :
    Keeps P s0 { s with cy := y } :=
  keeps_scalars hk rfl rfl rfl hk.1.cxlt hy hk.1.sxlt hk.1.sylt hk.1.tb hk.1.botlt

theorem keeps_sty {s0 s : Scr} (hk : Keeps P s0 s) (st : Style) : Keeps P s0 { s with sty := st } :=
  keeps_scalars hk rfl rfl rfl hk.1.cxlt hk.1.cylt hk.1.sxlt hk.1.sylt hk.1.tb hk.1.botlt

theorem keeps_wrap {s0 s : Scr} (hk : Keeps P s0 s) (v : Bool) : Keeps P s0 { s with wrap := v } :=
  keeps_scalars hk rfl rfl rfl hk.1.cxlt hk.1.cylt hk.1.sxlt hk.1.sylt hk.1.tb hk.1.botlt

theorem clampNat_le (v : Int) (hi : Nat) : clampNat v hi ≤ hi := by unfold clampNat; omega

theorem keeps_setCursor {s0 s : Scr} (hk : Keeps P s0 s) (x y : Int) :
    Keeps P s0 (s.setCursor x y) := by
  have h1 := clampNat_le x (s.w - 1)
  have h2 := clampNat_le y (s.h - 1)
  have := hk.1.wpos
  have := hk.1.hpos
  exact keeps_scalars hk rfl rfl rfl (by simp only [Scr.setCursor]; omega)
    (by simp only [Scr.setCursor]; omega) hk.1.sxlt hk.1.sylt hk.1.tb hk.1.botlt

theorem keeps_setMargins {s0 s : Scr} (hk : Keeps P s0 s) (t b : Int) :
    Keeps P s0 (s.setMargins t b) := by
  unfold Scr.setMargins
  simp only
  split
  · exact hk
  split
  · exact hk
  · have h2 := clampNat_le b (s.h - 1)
    have := hk.1.hpos
    exact keeps_scalars hk rfl rfl rfl hk.1.cxlt hk.1.cylt hk.1.sxlt hk.1.sylt
      (by simp only; omega) (by simp only; omega)

theorem keeps_saveCursor {s0 s : Scr} (hk : Keeps P s0 s) : Keeps P s0 s.saveCursor :=
  keeps_scalars hk rfl rfl rfl hk.1.cxlt hk.1.cylt hk.1.cxlt hk.1.cylt hk.1.tb hk.1.botlt

theorem keeps_restoreCursor {s0 s : Scr} (hk : Keeps P s0 s) : Keeps P s0 s.restoreCursor :=
  keeps_scalars hk rfl rfl rfl hk.1.sxlt hk.1.sylt hk.1.sxlt hk.1.sylt hk.1.tb hk.1.botlt

theorem row_mem {s : Scr} (h : SOk P s) {y : Nat} (hy : y < s.h) : s.row y ∈ s.grid := by
  have hy' : y < s.grid.length := by rw [h.glen]; exact hy
  simp only [Scr.row, List.getD_eq_getElem?_getD, List.getElem?_eq_getElem hy', Option.getD_some]
  exact List.getElem_mem hy'

theorem keeps_setRow {s0 s : Scr} (hk : Keeps P s0 s) (y : Nat) {r : Row} (hl : r.length = s.w)
    (ho : P r) : Keeps P s0 (s.setRow y r) := by
  unfold Scr.setRow
  apply keeps_grid hk (by simp; exact hk.1.glen)
  intro r' hm
  rcases List.mem_or_eq_of_mem_set hm with hm | rfl
  · exact ⟨hk.1.rlen r' hm, hk.1.2 r' hm⟩
  · exact ⟨hl, ho⟩

theorem keeps_scroll (I : RowInv pol Wd P) {s0 s : Scr} (hk : Keeps P s0 s) (y1 y2 : Nat) (d : Int) :
    Keeps P s0 (s.scroll y1 y2 d) := by
  unfold Scr.scroll
  simp only
  split
  · exact hk
  · next hcond =>
    have hgl := hk.1.glen
    have hold : ∀ r ∈ s.grid, r.length = s.w ∧ P r := fun r m => ⟨hk.1.rlen r m, hk.1.2 r m⟩
    have hblank : (blankRow s.w s.sty).length = s.w ∧ P (blankRow s.w s.sty) :=
      ⟨by simp [blankRow], I.blank _ _⟩
    apply keeps_grid hk
    · split <;> simp only [List.length_append, List.length_take, List.length_drop,
        List.length_replicate] <;> omega
    · intro r hm
      simp only [List.mem_append] at hm
      rcases hm with (hm | hm) | hm
      · exact hold r (List.mem_of_mem_take hm)
      · split at hm
        · rcases List.mem_append.1 hm with hm | hm
          · rw [(List.mem_replicate.1 hm).2]; exact hblank
          · exact hold r (List.mem_of_mem_drop (List.mem_of_mem_take (List.mem_of_mem_take hm)))
        · rcases List.mem_append.1 hm with hm | hm
          · exact hold r (List.mem_of_mem_drop (List.mem_of_mem_take (List.mem_of_mem_drop hm)))
          · rw [(List.mem_replicate.1 hm).2]; exact hblank
      · exact hold r (List.mem_of_mem_drop hm)

theorem keeps_lineDown (I : RowInv pol Wd P) {s0 s : Scr} (hk : Keeps P s0 s) : Keeps P s0 s.lineDown := by
  unfold Scr.lineDown
  split
  · exact keeps_scroll I hk _ _ _
  · split
    · next h => exact keeps_cy hk h
    · exact hk

theorem keeps_lineUp (I : RowInv pol Wd P) {s0 s : Scr} (hk : Keeps P s0 s) : Keeps P s0 s.lineUp := by
  unfold Scr.lineUp
  split
  · exact keeps_scroll I hk _ _ _
  · split
    · exact keeps_cy hk (by have := hk.1.cylt; omega)
    · exact hk

theorem keeps_eraseRegion (I : RowInv pol Wd P) {s0 s : Scr} (hk : Keeps P s0 s) (x1 y1 x2 y2 : Nat) :
    Keeps P s0 (s.eraseRegion x1 y1 x2 y2) := by
  unfold Scr.eraseRegion
  apply keeps_grid hk (by simp; exact hk.1.glen)
  intro r hm
  obtain ⟨i, hi, rfl⟩ := List.mem_mapIdx.1 hm
  have hmem : s.grid[i] ∈ s.grid := List.getElem_mem hi
  split
  · exact ⟨by rw [erase_length]; exact hk.1.rlen _ hmem, I.erase (hk.1.2 _ hmem) _ _ _⟩
  · exact ⟨hk.1.rlen _ hmem, hk.1.2 _ hmem⟩

theorem keeps_eraseRegionI (I : RowInv pol Wd P) {s0 s : Scr} (hk : Keeps P s0 s) (x1 y1 x2 y2 : Int) :
    Keeps P s0 (s.eraseRegionI x1 y1 x2 y2) := by
  unfold Scr.eraseRegionI
  exact keeps_eraseRegion I hk _ _ _ _

theorem keeps_dch (I : RowInv pol Wd P) {s0 s : Scr} (hk : Keeps P s0 s) (n : Nat) : Keeps P s0 (s.dch n) := by
  unfold Scr.dch
  have hm := row_mem hk.1 hk.1.cylt
  exact keeps_setRow hk _ (by rw [dch_length]; exact hk.1.rlen _ hm) (I.dch (hk.1.2 _ hm) _ _ _)

/-! ### `Scr.put` -/

def putPre (s : Scr) (w : Nat) : Scr :=
  if s.cx + w > s.w then
    (if s.wrap then ({ s with cx := 0 } : Scr).lineDown else { s with cx := s.w - w })
  else s

def putFinish (s2 : Scr) (x : Nat) : Scr :=
  if x < s2.w then { s2 with cx := x }
  else if s2.wrap then ({ s2 with cx := x - s2.w } : Scr).lineDown
  else { s2 with cx := s2.w - 1 }

theorem put_eq (pol : WidePolicy) (s : Scr) (text0 : Bytes) (w0 : Nat) :
    Scr.put pol s text0 w0 =
      (let text := if max w0 1 > s.w then replacementChar else text0
       let w := if max w0 1 > s.w then 1 else max w0 1
       let s1 := putPre s w
       let r := s1.row s1.cy
       let keep := contAt r s1.cx && pol == .keep
       putFinish
         (s1.setRow s1.cy (if keep then r.putKeep s1.cx text w s1.sty else r.put s1.cx text w s1.sty))
         (s1.cx + w + (if keep then headOf r s1.cx + widthAt r (headOf r s1.cx) - s1.cx else 0))) :=
  rfl

theorem lineDown_cx (s : Scr) : s.lineDown.cx = s.cx := by
  unfold Scr.lineDown Scr.scroll
  simp only
  split
  · split <;> rfl
  · split <;> rfl

theorem keeps_putPre (I : RowInv pol Wd P) {s0 s : Scr} (hk : Keeps P s0 s) {w : Nat} (hw1 : 1 ≤ w)
    (hw : w ≤ s.w) : Keeps P s0 (putPre s w) ∧ (putPre s w).cx + w ≤ (putPre s w).w := by
  unfold putPre
  split
  · split
    · have hk' := keeps_lineDown I (keeps_cx hk (x := 0) hk.1.wpos)
      refine ⟨hk', ?_⟩
      rw [lineDown_cx, hk'.2.1, ← hk.2.1]
      simp only; omega
    · exact ⟨keeps_cx hk (by omega), by simp only; omega⟩
  · exact ⟨hk, by omega⟩

theorem keeps_putFinish (I : RowInv pol Wd P) {s0 s2 : Scr} (hk : Keeps P s0 s2) (x : Nat)
    (hx : x - s2.w < s2.w) : Keeps P s0 (putFinish s2 x) := by
  unfold putFinish
  have := hk.1.wpos
  split
  · next h => exact keeps_cx hk h
  · split
    · exact keeps_lineDown I (keeps_cx hk hx)
    · exact keeps_cx hk (by omega)

/-- printable characters keep the screen invariant, under both policies, for every width allowed
    by the row invariant (`Wd` arbitrary) -/
theorem keeps_put (I : RowInv pol Wd P) {s0 s : Scr} (hk : Keeps P s0 s)
    (text0 : Bytes) (w0 : Nat) (hBw : Wd (max w0 1)) :
    Keeps P s0 (Scr.put pol s text0 w0) := by
  rw [put_eq]
  simp only
  generalize hwd : (if max w0 1 > s.w then 1 else max w0 1) = w
  generalize (if max w0 1 > s.w then replacementChar else text0) = text
  have hw1 : 1 ≤ w := by rw [← hwd]; split <;> omega
  have hws : w ≤ s.w := by have := hk.1.wpos; rw [← hwd]; split <;> omega
  have hBw' : Wd w := by rw [← hwd]; split; exact I.one; exact hBw
  obtain ⟨hk1, hfit⟩ := keeps_putPre I hk hw1 hws
  generalize putPre s w = s1 at hk1 hfit
  have hm := row_mem hk1.1 hk1.1.cylt
  have hrl := hk1.1.rlen _ hm
  have hro := hk1.1.2 _ hm
  by_cases hkeep : (contAt (s1.row s1.cy) s1.cx && pol == .keep) = true
  · simp only [hkeep, if_true]
    simp only [Bool.and_eq_true, beq_iff_eq] at hkeep
    obtain ⟨o, l, e1, e2, x0⟩ := I.putKeep hkeep.2 hro text s1.sty hkeep.1 hw1
      (by rw [hrl]; exact hfit) hBw'
    apply keeps_putFinish I (keeps_setRow hk1 _ (l.trans hrl) o)
    simp only [Scr.setRow]
    rw [hrl] at e2
    omega
  · simp only [hkeep]
    apply keeps_putFinish I (keeps_setRow hk1 _ (by rw [put_length]; exact hrl)
      (I.put hro text s1.sty hw1 (by rw [hrl]; exact hfit) hBw'))
    simp only [Scr.setRow]
    have := hk1.1.wpos
    simp only [Bool.false_eq_true, if_false]
    omega

/-! ### `Scr.resize` -/

theorem geo_resize (s : Scr) (w h : Nat) (hw : 1 ≤ w) (hh : 1 ≤ h) : (s.resize w h).geo := by
  refine ⟨hw, hh, ?_, ?_, ?_, ?_, ?_, ?_, ?_, ?_⟩
  · simp [Scr.resize]; omega
  · intro r hr
    simp only [Scr.resize, List.mem_append, List.mem_map, List.mem_replicate] at hr
    rcases hr with ⟨r0, _, rfl⟩ | ⟨_, rfl⟩
    · show (fitRow r0 w s.sty).length = w
      simp
    · show (blankRow w s.sty).length = w
      simp [blankRow]
  · simp only [Scr.resize]; split <;> omega
  · simp only [Scr.resize]; split <;> omega
  · simp only [Scr.resize]; split <;> omega
  · simp only [Scr.resize]; split <;> omega
  · simp only [Scr.resize, clampNat]; omega
  · simp only [Scr.resize, clampNat]; omega

theorem sok_resize (I : RowInv pol Wd P) (s : Scr) (hrows : ∀ r ∈ s.grid, P r) (w h : Nat)
    (hw : 1 ≤ w) (hh : 1 ≤ h) : SOk P (s.resize w h) := by
  refine ⟨geo_resize s w h hw hh, ?_⟩
  intro r hr
  simp only [Scr.resize, List.mem_append, List.mem_map, List.mem_replicate] at hr
  rcases hr with ⟨r0, hr0, rfl⟩ | ⟨_, rfl⟩
  · exact I.fit (hrows r0 (List.mem_of_mem_take hr0)) _ _
  · exact I.blank _ _

theorem sok_init (I : RowInv pol Wd P) (w h : Nat) (hw : 1 ≤ w) (hh : 1 ≤ h) : SOk P (Scr.init w h) := by
  refine ⟨⟨hw, hh, by simp [Scr.init], ?_, hw, hh, hw, hh, Nat.zero_le _, ?_⟩, ?_⟩
  · intro r hr
    simp only [Scr.init, List.mem_replicate] at hr
    rw [hr.2]; simp [blankRow, Scr.init]
  · simp only [Scr.init]; omega
  · intro r hr
    simp only [Scr.init, List.mem_replicate] at hr
    rw [hr.2]; exact I.blank _ _

end Screens

/-! ### terminals -/

/-- both buffers valid and of the same size -/
def TOk (P : Row → Prop) (t : Term) : Prop :=
  SOk P t.main ∧ SOk P t.alt ∧ t.main.w = t.alt.w ∧ t.main.h = t.alt.h

/-- what one step of the terminal guarantees: the invariant, unchanged size and policy, and
    every reported cursor position inside the screen -/
def Good (P : Row → Prop) (t : Term) (r : Term × List Ev) : Prop :=
  TOk P r.1 ∧ r.1.main.w = t.main.w ∧ r.1.main.h = t.main.h ∧ r.1.pol = t.pol ∧
  ∀ x y, Ev.cursor x y ∈ r.2 → x < t.main.w ∧ y < t.main.h

section Terms
variable {P : Row → Prop} {Wd : Nat → Prop} {pol : WidePolicy}

theorem scr_ok {t : Term} (h : TOk P t) :
    SOk P t.scr ∧ t.scr.w = t.main.w ∧ t.scr.h = t.main.h := by
  unfold Term.scr
  split
  · exact ⟨h.2.1, h.2.2.1.symm, h.2.2.2.symm⟩
  · exact ⟨h.1, rfl, rfl⟩

theorem good_same {t t' : Term} {evs : List Ev} (h : TOk P t) (hm : t'.main = t.main)
    (ha : t'.alt = t.alt) (hp : t'.pol = t.pol) (hev : ∀ x y, Ev.cursor x y ∉ evs) :
    Good P t (t', evs) := by
  refine ⟨?_, by rw [hm], by rw [hm], hp, fun x y hm' => absurd hm' (hev x y)⟩
  unfold TOk; rw [hm, ha]; exact h

theorem good_id {t : Term} {evs : List Ev} (h : TOk P t) (hev : ∀ x y, Ev.cursor x y ∉ evs) :
    Good P t (t, evs) := good_same h rfl rfl rfl hev

theorem good_setScr {t : Term} {s' : Scr} {evs : List Ev} (h : TOk P t) (hk : Keeps P t.scr s')
    (hev : ∀ x y, Ev.cursor x y ∈ evs → x < s'.w ∧ y < s'.h) : Good P t (t.setScr s', evs) := by
  obtain ⟨hs, hw, hh⟩ := scr_ok h
  obtain ⟨ok', w', h'⟩ := hk
  have hev' : ∀ x y, Ev.cursor x y ∈ evs → x < t.main.w ∧ y < t.main.h := by
    intro x y hm
    have := hev x y hm
    rw [w', h', hw, hh] at this; exact this
  unfold Term.setScr
  unfold Term.scr at w' h'
  split
  · next halt =>
    simp only [halt, if_true] at w' h'
    exact ⟨⟨h.1, ok', h.2.2.1.trans w'.symm, h.2.2.2.trans h'.symm⟩, rfl, rfl, rfl, hev'⟩
  · next halt =>
    simp only [halt] at w' h'
    exact ⟨⟨ok', h.2.1, w'.trans h.2.2.1, h'.trans h.2.2.2⟩, w', h', rfl, hev'⟩

theorem good_setScr_quiet {t : Term} {s' : Scr} {evs : List Ev} (h : TOk P t)
    (hk : Keeps P t.scr s') (hev : ∀ x y, Ev.cursor x y ∉ evs) : Good P t (t.setScr s', evs) :=
  good_setScr h hk (fun x y hm => absurd hm (hev x y))

theorem good_withScr {t : Term} {s' : Scr} (h : TOk P t) (hk : Keeps P t.scr s') :
    Good P t (t.withScr s') := by
  unfold Term.withScr
  apply good_setScr h hk
  intro x y hm
  simp only [List.mem_singleton, Ev.cursor.injEq] at hm
  obtain ⟨rfl, rfl⟩ := hm
  exact ⟨hk.1.cxlt, hk.1.cylt⟩

theorem good_trans {t : Term} {r1 r2 : Term × List Ev} (h1 : Good P t r1) (h2 : Good P r1.1 r2) :
    Good P t (r2.1, r1.2 ++ r2.2) := by
  obtain ⟨a1, b1, c1, d1, e1⟩ := h1
  obtain ⟨a2, b2, c2, d2, e2⟩ := h2
  refine ⟨a2, b2.trans b1, c2.trans c1, d2.trans d1, ?_⟩
  intro x y hm
  rcases List.mem_append.1 hm with hm | hm
  · exact e1 x y hm
  · have := e2 x y hm
    rw [b1, c1] at this; exact this

theorem good_ite {t : Term} {c : Prop} [Decidable c] {a b : Term × List Ev}
    (ha : c → Good P t a) (hb : ¬ c → Good P t b) : Good P t (if c then a else b) := by
  split
  · exact ha ‹_›
  · exact hb ‹_›

theorem good_setVFlag {t : Term} (h : TOk P t) (i : Nat) (v : Bool) : Good P t (t.setVFlag i v) :=
  good_same h rfl rfl rfl (by simp)

theorem good_setVInt {t : Term} (h : TOk P t) (i : Nat) (v : Int) : Good P t (t.setVInt i v) :=
  good_same h rfl rfl rfl (by simp)

theorem good_setVStr {t : Term} (h : TOk P t) (i : Nat) (v : Bytes) : Good P t (t.setVStr i v) :=
  good_same h rfl rfl rfl (by simp)

theorem good_setKbd {t : Term} (h : TOk P t) (k : Kbd) : Good P t (t.setKbd k, []) := by
  unfold Term.setKbd
  split
  · exact good_same h rfl rfl rfl (by simp)
  · exact good_same h rfl rfl rfl (by simp)

theorem good_switchScreen {t : Term} (h : TOk P t) (v : Bool) : Good P t (t.switchScreen v) := by
  unfold Term.switchScreen
  split
  · exact good_id h (by simp)
  · simp only
    have h' : TOk P { t with onAlt := v } := h
    obtain ⟨hs, hw, hh⟩ := scr_ok h'
    refine ⟨h, rfl, rfl, rfl, ?_⟩
    intro x y hm
    simp only [List.mem_cons, Ev.cursor.injEq, List.not_mem_nil, or_false, reduceCtorEq,
      false_or] at hm
    obtain ⟨rfl, rfl⟩ := hm
    exact ⟨hw ▸ hs.cxlt, hh ▸ hs.cylt⟩

theorem good_decMode {t : Term} (h : TOk P t) (p : Int) (v : Bool) : Good P t (t.decMode p v) := by
  unfold Term.decMode
  repeat' first
    | exact good_setVFlag h _ _
    | exact good_setVInt h _ _
    | exact good_switchScreen h _
    | exact good_id h (by simp)
    | exact good_setScr_quiet h (keeps_wrap (keeps_refl (scr_ok h).1) _) (by simp)
    | (apply good_ite <;> intro _)

theorem good_decModes {t : Term} (h : TOk P t) (v : Bool) (ps : List Int) :
    Good P t (t.decModes v ps) := by
  induction ps generalizing t with
  | nil => exact good_id h (by simp)
  | cons p ps ih =>
    simp only [Term.decModes]
    have h1 := good_decMode h p v
    exact good_trans h1 (ih h1.1)

section Dispatch
-- make mismatching alternatives of the `first` combinators below fail fast
attribute [local irreducible] Scr.eraseRegionI Scr.scroll Scr.setCursor Scr.dch Scr.setMargins
  Scr.saveCursor Scr.restoreCursor Scr.lineDown Scr.lineUp Scr.put Term.setScr

theorem good_csiPlain (I : RowInv pol Wd P) {t : Term} (h : TOk P t) (ps : List Int) (fin : UInt8) :
    Good P t (t.csiPlain ps fin) := by
  have hs := (scr_ok h).1
  have hk := keeps_refl hs
  unfold Term.csiPlain
  simp only
  repeat' first
    | (apply good_ite <;> intro _)
    | exact good_id h (by simp)
    | exact good_withScr h (keeps_setCursor hk _ _)
    | exact good_withScr h (keeps_restoreCursor hk)
    | exact good_setScr_quiet h (keeps_sty hk _) (by simp)
    | exact good_setScr_quiet h (keeps_saveCursor hk) (by simp)
    | exact good_setScr_quiet h (keeps_eraseRegionI I hk _ _ _ _) (by simp)
    | exact good_setScr_quiet h
        (keeps_eraseRegionI I (keeps_eraseRegionI I hk _ _ _ _) _ _ _ _) (by simp)
    | exact good_setScr_quiet h (keeps_scroll I hk _ _ _) (by simp)
    | exact good_setScr_quiet h (keeps_dch I hk _) (by simp)
    | exact good_setScr_quiet h (keeps_setMargins hk _ _) (by simp)
    | (have hk2 := keeps_setCursor
         (keeps_eraseRegionI I hk 0 0 (t.scr.w : Int) (t.scr.h : Int)) 0 0
       apply good_setScr h hk2
       intro x y hm
       simp only [List.mem_cons, Ev.cursor.injEq, List.not_mem_nil, or_false, reduceCtorEq,
         false_or] at hm
       obtain ⟨rfl, rfl⟩ := hm
       exact ⟨hk2.1.wpos, hk2.1.hpos⟩)

theorem good_csi (I : RowInv pol Wd P) {t : Term} (h : TOk P t) (pfx : UInt8) (ps : List Int) (fin : UInt8) :
    Good P t (t.csi pfx ps fin) := by
  unfold Term.csi
  repeat' first
    | exact good_csiPlain I h _ _
    | exact good_decModes h _ _
    | exact good_id h (by simp)
    | exact good_setVInt h _ _
    | exact good_setKbd h _
    | (apply good_ite <;> intro _)
    | split

theorem good_apply {t : Term} (I : RowInv t.pol Wd P) (cw : Nat → Nat)
    (hcw : ∀ cp, Wd (max (cw cp) 1)) (h : TOk P t) (tok : Tok) :
    Good P t (t.apply cw tok) := by
  have hs := (scr_ok h).1
  have hk := keeps_refl hs
  cases tok with
  | text stored cp =>
    simp only [Term.apply]
    have hk' := keeps_put I hk stored (cw cp) (hcw cp)
    apply good_setScr h hk'
    intro x y hm
    simp only [List.mem_cons, Ev.cursor.injEq, List.not_mem_nil, or_false, reduceCtorEq,
      false_or] at hm
    obtain ⟨rfl, rfl⟩ := hm
    exact ⟨hk'.1.cxlt, hk'.1.cylt⟩
  | ctl b =>
    simp only [Term.apply]
    repeat' first
      | (apply good_ite <;> intro _)
      | exact good_id h (by simp)
      | exact good_withScr h (keeps_cx hk (by have := hs.cxlt; omega))
      | exact good_withScr h (keeps_setCursor hk _ _)
      | exact good_withScr h (keeps_lineDown I (keeps_cx hk hs.wpos))
      | exact good_withScr h (keeps_lineDown I hk)
      | exact good_withScr h (keeps_cx hk hs.wpos)
  | esc inter fin =>
    simp only [Term.apply]
    repeat' first
      | (apply good_ite <;> intro _)
      | exact good_id h (by simp)
      | exact good_withScr h (keeps_lineDown I hk)
      | exact good_withScr h (keeps_lineUp I hk)
      | exact good_setVFlag h _ _
  | csi pfx ps clean fin =>
    simp only [Term.apply]
    split
    · exact good_csi I h _ _ _
    · exact good_id h (by simp)
  | osc num payload wf =>
    simp only [Term.apply]
    repeat' first
      | (apply good_ite <;> intro _)
      | exact good_id h (by simp)
      | exact good_setVStr h _ _
  | dcs => exact good_id h (by simp)

end Dispatch

end Terms

/-! ### the invariant in terms of `Scr.inv` -/

/-- the width bound that goes with a policy -/
def Bof (pol : WidePolicy) : Nat → Prop := fun w => pol = .keep → w ≤ 2

theorem Bof_one (pol : WidePolicy) : Bof pol 1 := fun _ => by omega

theorem rowInv_Bof (pol : WidePolicy) : RowInv pol (Bof pol) (okRow (Bof pol)) :=
  rowInv_ok pol _ (Bof_one pol)

theorem sok_iff (B : Nat → Prop) (s : Scr) :
    SOk (okRow B) s ↔ s.inv = true ∧ ∀ r ∈ s.grid, ∀ t w st, (⟨.ch t w, st⟩ : Cell) ∈ r → B w := by
  simp only [SOk, Scr.geo, okRow, Scr.inv, Bool.and_eq_true, decide_eq_true_eq, List.all_eq_true,
    ge_iff_le]
  constructor
  · rintro ⟨⟨a, b, c, d, e, f, g, i, j, k⟩, o⟩
    exact ⟨⟨⟨⟨⟨⟨⟨⟨⟨⟨a, b⟩, c⟩, fun r m => ⟨d r m, (o r m).1⟩⟩, e⟩, f⟩, g⟩, i⟩, j⟩, k⟩,
      fun r m => (o r m).2⟩
  · rintro ⟨⟨⟨⟨⟨⟨⟨⟨⟨⟨a, b⟩, c⟩, d⟩, e⟩, f⟩, g⟩, i⟩, j⟩, k⟩, o⟩
    exact ⟨⟨a, b, c, fun r m => (d r m).1, e, f, g, i, j, k⟩, fun r m => ⟨(d r m).2, o r m⟩⟩

/-- no condition on widths -/
def Top : Nat → Prop := fun _ => True

theorem rowInv_top (pol : WidePolicy) : RowInv pol Top (okRow Top) := rowInv_ok pol _ trivial

theorem wf_iff (t : Term) : t.wf ↔ TOk (okRow Top) t := by
  unfold Term.wf Term.inv TOk
  rw [sok_iff, sok_iff]
  constructor
  · rintro ⟨a, b, c, d⟩
    exact ⟨⟨a, fun _ _ _ _ _ _ => trivial⟩, ⟨b, fun _ _ _ _ _ _ => trivial⟩, c, d⟩
  · rintro ⟨⟨a, _⟩, ⟨b, _⟩, c, d⟩
    exact ⟨a, b, c, d⟩

theorem wfNarrow_iff (t : Term) : t.wfNarrow ↔ TOk (okRow (Bof t.pol)) t := by
  unfold Term.wfNarrow Term.inv TOk
  rw [sok_iff, sok_iff]
  unfold Scr.narrow Bof
  constructor
  · rintro ⟨⟨a, b, c, d⟩, n⟩
    exact ⟨⟨a, fun r m t' w st hm hp => (n hp).1 r m t' w st hm⟩,
      ⟨b, fun r m t' w st hm hp => (n hp).2 r m t' w st hm⟩, c, d⟩
  · rintro ⟨⟨a, n1⟩, ⟨b, n2⟩, c, d⟩
    exact ⟨⟨a, b, c, d⟩, fun hp => ⟨fun r m t' w st hm => n1 r m t' w st hm hp,
      fun r m t' w st hm => n2 r m t' w st hm hp⟩⟩

theorem tok_geo {P : Row → Prop} {t : Term} (h : TOk P t) : t.geo := ⟨h.1.1, h.2.1.1, h.2.2⟩

theorem good_apply_wf (cw : Nat → Nat) (t : Term) (h : t.wf) (tok : Tok) :
    Good (okRow Top) t (t.apply cw tok) :=
  good_apply (rowInv_top t.pol) cw (fun _ => trivial) ((wf_iff t).1 h) tok

theorem good_apply_wfNarrow (cw : Nat → Nat) (t : Term) (hcw : WidthOK t.pol cw) (h : t.wfNarrow)
    (tok : Tok) : Good (okRow (Bof t.pol)) t (t.apply cw tok) := by
  apply good_apply (rowInv_Bof t.pol) cw _ ((wfNarrow_iff t).1 h)
  intro cp hp
  have := hcw hp cp
  omega

end Lemmas
open Lemmas

/-! ## 1. the initial state -/

theorem init_wf (pol : WidePolicy) (w h : Nat) (hw : 1 ≤ w) (hh : 1 ≤ h) : (Term.init pol w h).wf :=
  (wf_iff _).2 ⟨sok_init (rowInv_top pol) w h hw hh, sok_init (rowInv_top pol) w h hw hh, rfl, rfl⟩

theorem init_geo (pol : WidePolicy) (w h : Nat) (hw : 1 ≤ w) (hh : 1 ≤ h) : (Term.init pol w h).geo :=
  tok_geo ((wf_iff _).1 (init_wf pol w h hw hh))

/-- the invariant of reachable states contains the geometric invariant -/
theorem wf_geo {t : Term} (h : t.wf) : t.geo := tok_geo ((wf_iff t).1 h)

/-- … and `Scr.inv` for both buffers -/
theorem wf_inv {t : Term} (h : t.wf) : t.main.inv = true ∧ t.alt.inv = true := ⟨h.1, h.2.1⟩

/-! ## 2. every token -/

/-- Every token — text of any bytes and any width, every control, every CSI with arbitrary
    parameters, OSC, DCS, ESC — keeps the invariant of reachable states: `Scr.inv` on both
    buffers, equal sizes. Under BOTH policies the width function is arbitrary (characters of
    width 3, 4, … included). -/
theorem apply_wf (cw : Nat → Nat) (t : Term) (h : t.wf) (tok : Tok) :
    (t.apply cw tok).1.wf := by
  obtain ⟨a, _, _, d, _⟩ := good_apply_wf cw t h tok
  rw [wf_iff]; exact a

/-- the geometric invariant after every token -/
theorem apply_geo (cw : Nat → Nat) (t : Term) (h : t.wf) (tok : Tok) :
    (t.apply cw tok).1.geo := wf_geo (apply_wf cw t h tok)

/-- `Scr.inv` of both buffers is preserved by every token, for EVERY width function and both
    policies (`Term.wf` spelled out) -/
theorem apply_inv (cw : Nat → Nat) (t : Term) (h : t.inv) (tok : Tok) : (t.apply cw tok).1.inv :=
  apply_wf cw t h tok

/-- the earlier, stronger invariant is still preserved when the width function is bounded by 2
    under the `keep` policy: then no stored character is ever wider than 2 cells -/
theorem apply_wfNarrow (cw : Nat → Nat) (t : Term) (hcw : WidthOK t.pol cw) (h : t.wfNarrow)
    (tok : Tok) : (t.apply cw tok).1.wfNarrow := by
  obtain ⟨a, _, _, d, _⟩ := good_apply_wfNarrow cw t hcw h tok
  rw [wfNarrow_iff, d]; exact a

/-- the earlier invariant implies the present one -/
theorem wfNarrow_wf {t : Term} (h : t.wfNarrow) : t.wf := h.1

/-- grid buffer (`blank` policy): `Scr.inv` of both buffers is preserved by every token for
    EVERY width function (special case of `apply_inv`; the hypothesis on the policy is not
    needed any more) -/
theorem apply_inv_blank (cw : Nat → Nat) (t : Term) (_hp : t.pol = .blank) (h : t.inv) (tok : Tok) :
    (t.apply cw tok).1.inv :=
  apply_wf cw t h tok

/-- grid buffer (`blank` policy): the geometric invariant ALONE is preserved by every token, for
    EVERY width function and from EVERY state satisfying it (rows well formed or not); and the
    reported cursor positions are inside the screen. (Under `keep` this is false, see
    `geo_alone_not_inductive_under_keep`.) -/
theorem apply_geo_blank (cw : Nat → Nat) (t : Term) (hp : t.pol = .blank) (h : t.geo) (tok : Tok) :
    (t.apply cw tok).1.geo ∧ (t.apply cw tok).1.pol = .blank ∧
    ∀ x y, Ev.cursor x y ∈ (t.apply cw tok).2 →
      x < (t.apply cw tok).1.scr.w ∧ y < (t.apply cw tok).1.scr.h := by
  have I : RowInv t.pol (fun _ => True) (fun _ => True) := by rw [hp]; exact rowInv_trivial
  obtain ⟨a, b, c, d, e⟩ := good_apply I cw (fun _ => trivial)
    ⟨⟨h.1, fun _ _ => trivial⟩, ⟨h.2.1, fun _ _ => trivial⟩, h.2.2⟩ tok
  refine ⟨tok_geo a, d.trans hp, ?_⟩
  obtain ⟨_, e1, e2⟩ := scr_ok a
  rw [e1, e2, b, c]
  exact e

/-- tokens never change the size of either buffer nor the policy -/
theorem apply_size (cw : Nat → Nat) (t : Term) (h : t.wf) (tok : Tok) :
    let t' := (t.apply cw tok).1
    t'.main.w = t.main.w ∧ t'.main.h = t.main.h ∧ t'.alt.w = t.alt.w ∧ t'.alt.h = t.alt.h ∧
      t'.scr.w = t.scr.w ∧ t'.scr.h = t.scr.h ∧ t'.pol = t.pol := by
  obtain ⟨a, b, c, d, _⟩ := good_apply_wf cw t h tok
  have h0 := (wf_iff t).1 h
  obtain ⟨_, e1, e2⟩ := scr_ok a
  obtain ⟨_, f1, f2⟩ := scr_ok h0
  refine ⟨b, c, ?_, ?_, ?_, ?_, d⟩
  · rw [← a.2.2.1, b, h0.2.2.1]
  · rw [← a.2.2.2, c, h0.2.2.2]
  · rw [e1, b, f1]
  · rw [e2, c, f2]

/-! ## 3. resize -/

/-- after `Resize(w,h)` with `w,h ≥ 1` the geometric invariant holds — whatever the state was -/
theorem resize_geo (t : Term) (w h : Nat) (hw : 1 ≤ w) (hh : 1 ≤ h) : (t.resize w h).1.geo :=
  ⟨geo_resize t.main w h hw hh, geo_resize t.alt w h hw hh, rfl, rfl⟩

/-- `Resize` keeps the invariant of reachable states -/
theorem resize_wf (t : Term) (w h : Nat) (hw : 1 ≤ w) (hh : 1 ≤ h) (ht : t.wf) :
    (t.resize w h).1.wf := by
  have h0 := (wf_iff t).1 ht
  rw [wf_iff]
  exact ⟨sok_resize (rowInv_top t.pol) t.main h0.1.2 w h hw hh,
    sok_resize (rowInv_top t.pol) t.alt h0.2.1.2 w h hw hh, rfl, rfl⟩

/-! ## 4. every reachable state -/

/-- what can happen to a terminal: a token arrives, or the frontend resizes -/
inductive Op
  | tok (k : Tok)
  | resize (w h : Nat)

/-- `Resize` is only ever called with positive sizes -/
def Op.valid : Op → Prop
  | .tok _ => True
  | .resize w h => 1 ≤ w ∧ 1 ≤ h

def Op.step (cw : Nat → Nat) (t : Term) : Op → Term
  | .tok k => (t.apply cw k).1
  | .resize w h => (t.resize w h).1

def runOps (cw : Nat → Nat) (t : Term) (ops : List Op) : Term := ops.foldl (Op.step cw) t

theorem step_wf (cw : Nat → Nat) (t : Term) (h : t.wf) (op : Op)
    (hv : op.valid) : (op.step cw t).wf ∧ (op.step cw t).pol = t.pol := by
  cases op with
  | tok k => exact ⟨apply_wf cw t h k, (apply_size cw t h k).2.2.2.2.2.2⟩
  | resize w h' => exact ⟨resize_wf t w h' hv.1 hv.2 h, rfl⟩

theorem runOps_wf (cw : Nat → Nat) (t : Term) (h : t.wf) (ops : List Op)
    (hv : ∀ op ∈ ops, op.valid) : (runOps cw t ops).wf ∧ (runOps cw t ops).pol = t.pol := by
  induction ops generalizing t with
  | nil => exact ⟨h, rfl⟩
  | cons op ops ih =>
    obtain ⟨h1, p1⟩ := step_wf cw t h op (hv op (List.mem_cons_self))
    have := ih (op.step cw t) h1 (fun o ho => hv o (List.mem_cons_of_mem _ ho))
    simp only [runOps, List.foldl_cons] at this ⊢
    exact ⟨this.1, this.2.trans p1⟩

/-- Every state reachable from the initial state by tokens and resizes (to positive sizes), in
    any order, satisfies the invariant (`Scr.inv` on both buffers). -/
theorem reachable_wf (cw : Nat → Nat) (pol : WidePolicy) (w h : Nat) 
    (hw : 1 ≤ w) (hh : 1 ≤ h) (ops : List Op) (hv : ∀ op ∈ ops, op.valid) :
    (runOps cw (Term.init pol w h) ops).wf :=
  (runOps_wf cw _ (init_wf pol w h hw hh) ops hv).1

/-- … in particular the geometric invariant holds after every prefix of the operations -/
theorem reachable_geo (cw : Nat → Nat) (pol : WidePolicy) (w h : Nat) 
    (hw : 1 ≤ w) (hh : 1 ≤ h) (ops : List Op) (hv : ∀ op ∈ ops, op.valid) (n : Nat) :
    (runOps cw (Term.init pol w h) (ops.take n)).geo :=
  wf_geo (reachable_wf cw pol w h hw hh _ (fun o ho => hv o (List.mem_of_mem_take ho)))

theorem runFuel_wf (cw : Nat → Nat) (fuel : Nat) (t : Term) (h : t.wf)
    (bs : Bytes) (evs : List Ev) :
    (runFuel cw fuel t bs evs).1.wf ∧ (runFuel cw fuel t bs evs).1.pol = t.pol := by
  induction fuel generalizing t bs evs with
  | zero => exact ⟨h, rfl⟩
  | succ fuel ih =>
    simp only [runFuel]
    split
    · exact ⟨h, rfl⟩
    · next tk n _ =>
      have p1 := (apply_size cw t h tk).2.2.2.2.2.2
      have := ih (t.apply cw tk).1 (apply_wf cw t h tk) (bs.drop n)
        (evs ++ (t.apply cw tk).2)
      exact ⟨this.1, this.2.trans p1⟩

/-- the read loop: after processing any byte string the invariant holds -/
theorem run_wf (cw : Nat → Nat) (t : Term) (h : t.wf) (bs : Bytes) :
    (run cw t bs).1.wf := (runFuel_wf cw _ t h bs []).1

theorem run_geo (cw : Nat → Nat) (t : Term) (h : t.wf) (bs : Bytes) :
    (run cw t bs).1.geo := wf_geo (run_wf cw t h bs)

theorem run_pol (cw : Nat → Nat) (t : Term) (h : t.wf) (bs : Bytes) :
    (run cw t bs).1.pol = t.pol := (runFuel_wf cw _ t h bs []).2

/-- grid buffer: the read loop keeps the geometric invariant alone, for every width function -/
theorem run_geo_blank (cw : Nat → Nat) (t : Term) (hp : t.pol = .blank) (h : t.geo) (bs : Bytes) :
    (run cw t bs).1.geo := by
  have key : ∀ (fuel : Nat) (t : Term) (bs : Bytes) (evs : List Ev), t.pol = .blank → t.geo →
      (runFuel cw fuel t bs evs).1.geo := by
    intro fuel
    induction fuel with
    | zero => intro t bs evs _ h; exact h
    | succ fuel ih =>
      intro t bs evs hp h
      simp only [runFuel]
      split
      · exact h
      · next tk n _ =>
        obtain ⟨a, b, _⟩ := apply_geo_blank cw t hp h tk
        exact ih _ _ _ b a
  exact key _ t bs [] hp h

/-! ## 5. reported cursor positions -/

/-- every cursor position reported to the frontend while processing a token lies inside the
    (new) active screen -/
theorem cursor_reports_in_range (cw : Nat → Nat) (t : Term) (h : t.wf)
    (tok : Tok) (x y : Nat) (hm : Ev.cursor x y ∈ (t.apply cw tok).2) :
    x < (t.apply cw tok).1.scr.w ∧ y < (t.apply cw tok).1.scr.h := by
  obtain ⟨a, b, c, _, e⟩ := good_apply_wf cw t h tok
  obtain ⟨_, e1, e2⟩ := scr_ok a
  rw [e1, e2, b, c]
  exact e x y hm

/-- the cursor position reported by `Resize` lies inside the new screen -/
theorem resize_cursor_report_in_range (t : Term) (w h : Nat) (hw : 1 ≤ w) (hh : 1 ≤ h)
    (x y : Nat) (hm : Ev.cursor x y ∈ (t.resize w h).2) : x < w ∧ y < h := by
  have hg := resize_geo t w h hw hh
  simp only [Term.resize, List.mem_cons, Ev.cursor.injEq, List.not_mem_nil, or_false,
    reduceCtorEq, false_or] at hm
  obtain ⟨rfl, rfl⟩ := hm
  simp only [Term.scr]
  split
  · exact ⟨hg.2.1.2.2.2.2.1, hg.2.1.2.2.2.2.2.1⟩
  · exact ⟨hg.1.2.2.2.2.1, hg.1.2.2.2.2.2.1⟩

/-- the cursor-position report (`CSI 6 n`) answers `ESC [ r ; c R` with `1 ≤ r ≤ h`, `1 ≤ c ≤ w` -/
theorem cpr_in_range (cw : Nat → Nat) (t : Term) (h : t.wf) (ps : List Int) (hp : p0 ps 0 = 6) :
    ∃ r c, (t.apply cw (.csi 0 ps true 0x6e)).2 =
        [.reply ([0x1b, 0x5b] ++ itoa r ++ [0x3b] ++ itoa c ++ [0x52])] ∧
      1 ≤ r ∧ r ≤ t.scr.h ∧ 1 ≤ c ∧ c ≤ t.scr.w := by
  obtain ⟨hs, _, _⟩ := scr_ok ((wf_iff t).1 h)
  refine ⟨t.scr.cy + 1, t.scr.cx + 1, ?_, by omega, hs.cylt, by omega, hs.cxlt⟩
  simp [Term.apply, Term.csi, Term.csiPlain, hp, csiReplyCPR]

/-! ## 6. rows are runs of whole characters (the wide-character part) -/

/-- In every state satisfying the invariant each row of each buffer has exactly `w` cells and is
    partitioned into characters: every column `x` is covered by exactly the character whose first
    cell is at `headOf row x`, which has a width `cw ≥ 1` and lies inside the row. -/
theorem wf_row_runs {t : Term} (h : t.wf) (b : Term → Scr) (hb : b = Term.main ∨ b = Term.alt)
    (x y : Nat) (hy : y < (b t).h) (hx : x < (b t).w) :
    ((b t).row y).length = (b t).w ∧
    ∃ tx cw st, ((b t).row y)[headOf ((b t).row y) x]? = some ⟨.ch tx cw, st⟩ ∧ 1 ≤ cw ∧
      headOf ((b t).row y) x ≤ x ∧ x < headOf ((b t).row y) x + cw ∧
      headOf ((b t).row y) x + cw ≤ (b t).w ∧
      (∀ k, headOf ((b t).row y) x < k → k < headOf ((b t).row y) x + cw →
        contAt ((b t).row y) k = true) := by
  have h0 := (wf_iff t).1 h
  have hs : SOk (okRow Top) (b t) := by rcases hb with rfl | rfl; exact h0.1; exact h0.2.1
  have hm := row_mem hs hy
  have hl := hs.rlen _ hm
  refine ⟨hl, ?_⟩
  obtain ⟨tx, cw, st, a1, a2, a3, a4, _, _⟩ := wf_head (hs.2 _ hm).1 (x := x) (by omega)
  refine ⟨tx, cw, st, a1, a2, headOf_le _ _, a3, by rw [← hl]; exact a4, ?_⟩
  exact (((rowWF_iff _).1 (hs.2 _ hm).1).2 _ tx cw st a1).2.2.1

theorem okRow_true (r : Row) : okRow (fun _ => True) r ↔ rowWF r = true :=
  ⟨fun h => h.1, fun h => ⟨h, fun _ _ _ _ => trivial⟩⟩

/-- `Row.put` (character fitting in the row) keeps rows well formed and of the same length -/
theorem put_rowWF (r : Row) (x : Nat) (t : Bytes) (w : Nat) (st : Style) (h : rowWF r = true)
    (hw : 1 ≤ w) (hxw : x + w ≤ r.length) :
    rowWF (r.put x t w st) = true ∧ (r.put x t w st).length = r.length :=
  ⟨(ok_put (B := fun _ => True) trivial ((okRow_true r).2 h) t st hw hxw trivial).1, put_length ..⟩

/-- `Row.erase` keeps rows well formed and of the same length, for all arguments -/
theorem erase_rowWF (r : Row) (a b : Nat) (st : Style) (h : rowWF r = true) :
    rowWF (r.erase a b st) = true ∧ (r.erase a b st).length = r.length :=
  ⟨(ok_erase (B := fun _ => True) trivial ((okRow_true r).2 h) a b st).1, erase_length ..⟩

/-- `Row.dch` keeps rows well formed and of the same length, for all arguments -/
theorem dch_rowWF (r : Row) (x n : Nat) (st : Style) (h : rowWF r = true) :
    rowWF (r.dch x n st) = true ∧ (r.dch x n st).length = r.length :=
  ⟨(ok_dch (B := fun _ => True) trivial ((okRow_true r).2 h) x n st).1, dch_length ..⟩

/-- `fitRow` keeps rows well formed and gives them the new width, for all arguments -/
theorem fitRow_rowWF (r : Row) (w : Nat) (st : Style) (h : rowWF r = true) :
    rowWF (fitRow r w st) = true ∧ (fitRow r w st).length = w :=
  ⟨(ok_fitRow (B := fun _ => True) trivial ((okRow_true r).2 h) w st).1, fitRow_length ..⟩

/-- `blankStraddlers` keeps rows well formed and makes both `a` and `b` character boundaries -/
theorem blankStraddlers_rowWF (r : Row) (a b : Nat) (st : Style) (h : rowWF r = true) :
    rowWF (blankStraddlers r a b st) = true ∧ contAt (blankStraddlers r a b st) a = false ∧
      contAt (blankStraddlers r a b st) b = false := by
  obtain ⟨o, c1, c2⟩ := ok_blankStraddlers (B := fun _ => True) trivial ((okRow_true r).2 h) a b st
  exact ⟨o.1, c1, c2⟩

/-- `Row.putKeep` (span-buffer write on a continuation cell) keeps rows well formed and of the
    same length, whatever the widths of the kept character, of the written one, and of the
    characters the insertion pushes across the right edge -/
theorem putKeep_rowWF (r : Row) (x : Nat) (t : Bytes) (w : Nat) (st : Style) (h : rowWF r = true)
    (hc : contAt r x = true) (hw : 1 ≤ w) (hxw : x + w ≤ r.length) :
    rowWF (r.putKeep x t w st) = true ∧ (r.putKeep x t w st).length = r.length := by
  obtain ⟨o, l, _⟩ := ok_putKeep (B := fun _ => True) trivial ((okRow_true r).2 h) t st hc hw
    hxw trivial
  exact ⟨o.1, l⟩

/-- every screen operation used by the dispatcher keeps `Scr.inv` (and the size) -/
theorem scr_ops_inv (s : Scr) (h : s.inv = true) :
    (∀ y1 y2 d, (s.scroll y1 y2 d).inv = true) ∧ s.lineDown.inv = true ∧ s.lineUp.inv = true ∧
    (∀ x1 y1 x2 y2, (s.eraseRegionI x1 y1 x2 y2).inv = true) ∧ (∀ n, (s.dch n).inv = true) ∧
    (∀ a b, (s.setMargins a b).inv = true) ∧ (∀ x y, (s.setCursor x y).inv = true) ∧
    s.saveCursor.inv = true ∧ s.restoreCursor.inv = true ∧
    (∀ text w0, (s.put .blank text w0).inv = true) ∧
    (∀ w' h', 1 ≤ w' → 1 ≤ h' → (s.resize w' h').inv = true) := by
  have hs : SOk (okRow (fun _ => True)) s := (sok_iff _ s).2 ⟨h, fun _ _ _ _ _ _ => trivial⟩
  have hk := keeps_refl hs
  have I : RowInv .blank (fun _ => True) (okRow (fun _ => True)) :=
    rowInv_ok _ _ trivial
  have e : ∀ {s' : Scr}, Keeps (okRow (fun _ => True)) s s' → s'.inv = true :=
    fun hk' => ((sok_iff _ _).1 hk'.1).1
  refine ⟨fun _ _ _ => e (keeps_scroll I hk _ _ _), e (keeps_lineDown I hk),
    e (keeps_lineUp I hk), fun _ _ _ _ => e (keeps_eraseRegionI I hk _ _ _ _),
    fun _ => e (keeps_dch I hk _), fun _ _ => e (keeps_setMargins hk _ _),
    fun _ _ => e (keeps_setCursor hk _ _), e (keeps_saveCursor hk), e (keeps_restoreCursor hk),
    fun _ _ => e (keeps_put I hk _ _ trivial),
    fun w' h' hw hh => ((sok_iff _ _).1 (sok_resize I s hs.2 w' h' hw hh)).1⟩

/-! ## 7. characters wider than 2 cells under the `keep` policy; why `geo` alone is not enough -/

/-- a width function with one triple-width character -/
def cw3 (cp : Nat) : Nat := if cp = 0x57 then 3 else 1

/-- `WWW  CUP(1,3) x  CUP(1,1) DCH 4  CUP(1,6) W  CUP(1,5) ECH 1  CUP(1,8) x` -/
def width3Input : Bytes :=
  [87, 87, 87, 27, 91, 49, 59, 51, 72, 120, 27, 91, 49, 59, 49, 72, 27, 91, 52, 80, 27, 91, 49, 59,
   54, 72, 87, 27, 91, 49, 59, 53, 72, 27, 91, 49, 88, 27, 91, 49, 59, 56, 72, 120]

/-- With a character of width 3 the span-buffer policy (`keep`) of the model keeps the geometric
    invariant and `Scr.inv`: after this input on a 9 × 1 terminal the only row has 9 cells under
    both policies. (With the earlier `Row.putKeep`, right only for kept characters of width 2, the
    row had 8 cells under `keep`; the theorem `keep_policy_width3_breaks_geo` that recorded this
    has been replaced by the present one.) -/
theorem keep_policy_width3_keeps_geo :
    (run cw3 (Term.init .keep 9 1) width3Input).1.main.grid.map List.length = [9] ∧
    (run cw3 (Term.init .blank 9 1) width3Input).1.main.grid.map List.length = [9] ∧
    (run cw3 (Term.init .keep 9 1) width3Input).1.geo ∧
    (run cw3 (Term.init .keep 9 1) width3Input).1.main.inv = true := by
  refine ⟨by decide, by decide, by decide, by decide⟩

/-- a state that satisfies the geometric invariant but has an ill-formed row (two continuation
    cells after a character of width 1), cursor on the last cell -/
def illFormed : Term :=
  { pol := .keep,
    main := { w := 3, h := 1,
              grid := [[⟨.ch [0x61] 1, Style.default⟩, ⟨.cont, Style.default⟩, ⟨.cont, Style.default⟩]],
              cx := 2, cy := 0, sx := 0, sy := 0, top := 0, bot := 0, wrap := false,
              sty := Style.default },
    alt := Scr.init 3 1 }

/-- The geometric invariant ALONE is not preserved under the `keep` policy, even with all widths
    equal to 1: `Row.putKeep` relies on the row being well formed. This is why `apply_geo` takes
    the full invariant `Term.wf` (which every reachable state satisfies) as hypothesis and not
    just `Term.geo`. -/
theorem geo_alone_not_inductive_under_keep :
    illFormed.geo ∧ ¬ (illFormed.apply (fun _ => 1) (.text [0x78] 0x78)).1.geo := by decide

/-! ## Non-vacuity -/
section Examples

/-- a realistic width function: CJK and emoji ranges are double width -/
def cw2 (cp : Nat) : Nat := if cp ≥ 0x1100 then 2 else 1

example : WidthOK .keep cw2 := by intro _ cp; unfold cw2; split <;> omega
example : WidthOK .blank cw3 := by intro h; cases h
example : (Term.init .keep 80 24).wf := init_wf _ _ _ (by omega) (by omega)
-- the invariant along a run with a width-3 character under the span policy (`WidthOK` fails)
example : ¬ WidthOK .keep cw3 := fun h => by have := h rfl 0x57; simp [cw3] at this
example : (run cw3 (Term.init .keep 9 1) width3Input).1.wf :=
  run_wf cw3 _ (init_wf _ _ _ (by omega) (by omega)) _

/-- `a中b`, CUP(1,3), `x` (written on the second cell of the wide character), DCH 1, LF,
    `中中` (wraps / clamps at the right edge), EL 1 -/
def exInput : Bytes :=
  [0x61, 0xe4, 0xb8, 0xad, 0x62, 0x1b, 0x5b, 0x31, 0x3b, 0x33, 0x48, 0x78,
   0x1b, 0x5b, 0x31, 0x50, 0x0a, 0xe4, 0xb8, 0xad, 0xe4, 0xb8, 0xad, 0x1b, 0x5b, 0x31, 0x4b]

-- a non-trivial reachable state (with double-width characters in the grid) satisfies `wf`,
-- under both policies, and really contains a continuation cell
example : (run cw2 (Term.init .keep 4 2) exInput).1.wf :=
  run_wf cw2 _ (init_wf _ _ _ (by omega) (by omega)) _
example : (run cw2 (Term.init .keep 4 2) exInput).1.main.inv = true := by decide
example : contAt ((run cw2 (Term.init .blank 4 2) [0x61, 0xe4, 0xb8, 0xad]).1.main.row 0) 2 = true := by
  decide
example : (run cw2 (Term.init .blank 4 2) [0x61, 0xe4, 0xb8, 0xad]).1.main.inv = true := by decide
-- operations
example : Op.valid (.resize 3 1) := ⟨by omega, by omega⟩
example : (runOps cw2 (Term.init .keep 4 2) [.tok (.text [0xe4, 0xb8, 0xad] 0x4e2d), .resize 1 1,
    .tok (.ctl 10), .resize 7 3]).geo :=
  reachable_geo cw2 .keep 4 2 (by omega) (by omega)
    [.tok (.text [0xe4, 0xb8, 0xad] 0x4e2d), .resize 1 1, .tok (.ctl 10), .resize 7 3]
    (by intro op hop; simp at hop; rcases hop with rfl | rfl | rfl | rfl <;> simp [Op.valid]) 4
-- a cursor report is really emitted (the range statement is not vacuous)
example : Ev.cursor 1 0 ∈ ((Term.init .blank 4 2).apply cw2 (.text [0x61] 0x61)).2 := by decide
-- a CPR is really emitted
example : ((Term.init .blank 4 2).apply cw2 (.csi 0 [6] true 0x6e)).2 =
    [.reply [0x1b, 0x5b, 0x31, 0x3b, 0x31, 0x52]] := by decide

end Examples

end TM.C02

#print axioms TM.C02.init_wf
#print axioms TM.C02.init_geo
#print axioms TM.C02.wf_geo
#print axioms TM.C02.apply_wf
#print axioms TM.C02.apply_geo
#print axioms TM.C02.apply_inv
#print axioms TM.C02.apply_wfNarrow
#print axioms TM.C02.apply_inv_blank
#print axioms TM.C02.apply_geo_blank
#print axioms TM.C02.apply_size
#print axioms TM.C02.resize_geo
#print axioms TM.C02.resize_wf
#print axioms TM.C02.reachable_wf
#print axioms TM.C02.reachable_geo
#print axioms TM.C02.run_wf
#print axioms TM.C02.run_geo
#print axioms TM.C02.run_geo_blank
#print axioms TM.C02.cursor_reports_in_range
#print axioms TM.C02.resize_cursor_report_in_range
#print axioms TM.C02.cpr_in_range
#print axioms TM.C02.wf_row_runs
#print axioms TM.C02.put_rowWF
#print axioms TM.C02.erase_rowWF
#print axioms TM.C02.dch_rowWF
#print axioms TM.C02.fitRow_rowWF
#print axioms TM.C02.blankStraddlers_rowWF
#print axioms TM.C02.putKeep_rowWF
#print axioms TM.C02.scr_ops_inv
#print axioms TM.C02.keep_policy_width3_keeps_geo
#print axioms TM.C02.geo_alone_not_inductive_under_keep
