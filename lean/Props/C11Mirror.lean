import TM.Mirror
import Props.C02
import Props.C03
import Props.C10
import Props.C11
/-!
# C11 (second half) — the `TTYFrontend` mirror model (`TM/Mirror.lean`)

Model: `TM/Mirror.lean` (`MRegion`, `cutCell`, `subCells` = `StyledLine(a, b-a, y)`, `cupXY`,
`renderRows`, `renderRegion`, `Mirror`, `Mirror.renderCursor`, `Mirror.renderRegion`, `MirrorOp`,
`Mirror.step`). Imports `Props.C11` for the re-interpretation machinery (`Exec`, `Exec.tok`,
`exec_ansiEscape`, `next_csiSeq`, `next_text`, `RowOK`, `rowOK_chars`, …) and `Props.C03` for the
`headOf` / `widthAt` / `rowWF` lemmas (used qualified, `TM.C03.Lemmas.…`).

Property theorems:

* Part 1, the state machine: `detached_silent`, `detach_emits_show_cursor`, `other_silent`,
  `cursor_spec`, `region_outside_silent`.
* Part 2, `subCells`: `subCells_length`, `subCells_getElem?`, `cutCell_inside`, `cutCell_cut`,
  `subCells_full`, `subCells_rowOK` (and `rowOK_blankRow`).
* Part 3, one row of the region read by a fresh outer terminal: `mirror_row_state` (the complete
  terminal state), `mirror_row_fresh` (row `y` = `x` blanks ++ window ++ blanks),
  `mirror_row_fresh_others` (no other row changes), `mirror_row_fresh_cursor`.
* Part 4, the whole painting `renderRegion s r0` read by a fresh outer terminal of the inner
  screen's size: `mirror_region_state` (the complete terminal state: fresh except for the painted
  grid and autowrap ON), `mirror_region_fresh` (rows inside / outside the region, cursor home,
  autowrap on, default style), `mirror_region_empty`.
* Part 5, `Attach` end to end (`attach_fresh`): everything `Mirror.step m s (.attach r0)` writes,
  read by a fresh outer terminal: the painted terminal with the outer cursor at the announced
  position and visible, or hidden (view flag 1 off) — according to `cursor_spec`.
* Part 6, one row REPAINTED on an arbitrary (non-fresh) outer terminal — main screen active,
  autowrap off, row `y` of the screen's width and `rowWF` (`OuterOK`), everything else arbitrary:
  `repaint_row_state` (the complete state; the new row is the explicit `repaintedRow`),
  `repaint_row` (cell by cell: window written; cells left / right of it unchanged except the
  cells of an outer wide character straddling `x` or `x2`, which become blanks — in the style of
  the FIRST written cell for the straddler at `x`, in the style of the written cell standing on
  the character's first column for the straddler at `x2`; other rows, cursor, `rowWF`),
  `repaint_row_right_clean`, and `repaint_syncs` (a repaint whose window cuts no character of
  the outer row and none of the new inner row re-synchronises the mirror on the whole attached
  window). Policies: `.blank` always; `.keep` only when column `x` of the outer row is not a
  continuation cell — otherwise `Scr.put` takes the `putKeep` branch and the written text is
  inserted AFTER the kept wide character (see the `decide`d example in `Examples`): for a
  `.keep` outer terminal the statement is false there.
* Part 7, the region-level invariant: `repaint_region_state` / `repaint_region` (the whole
  painting `renderRegion s r0` over an ARBITRARY outer terminal of the inner screen's size —
  `OuterGrid` —, whatever its autowrap state: rows of the clamped region repainted, rows outside
  unchanged, cursor kept, saved cursor overwritten, autowrap ON, style default),
  `regionChanged_keeps_sync` (an attached mirror, `SyncedRegion o sOld R`, inner change confined
  to the rectangle `D`, `RegionChanged(D)` painting a window that cuts no character: afterwards
  `SyncedRegion o' sNew R`, `OuterGrid o' sNew`, cursor as `cursor_spec` says),
  `regionChanged_empty_keeps_sync` (empty `D ∩ R`), `attach_establishes_sync` (the invariant
  after `Attach` on a fresh outer terminal) and `mirror_invariant_run` (the invariant along any
  list of (inner change, `RegionChanged`) steps).
* Part 8, the mirror driven by the MODEL TERMINAL's own announcements (`import Props.C10`):
  `regionChanged_keeps_sync'` (inner no-cut facts only at an edge of the painted window that is
  not the region's edge), `regionChanged_fullwidth` (a full-width `D`, as the model announces:
  nothing asked of the inner rows beyond `RowOK`, nothing about what the outer rows showed),
  `feedDamage_spec`, **`mirror_follows_token`** (any token, buffer switches included; the mirror
  is told every region of `Term.damage t tok`; invariant `SyncedRegion ∧ OuterGrid ∧ NoStraddle`
  kept), `mirror_follows_run`, `attach_nostraddle`, **`attach_then_follow`** (fresh outer
  terminal, `Attach`, then any list of tokens), and sessions with interleaved cursor callbacks:
  `cursorOp_spec`, `session_invariant`, `session_cursor`.
* Part 9, the unconditional capstone (`import Props.C02`): `InnerOK'` (the C02 invariant with
  `contSty` on every row — a `C02.RowInv` instance, `rowInv_cs` — and the cell-wise invariant
  `TA`: valid styles, one printable scalar value per character cell) implies `InnerOK`
  (`InnerOK'.toInnerOK`) and is preserved by every token the tokeniser can produce
  (`innerOK_apply`, `TokOK`, `next_tokOK`: UTF-8 decode-then-encode is the identity, an invalid
  byte gives U+FFFD with its encoding), holds initially (`innerOK_init`), hence
  **`mirror_follows_stream`**: for every byte string, size, policies, region, and width function
  with `cw 32 ≤ 1`, `cw 0xFFFD ≤ 1` (no bound on other widths): a mirror attached on a fresh outer
  terminal and driven by the model terminal's announcements shows the final active screen inside
  the region.

Hypotheses the proofs needed, all explicit:
* `cw 32 ≤ 1` — the blank that stands for a cell of a cut wide character is the character U+0020
  with width 1 in the model (`blank`), but the OUTER terminal measures it with its own width
  function: `RowOK.text` asks `1 = max (cw 32) 1`. With `cw 32 ≥ 2` the statement is false (the
  outer terminal would write a two-cell character).
* `x < x2`, `x2 ≤ W`, `r.length = W`, `y < H`; `x < paramMax`, `y < paramMax` (CSI parameters
  saturate at `2^31 - 1`); in Part 4 `s.w ≤ paramMax`, `s.h ≤ paramMax`, every row of the inner
  screen has length `s.w` and satisfies `RowOK`, and the outer terminal has the inner screen's size.
* Parts 3–5: the outer terminal is FRESH (every cell a default blank, autowrap off, saved cursor
  home): the cells left and right of the window and the rows outside the region are stated to be
  blank because they were blank. Part 6 covers repainting ONE row over earlier content; the whole
  `renderRegion` over earlier content (several rows, then reset / autowrap on / restore) is not
  assembled.

The CPS lemmas `exec_chars_P` / `exec_segment` / `exec_rows` generalise `C11.Lemmas.exec_chars`
(which is stated for a row that fills the terminal exactly and for the fresh grid only) to a
segment that fits (`≤ W`), an arbitrary grid `G` whose row `y` is still blank, an arbitrary
continuation `rest`, and give the final current style explicitly (`segSty`).
-/
namespace TM.C11M
open TM TM.C07 TM.C11 TM.C11.Lemmas

/-! ## Part 1 — the state machine -/

theorem detached_silent (m : Mirror) (s : Scr) (op : MirrorOp) (hd : m.attached = false)
    (h1 : ∀ r, op ≠ .attach r) (h2 : op ≠ .detach) (h3 : op ≠ .blur) :
    (m.step s op).2 = [] ∧ (m.step s op).1.attached = false := by
  cases op with
  | attach r => exact absurd rfl (h1 r)
  | detach => exact absurd rfl h2
  | blur => exact absurd rfl h3
  | focus => simp [Mirror.step, Mirror.renderCursor, hd]
  | regionChanged r => simp [Mirror.step, Mirror.renderRegion, hd]
  | cursorMoved x y => simp [Mirror.step, Mirror.renderCursor, hd]
  | showCursor v => simp [Mirror.step, Mirror.renderCursor, hd]
  | other => simp [Mirror.step, hd]

theorem detach_emits_show_cursor (m : Mirror) (s : Scr) :
    (m.step s .detach).2 = ansiCursorShow ∧ (m.step s .detach).1.attached = false := ⟨rfl, rfl⟩

theorem other_silent (m : Mirror) (s : Scr) : m.step s .other = (m, []) := rfl

theorem cupXY_ne_hide (x y : Nat) : cupXY x y ++ ansiCursorShow ≠ ansiCursorHide := by
  obtain ⟨hne, hdig, _⟩ := itoa_spec (y + 1)
  cases e : itoa (y + 1) with
  | nil => exact absurd e hne
  | cons d tl =>
    have hd : isDigit d = true := hdig d (by simp [e])
    intro h
    simp only [cupXY, e, ansiCursorHide, List.cons_append, List.nil_append, List.cons.injEq] at h
    rw [h.2.2.1] at hd
    revert hd; decide

/-- the cursor part: for an attached mirror, the cursor is positioned and shown exactly when it is
    to be shown, the mirror has the focus and the cursor lies inside the region; otherwise it is
    hidden -/
theorem cursor_spec (m : Mirror) (ha : m.attached = true) :
    (m.renderCursor = cupXY m.cx m.cy ++ ansiCursorShow ↔
      (m.showCur = true ∧ m.focused = true ∧ m.region.x ≤ m.cx ∧ m.cx < m.region.x2 ∧
        m.region.y ≤ m.cy ∧ m.cy < m.region.y2)) ∧
    (¬ (m.showCur = true ∧ m.focused = true ∧ m.region.x ≤ m.cx ∧ m.cx < m.region.x2 ∧
        m.region.y ≤ m.cy ∧ m.cy < m.region.y2) → m.renderCursor = ansiCursorHide) := by
  have key : ¬ (m.showCur = true ∧ m.focused = true ∧ m.region.x ≤ m.cx ∧ m.cx < m.region.x2 ∧
        m.region.y ≤ m.cy ∧ m.cy < m.region.y2) → m.renderCursor = ansiCursorHide := by
    intro hn
    unfold Mirror.renderCursor
    simp only [ha, Bool.not_true, Bool.false_eq_true, if_false]
    split
    · rfl
    · next h1 =>
      simp only [Bool.or_eq_true, Bool.not_eq_true', not_or, Bool.not_eq_false] at h1
      rw [if_pos]
      false_or_by_contra
      apply hn
      refine ⟨h1.1, h1.2, ?_, ?_, ?_, ?_⟩ <;> omega
  refine ⟨⟨?_, ?_⟩, key⟩
  · intro h
    false_or_by_contra
    rename_i hn
    rw [key hn] at h
    exact cupXY_ne_hide _ _ h.symm
  · intro ⟨h1, h2, h3, h4, h5, h6⟩
    unfold Mirror.renderCursor
    simp only [ha, h1, h2, Bool.not_true, Bool.false_eq_true, if_false, Bool.or_self]
    rw [if_neg (by omega)]

theorem region_outside_silent (m : Mirror) (s : Scr) (r : MRegion)
    (h : ((r.inter m.region).clamp s.w s.h).isEmpty = true) :
    m.step s (.regionChanged r) = (m, []) := by
  simp [Mirror.step, Mirror.renderRegion, h]


/-! ## Part 2 — `subCells` (`StyledLine` with a sub-range) -/

namespace Lemmas

/-- the character covering column `i` lies entirely inside the window `[a, b)` -/
def Inside (r : Row) (a b i : Nat) : Prop :=
  a ≤ headOf r i ∧ headOf r i + widthAt r (headOf r i) ≤ b

theorem cutCell_of_inside {r : Row} {a b i : Nat} (h : Inside r a b i) :
    cutCell r a b i = r.getD i (blank Style.default) := by
  unfold Inside at h
  unfold cutCell
  simp only []
  rw [if_neg (by omega)]

theorem cutCell_of_not_inside {r : Row} {a b i : Nat} (h : ¬ Inside r a b i) :
    cutCell r a b i = blank (r.getD i (blank Style.default)).sty := by
  unfold Inside at h
  unfold cutCell
  simp only []
  rw [if_pos (by omega)]

theorem getD_of_lt {r : Row} {i : Nat} (hi : i < r.length) (d : Cell) : r.getD i d = r[i] := by
  rw [List.getD_eq_getElem?_getD, List.getElem?_eq_getElem hi]; rfl

theorem getD_of_get {r : Row} {i : Nat} {c : Cell} (h : r[i]? = some c) (d : Cell) : r.getD i d = c := by
  rw [List.getD_eq_getElem?_getD, h]; rfl

end Lemmas
open Lemmas

theorem subCells_length (r : Row) (a b : Nat) : (subCells r a b).length = b - a := by
  simp [subCells]

theorem subCells_getElem? (r : Row) (a b k : Nat) (hk : k < b - a) :
    (subCells r a b)[k]? = some (cutCell r a b (a + k)) := by
  simp [subCells, List.getElem?_map, List.getElem?_range hk]

/-- a cell whose character (from its head `headOf r i`, `widthAt r (headOf r i)` cells wide) lies
    inside the window is shown as it is -/
theorem cutCell_inside (r : Row) (a b i : Nat) (hi : i < r.length) (h1 : a ≤ headOf r i)
    (h2 : headOf r i + widthAt r (headOf r i) ≤ b) : cutCell r a b i = r[i] := by
  rw [cutCell_of_inside ⟨h1, h2⟩, getD_of_lt hi]

/-- a cell whose character starts left of the window or ends right of it is shown as a blank in
    the cell's own style -/
theorem cutCell_cut (r : Row) (a b i : Nat) (hi : i < r.length)
    (h : headOf r i < a ∨ b < headOf r i + widthAt r (headOf r i)) :
    cutCell r a b i = blank (r[i]).sty := by
  rw [cutCell_of_not_inside (by unfold Inside; omega), getD_of_lt hi]

/-- the whole row of a well-formed row is the row itself -/
theorem subCells_full (r : Row) (w : Nat) (hlen : r.length = w) (hwf : rowWF r = true) :
    subCells r 0 w = r := by
  apply List.ext_getElem?
  intro i
  by_cases hi : i < w
  · rw [subCells_getElem? r 0 w i (by omega), Nat.zero_add]
    obtain ⟨t, cw, st, _, _, _, h4, h5⟩ := TM.C03.Lemmas.wf_head hwf (show i < r.length by omega)
    rw [cutCell_inside r 0 w i (by omega) (Nat.zero_le _) (by omega), List.getElem?_eq_getElem]
  · rw [List.getElem?_eq_none (by rw [subCells_length]; omega), List.getElem?_eq_none (by omega)]


namespace Lemmas

theorem cutCell_sty (r : Row) (a b i : Nat) :
    (cutCell r a b i).sty = (r.getD i (blank Style.default)).sty := by
  by_cases h : Inside r a b i
  · rw [cutCell_of_inside h]
  · rw [cutCell_of_not_inside h]; rfl

/-- a continuation cell seen through the window is a continuation cell of the row whose
    character lies inside the window -/
theorem cutCell_cont {r : Row} {a b i : Nat} {st : Style} (hi : i < r.length)
    (h : cutCell r a b i = ⟨.cont, st⟩) : Inside r a b i ∧ r[i]? = some ⟨.cont, st⟩ := by
  by_cases hin : Inside r a b i
  · rw [cutCell_of_inside hin, getD_of_lt hi] at h
    exact ⟨hin, by rw [List.getElem?_eq_getElem hi, h]⟩
  · rw [cutCell_of_not_inside hin] at h
    simp [blank] at h

/-- a character cell seen through the window is the row's cell (character inside the window) or
    the blank standing for a cell of a cut character -/
theorem cutCell_ch {r : Row} {a b i : Nat} {t : Bytes} {w : Nat} {st : Style} (hi : i < r.length)
    (h : cutCell r a b i = ⟨.ch t w, st⟩) :
    (Inside r a b i ∧ r[i]? = some ⟨.ch t w, st⟩) ∨ (¬ Inside r a b i ∧ t = [0x20] ∧ w = 1) := by
  by_cases hin : Inside r a b i
  · rw [cutCell_of_inside hin, getD_of_lt hi] at h
    exact Or.inl ⟨hin, by rw [List.getElem?_eq_getElem hi, h]⟩
  · rw [cutCell_of_not_inside hin] at h
    simp only [blank, Cell.mk.injEq, Glyph.ch.injEq] at h
    exact Or.inr ⟨hin, h.1.1.symm, h.1.2.symm⟩

theorem inside_succ {r : Row} {a b i : Nat} (hc : contAt r (i + 1) = true) :
    Inside r a b (i + 1) ↔ Inside r a b i := by
  unfold Inside
  simp only [headOf, hc, if_true]

theorem contAt_sub {r : Row} {a b k : Nat} (hb : b ≤ r.length) :
    contAt (subCells r a b) k = true ↔ k < b - a ∧ contAt r (a + k) = true ∧ Inside r a b (a + k) := by
  constructor
  · intro h
    have hk : k < b - a := by have := contAt_lt h; rwa [subCells_length] at this
    obtain ⟨st, hst⟩ := contAt_iff.1 h
    rw [subCells_getElem? r a b k hk, Option.some.injEq] at hst
    obtain ⟨h1, h2⟩ := cutCell_cont (by omega) hst
    exact ⟨hk, contAt_cont h2, h1⟩
  · intro ⟨hk, hc, hin⟩
    obtain ⟨st, hst⟩ := contAt_iff.1 hc
    apply contAt_cont (st := st)
    rw [subCells_getElem? r a b k hk, cutCell_of_inside hin, getD_of_get hst]

theorem encodeRune_32 : encodeRune 32 = [0x20] := by decide

end Lemmas
open Lemmas

/-- a window of a row satisfying `RowOK` satisfies `RowOK` again: the blanks standing for cut
    characters are the character U+0020, for which `RowOK.text` asks `1 = max (cw 32) 1`, hence
    the explicit hypothesis `cw 32 ≤ 1` -/
theorem subCells_rowOK (cw : Nat → Nat) (r : Row) (a b : Nat) (hr : RowOK cw r) (hb : b ≤ r.length)
    (hsp : cw 32 ≤ 1) : RowOK cw (subCells r a b) where
  wf := by
    rw [rowWF_iff]
    have hwf := hr.wf
    constructor
    · cases hc : contAt (subCells r a b) 0 with
      | false => rfl
      | true =>
        obtain ⟨_, h2, h3⟩ := (contAt_sub hb).1 hc
        simp only [Nat.add_zero] at h2 h3
        have hle := TM.C03.Lemmas.headOf_le r a
        have he : headOf r a = a := by unfold Inside at h3; omega
        rcases TM.C03.Lemmas.headOf_head r a with h0 | h0
        · rw [he] at h0; subst h0
          rw [TM.C03.Lemmas.wf_cont0 hwf] at h2; cases h2
        · rw [he, h2] at h0; cases h0
    · intro i t w st hi
      have hk : i < b - a := by
        have := TM.C03.Lemmas.getElem?_lt hi; rwa [subCells_length] at this
      rw [subCells_getElem? r a b i hk, Option.some.injEq] at hi
      rcases cutCell_ch (by omega) hi with ⟨hin, hri⟩ | ⟨hnin, ht, hw⟩
      · obtain ⟨p1, p2, p3, p4⟩ := TM.C03.Lemmas.wf_ch hwf hri
        have hhd : headOf r (a + i) = a + i :=
          TM.C03.Lemmas.headOf_of_not_cont (TM.C03.Lemmas.contAt_ch hri)
        have hwd : widthAt r (a + i) = w := by rw [TM.C03.Lemmas.widthAt_ch hri]; omega
        have hin' := hin
        unfold Inside at hin'
        rw [hhd, hwd] at hin'
        refine ⟨p1, by rw [subCells_length]; omega, ?_, ?_⟩
        · intro k k1 k2
          rw [contAt_sub hb]
          refine ⟨by omega, p3 (a + k) (by omega) (by omega), ?_⟩
          have : headOf r (a + k) = a + i :=
            TM.C03.Lemmas.wf_headOf_eq hwf hri (by omega) (by omega)
          unfold Inside
          rw [this, hwd]; omega
        · cases hc : contAt (subCells r a b) (i + w) with
          | false => rfl
          | true =>
            obtain ⟨_, h2, _⟩ := (contAt_sub hb).1 hc
            rw [← Nat.add_assoc, p4] at h2; cases h2
      · subst hw
        refine ⟨Nat.le_refl _, by rw [subCells_length]; omega, fun k k1 k2 => by omega, ?_⟩
        cases hc : contAt (subCells r a b) (i + 1) with
        | false => rfl
        | true =>
          obtain ⟨_, h2, h3⟩ := (contAt_sub hb).1 hc
          rw [← Nat.add_assoc] at h2 h3
          exact absurd ((inside_succ h2).1 h3) hnin
  contSty := by
    intro i st hi
    have hk : i + 1 < b - a := by
      have := TM.C03.Lemmas.getElem?_lt hi; rwa [subCells_length] at this
    rw [subCells_getElem? r a b (i + 1) hk, Option.some.injEq, ← Nat.add_assoc] at hi
    obtain ⟨hin, hri⟩ := cutCell_cont (by omega) hi
    have hin0 := (inside_succ (contAt_cont hri)).1 hin
    obtain ⟨g, hg⟩ := hr.contSty (a + i) st hri
    exact ⟨g, by rw [subCells_getElem? r a b i (by omega), cutCell_of_inside hin0, getD_of_get hg]⟩
  valid := by
    intro c hc
    obtain ⟨k, hk, rfl⟩ := List.mem_iff_getElem.1 hc
    rw [subCells_length] at hk
    have := subCells_getElem? r a b k hk
    rw [List.getElem?_eq_getElem (by rw [subCells_length]; exact hk), Option.some.injEq] at this
    rw [this, cutCell_sty, getD_of_lt (show a + k < r.length by omega)]
    exact hr.valid _ (List.getElem_mem _)
  text := by
    intro c hc t w hg
    obtain ⟨k, hk, rfl⟩ := List.mem_iff_getElem.1 hc
    rw [subCells_length] at hk
    have := subCells_getElem? r a b k hk
    rw [List.getElem?_eq_getElem (by rw [subCells_length]; exact hk), Option.some.injEq] at this
    rw [this] at hg
    have hcell : cutCell r a b (a + k) = ⟨.ch t w, (cutCell r a b (a + k)).sty⟩ := by
      rw [← hg]
    rcases cutCell_ch (by omega) hcell with ⟨_, hri⟩ | ⟨_, ht, hw⟩
    · exact hr.text _ (List.mem_of_getElem? hri) t w rfl
    · exact ⟨32, by decide, by decide, by decide, by rw [ht, encodeRune_32], by omega⟩


/-- a blank row satisfies `RowOK` (for a valid style, and `cw 32 ≤ 1` as above) -/
theorem rowOK_blankRow (cw : Nat → Nat) (n : Nat) (st : Style) (hv : Style.valid st) (hsp : cw 32 ≤ 1) :
    RowOK cw (blankRow n st) where
  wf := TM.C03.Lemmas.blankRow_wf n st
  contSty := by
    intro i st' h
    simp only [blankRow, List.getElem?_replicate] at h
    split at h
    · simp [blank] at h
    · cases h
  valid := by
    intro c hc
    simp only [blankRow, List.mem_replicate] at hc
    rw [hc.2]; exact hv
  text := by
    intro c hc t w hg
    simp only [blankRow, List.mem_replicate] at hc
    rw [hc.2] at hg
    simp only [blank, Glyph.ch.injEq] at hg
    exact ⟨32, by decide, by decide, by decide, by rw [← hg.1, encodeRune_32], by omega⟩

/-! ## Part 3 — the outer terminal: states, cursor positioning, one row -/

/-- main screen of the outer terminal: a fresh `W × H` screen (autowrap off, margins, saved cursor
    `(0,0)`) with grid `G`, cursor `(cx, cy)` and current style `sty` -/
def scrG (W H : Nat) (G : List Row) (cx cy : Nat) (sty : Style) : Scr :=
  { Scr.init W H with grid := G, cx := cx, cy := cy, sty := sty }

/-- the outer terminal: fresh except for its main screen `scrG` -/
def stG (pol : WidePolicy) (W H : Nat) (G : List Row) (cx cy : Nat) (sty : Style) : Term :=
  { Term.init pol W H with main := scrG W H G cx cy sty }

/-- the grid `G` with row `y` replaced by `done` followed by default blanks up to width `W` -/
def rowG (W : Nat) (G : List Row) (y : Nat) (done : Row) : List Row :=
  G.set y (done ++ blankRow (W - done.length) Style.default)

/-- the outer terminal while row `y` is being painted: the cells `done` are on the row, the cursor
    is behind them (pinned on the last column once the row is full) -/
def stP (pol : WidePolicy) (W H : Nat) (G : List Row) (y : Nat) (done : Row) (sty : Style) : Term :=
  stG pol W H (rowG W G y done) (min done.length (W - 1)) y sty

/-- `ESC [ y+1 ; x+1 H` as a token -/
def cupTokXY (x y : Nat) : Tok := .csi 0 [((y + 1 : Nat) : Int), ((x + 1 : Nat) : Int)] true 0x48

/-- the current style after a row segment has been written: the style of its last cell (the
    style before, when the segment is empty) -/
def segSty (sty : Style) (cells : Row) : Style := (cells.getLast?.map Cell.sty).getD sty

namespace Lemmas

theorem stG_init (pol : WidePolicy) (W H : Nat) :
    stG pol W H (Scr.init W H).grid 0 0 Style.default = Term.init pol W H := rfl

theorem stT_eq_stP (pol : WidePolicy) (W H y : Nat) (done : Row) (sty : Style) :
    stT pol W H y done sty = stP pol W H (Scr.init W H).grid y done sty := rfl

theorem withSty_stG (pol : WidePolicy) (W H : Nat) (G : List Row) (cx cy : Nat) (sty s : Style) :
    withSty (stG pol W H G cx cy sty) s = stG pol W H G cx cy s := rfl

theorem withSty_stP (pol : WidePolicy) (W H : Nat) (G : List Row) (y : Nat) (done : Row) (sty s : Style) :
    withSty (stP pol W H G y done sty) s = stP pol W H G y done s := rfl

theorem cupXY_eq (x y : Nat) : cupXY x y = csiSeq [y + 1, x + 1] 0x48 := by
  simp [cupXY, csiSeq, paramBytes]

theorem next_cupXY (x y : Nat) (hx : x < paramMax) (hy : y < paramMax) (rest : Bytes) :
    next (cupXY x y ++ rest) = .tok (cupTokXY x y) (cupXY x y).length := by
  have hpok : ParamsOK [y + 1, x + 1] :=
    ⟨by simp, by simp [paramCap], by
      intro n hn
      simp only [List.mem_cons, List.not_mem_nil, or_false] at hn
      unfold paramMax at hx hy ⊢; omega⟩
  rw [cupXY_eq]
  exact next_csiSeq [y + 1, x + 1] 0x48 (Or.inr rfl) hpok rest

/-- cursor positioning on the outer terminal, from any cursor position -/
theorem apply_cup_stG (cw : Nat → Nat) (pol : WidePolicy) (W H : Nat) (G : List Row) (cx cy : Nat)
    (sty : Style) (x y : Nat) (hx : x < W) (hy : y < H) :
    ((stG pol W H G cx cy sty).apply cw (cupTokXY x y)).1 = stG pol W H G x y sty := by
  have h1 : clampNat (y : Int) (H - 1) = y := by
    unfold clampNat; omega
  have h2 : clampNat (x : Int) (W - 1) = x := by
    unfold clampNat; omega
  simp only [cupTokXY, Term.apply, Term.csi, Term.csiPlain, if_true, Term.scr, stG, Term.init,
    Bool.false_eq_true, if_false, Term.withScr, Term.setScr, Scr.setCursor, pAt]
  simp [scrG, Scr.init, h1, h2]

/-- a row that is still blank is `x` blanks followed by blanks: positioning the cursor at column
    `x` of it starts the painting with `done = x blanks` -/
theorem stG_eq_stP (pol : WidePolicy) (W H : Nat) (G : List Row) (x y : Nat) (sty : Style)
    (hx : x < W) (hrow : G[y]? = some (blankRow W Style.default)) :
    stG pol W H G x y sty = stP pol W H G y (blankRow x Style.default) sty := by
  have e1 : rowG W G y (blankRow x Style.default) = G := by
    unfold rowG
    rw [length_blankRow, ← blankRow_split W x _ (by omega)]
    apply List.ext_getElem?
    intro i
    rw [List.getElem?_set]
    split
    · next h =>
      subst h
      obtain ⟨hlt, hget⟩ := List.getElem?_eq_some_iff.1 hrow
      simp [hlt, hget]
    · rfl
  have e2 : min (blankRow x Style.default).length (W - 1) = x := by
    rw [length_blankRow]; omega
  unfold stP
  rw [e1, e2]

end Lemmas
open Lemmas


namespace Lemmas

theorem rowG_row (W : Nat) (G : List Row) (y : Nat) (done : Row) (hy : y < G.length) :
    (rowG W G y done).getD y [] = done ++ blankRow (W - done.length) Style.default := by
  simp [rowG, hy]

theorem rowG_rowG (W : Nat) (G : List Row) (y : Nat) (a b : Row) :
    rowG W (rowG W G y a) y b = rowG W G y b := by
  simp [rowG]

/-- one character written by the outer terminal while it paints row `y` (generalisation of
    `C11.Lemmas.put_scrT` to an arbitrary grid) -/
theorem put_scrP (pol : WidePolicy) (W H : Nat) (G : List Row) (y : Nat) (done : Row) (sty : Style)
    (t : Bytes) (w0 w : Nat) (hy : y < G.length) (hw0 : max w0 1 = w) (hfit : done.length + w ≤ W) :
    Scr.put pol (scrG W H (rowG W G y done) (min done.length (W - 1)) y sty) t w0 =
      scrG W H (rowG W G y (done ++ charCells t w sty))
        (min (done ++ charCells t w sty).length (W - 1)) y sty := by
  have hw : 1 ≤ w := by omega
  have hrow : (scrG W H (rowG W G y done) (min done.length (W - 1)) y sty).row y =
      done ++ blankRow (W - done.length) Style.default := rowG_row W G y done hy
  have hmin0 : min done.length (W - 1) = done.length := by omega
  have hcont : contAt (done ++ blankRow (W - done.length) Style.default) done.length = false := by
    simpa using contAt_blankTail done (W - done.length) 0 Style.default
  have hput := rowPut_blankTail done (W - done.length) t w sty hw (by omega)
  unfold Scr.put
  simp only [hw0]
  have e1 : (scrG W H (rowG W G y done) (min done.length (W - 1)) y sty).w = W := rfl
  have e2 : (scrG W H (rowG W G y done) (min done.length (W - 1)) y sty).cy = y := rfl
  have e3 : (scrG W H (rowG W G y done) (min done.length (W - 1)) y sty).wrap = false := rfl
  have e4 : (scrG W H (rowG W G y done) (min done.length (W - 1)) y sty).sty = sty := rfl
  have e5 : (scrG W H (rowG W G y done) (min done.length (W - 1)) y sty).cx = done.length := hmin0
  simp only [e1, e2, e3, e4, e5, hrow, hcont, hput, if_neg (show ¬ w > W by omega),
    if_neg (show ¬ done.length + w > W by omega), Bool.false_and, Bool.false_eq_true, if_false,
    Nat.add_zero]
  have hlen : (done ++ charCells t w sty).length = done.length + w := by
    rw [List.length_append, length_charCells _ _ _ hw]
  have hsub : W - done.length - w = W - (done ++ charCells t w sty).length := by rw [hlen]; omega
  rw [hsub]
  have hset : ((scrG W H (rowG W G y done) (min done.length (W - 1)) y sty).setRow y
      (done ++ charCells t w sty ++ blankRow (W - (done ++ charCells t w sty).length) Style.default)) =
      scrG W H (rowG W G y (done ++ charCells t w sty)) (min done.length (W - 1)) y sty := by
    simp [Scr.setRow, scrG, rowG]
  rw [hset]
  by_cases hlt : done.length + w < W
  · have hmin : min (done.length + w) (W - 1) = done.length + w := by omega
    simp [scrG, Scr.init, hlt, hlen, hmin, hmin0]
  · have hmin : min (done.length + w) (W - 1) = W - 1 := by omega
    simp [scrG, Scr.init, hlt, hlen, hmin, hmin0]

theorem apply_text_stP (cw : Nat → Nat) (pol : WidePolicy) (W H : Nat) (G : List Row) (y : Nat)
    (done : Row) (sty : Style) (t : Bytes) (cp w : Nat) (hy : y < G.length)
    (hw0 : max (cw cp) 1 = w) (hfit : done.length + w ≤ W) :
    ((stP pol W H G y done sty).apply cw (.text t cp)).1 =
      stP pol W H G y (done ++ charCells t w sty) sty := by
  have := put_scrP pol W H G y done sty t (cw cp) w hy hw0 hfit
  simp only [Term.apply, Term.scr, Term.setScr, stP, stG, Term.init, Bool.false_eq_true, if_false, this]

/-- the current style after the characters `cs` have been written: the style of the last one -/
def lastSty (sty : Style) : List Ch → Style
  | [] => sty
  | c :: cs => lastSty c.st cs

/-- the induction over the characters of a row segment, in continuation style: whatever follows
    (`rest`) is read by the terminal in the exact state `stP … (done ++ cells)`, the current style
    being that of the last character written -/
theorem exec_chars_P (cw : Nat → Nat) (pol : WidePolicy) (W H : Nat) (G : List Row) (y : Nat)
    (hy : y < G.length) (rest : Bytes) (t' : Term) (cs : List Ch) :
    ∀ (done : Row) (prev : Option Style) (sty : Style),
    (∀ c ∈ cs, ChOK cw c) → done.length + (ofChars cs).length ≤ W →
    (∀ st, prev = some st → sty = st) →
    Exec cw (stP pol W H G y (done ++ ofChars cs) (lastSty sty cs)) rest t' →
    Exec cw (stP pol W H G y done sty) (renderCells prev (ofChars cs) ++ rest) t' := by
  induction cs with
  | nil =>
    intro done prev sty _ _ _ hk
    simp only [ofChars, List.flatMap_nil, List.append_nil, renderCells, List.nil_append, lastSty] at hk ⊢
    exact hk
  | cons c cs ih =>
    intro done prev sty hok hlen hprev hk
    obtain ⟨hw, hvalid, cp, hcp, h32, h127, ht, hwid⟩ := hok c (by simp)
    rw [ofChars_cons] at hlen hk ⊢
    have hclen : c.cells.length = c.w := length_charCells _ _ _ hw
    rw [List.length_append, hclen] at hlen
    have hE := ih (done ++ c.cells) (some c.st) c.st (fun q hq => hok q (by simp [hq]))
      (by rw [List.length_append, hclen]; omega) (fun st h => by cases h; rfl)
      (by rw [List.append_assoc]; exact hk)
    rw [renderCells_char]
    have htext : Exec cw (stP pol W H G y done c.st)
        (c.t ++ renderCells (some c.st) (ofChars cs) ++ rest) t' := by
      rw [ht, List.append_assoc]
      apply Exec.tok (next_text cp hcp h32 h127 _) (encodeRune_length_pos cp)
      rw [← ht, apply_text_stP cw pol W H G y done c.st c.t cp c.w hy hwid (by omega)]
      exact hE
    by_cases hp : prev = some c.st
    · rw [if_pos hp, List.nil_append, hprev _ hp]; exact htext
    · rw [if_neg hp, List.append_assoc]
      apply exec_ansiEscape cw c.st hvalid
      rw [withSty_stP]; exact htext

theorem charCells_sty (t : Bytes) (w : Nat) (st : Style) : ∀ c ∈ charCells t w st, c.sty = st := by
  intro c hc
  simp only [charCells, List.mem_cons, List.mem_replicate] at hc
  rcases hc with rfl | ⟨_, rfl⟩ <;> rfl

theorem lastSty_eq (cs : List Ch) : ∀ sty, lastSty sty cs = segSty sty (ofChars cs) := by
  induction cs with
  | nil => intro sty; rfl
  | cons c cs ih =>
    intro sty
    show lastSty c.st cs = _
    rw [ih, ofChars_cons]
    unfold segSty
    rw [List.getLast?_append]
    cases h : (ofChars cs).getLast? with
    | some d => rfl
    | none =>
      simp only [Option.map_none, Option.getD_none, Option.none_or]
      cases h2 : c.cells.getLast? with
      | none =>
        rw [List.getLast?_eq_none_iff] at h2
        simp [Ch.cells, charCells] at h2
      | some d =>
        have := charCells_sty c.t c.w c.st d (List.mem_of_getLast? h2)
        simp [this]

/-- one painted row segment: from any cursor position and style, `CUP(y+1, x+1)` followed by the
    cells `cells` (a `RowOK` row segment that fits right of column `x`) on a still-blank row `y`
    leaves the terminal in `stP … (x blanks ++ cells)`, the current style being that of the last
    cell written; continuation style -/
theorem exec_segment (cw : Nat → Nat) (pol : WidePolicy) (W H : Nat) (G : List Row) (cx cy : Nat)
    (sty : Style) (x y : Nat) (cells : Row) (rest : Bytes) (t' : Term)
    (hG : G.length = H) (hy : y < H) (hx : x < W) (hfit : x + cells.length ≤ W)
    (hmaxx : x < paramMax) (hmaxy : y < paramMax)
    (hrow : G[y]? = some (blankRow W Style.default)) (hok : RowOK cw cells)
    (hk : Exec cw (stP pol W H G y (blankRow x Style.default ++ cells) (segSty sty cells)) rest t') :
    Exec cw (stG pol W H G cx cy sty) (cupXY x y ++ renderCells none cells ++ rest) t' := by
  obtain ⟨cs, hcs, hch⟩ := rowOK_chars cw cells.length cells (Nat.le_refl _) hok
  rw [List.append_assoc]
  apply Exec.tok (next_cupXY x y hmaxx hmaxy _) (by simp [cupXY])
  rw [apply_cup_stG cw pol W H G cx cy sty x y hx hy, stG_eq_stP pol W H G x y sty hx hrow, hcs]
  apply exec_chars_P cw pol W H G y (by omega) rest t' cs _ none sty hch
    (by rw [length_blankRow, ← hcs]; exact hfit) (fun st h => by cases h)
  rw [lastSty_eq, ← hcs]; exact hk

theorem stP_row (pol : WidePolicy) (W H : Nat) (G : List Row) (y : Nat) (done : Row) (sty : Style)
    (hy : y < G.length) :
    (stP pol W H G y done sty).main.row y = done ++ blankRow (W - done.length) Style.default :=
  rowG_row W G y done hy

theorem stP_row_other (pol : WidePolicy) (W H : Nat) (G : List Row) (y : Nat) (done : Row)
    (sty : Style) (y' : Nat) (hne : y' ≠ y) :
    (stP pol W H G y done sty).main.row y' = G.getD y' [] := by
  show (rowG W G y done).getD y' [] = _
  simp [rowG, List.getD_eq_getElem?_getD, Ne.symm hne]

end Lemmas
open Lemmas


namespace Lemmas

theorem init_grid_get (W H y : Nat) (hy : y < H) :
    (Scr.init W H).grid[y]? = some (blankRow W Style.default) := by
  simp [Scr.init, hy]

theorem init_grid_length (W H : Nat) : (Scr.init W H).grid.length = H := by
  simp [Scr.init]

end Lemmas
open Lemmas


/-- the outer terminal after one row of the region has been painted on a fresh terminal,
    completely described: it is `stP` — fresh, except that row `y` holds `x` blanks, the window of
    the inner row and blanks again, the cursor stands behind the window (pinned on the last column
    when the window ends at the right edge) and the current style is the style of the last cell -/
theorem mirror_row_state (cw : Nat → Nat) (pol : WidePolicy) (W H x x2 y : Nat) (r : Row)
    (hy : y < H) (hx : x < x2) (hx2 : x2 ≤ W) (hmaxy : y < paramMax) (hmaxx : x < paramMax)
    (hlen : r.length = W) (hr : RowOK cw r) (hsp : cw 32 ≤ 1) :
    (run cw (Term.init pol W H) (cupXY x y ++ renderCells none (subCells r x x2))).1 =
      stP pol W H (Scr.init W H).grid y (blankRow x Style.default ++ subCells r x x2)
        (segSty Style.default (subCells r x x2)) := by
  have hok := subCells_rowOK cw r x x2 hr (by omega) hsp
  have hfit : x + (subCells r x x2).length ≤ W := by rw [subCells_length]; omega
  apply Exec.run
  have := exec_segment cw pol W H (Scr.init W H).grid 0 0 Style.default x y (subCells r x x2) [] _
    (init_grid_length W H) hy (by omega) hfit hmaxx hmaxy (init_grid_get W H y hy) hok (Exec.nil cw _)
  rwa [List.append_nil, stG_init] at this

/-- **one row mirrored into a fresh outer terminal.** `CUP(y+1, x+1)` followed by the styled cells
    of the window `[x, x2)` of the inner row `r` (what `renderRegionLocked` writes for one row),
    read by a fresh terminal of width `W`, puts exactly the window at columns `x … x2-1` of row
    `y` — same text, widths, continuation cells and packed styles, a wide character cut by the
    window showing as blanks in its own style — and leaves the cells left and right of it blank. -/
theorem mirror_row_fresh (cw : Nat → Nat) (pol : WidePolicy) (W H x x2 y : Nat) (r : Row)
    (hy : y < H) (hx : x < x2) (hx2 : x2 ≤ W) (hmaxy : y < paramMax) (hmaxx : x < paramMax)
    (hlen : r.length = W) (hr : RowOK cw r) (hsp : cw 32 ≤ 1) :
    (run cw (Term.init pol W H) (cupXY x y ++ renderCells none (subCells r x x2))).1.main.row y =
      blankRow x Style.default ++ subCells r x x2 ++ blankRow (W - x2) Style.default := by
  rw [mirror_row_state cw pol W H x x2 y r hy hx hx2 hmaxy hmaxx hlen hr hsp,
    stP_row _ _ _ _ _ _ _ (by rw [init_grid_length]; exact hy)]
  congr 2
  rw [List.length_append, length_blankRow, subCells_length]; omega

/-- … and no other row of the fresh terminal changes -/
theorem mirror_row_fresh_others (cw : Nat → Nat) (pol : WidePolicy) (W H x x2 y : Nat) (r : Row)
    (hy : y < H) (hx : x < x2) (hx2 : x2 ≤ W) (hmaxy : y < paramMax) (hmaxx : x < paramMax)
    (hlen : r.length = W) (hr : RowOK cw r) (hsp : cw 32 ≤ 1) (y' : Nat) (hne : y' ≠ y) :
    (run cw (Term.init pol W H) (cupXY x y ++ renderCells none (subCells r x x2))).1.main.row y' =
      (Term.init pol W H).main.row y' := by
  rw [mirror_row_state cw pol W H x x2 y r hy hx hx2 hmaxy hmaxx hlen hr hsp,
    stP_row_other _ _ _ _ _ _ _ _ hne]
  rfl

/-- … the cursor ends behind the window (pinned on the last column when the window reaches the
    right edge: autowrap is off) on row `y` -/
theorem mirror_row_fresh_cursor (cw : Nat → Nat) (pol : WidePolicy) (W H x x2 y : Nat) (r : Row)
    (hy : y < H) (hx : x < x2) (hx2 : x2 ≤ W) (hmaxy : y < paramMax) (hmaxx : x < paramMax)
    (hlen : r.length = W) (hr : RowOK cw r) (hsp : cw 32 ≤ 1) :
    let T := (run cw (Term.init pol W H) (cupXY x y ++ renderCells none (subCells r x x2))).1
    T.main.cx = min x2 (W - 1) ∧ T.main.cy = y := by
  intro T
  show T.main.cx = _ ∧ _
  have : T = _ := mirror_row_state cw pol W H x x2 y r hy hx hx2 hmaxy hmaxx hlen hr hsp
  rw [this]
  refine ⟨?_, rfl⟩
  show min (blankRow x Style.default ++ subCells r x x2).length (W - 1) = _
  rw [List.length_append, length_blankRow, subCells_length]
  congr 1; omega


/-! ## Part 4 — the whole painting on a fresh outer terminal -/

/-- the grid after the rows `y, …, y+n-1` of the region have been painted on `G` -/
def paintRows (W : Nat) (s : Scr) (x x2 : Nat) : List Row → Nat → Nat → List Row
  | G, _, 0 => G
  | G, y, n+1 =>
    paintRows W s x x2 (rowG W G y (blankRow x Style.default ++ subCells (s.row y) x x2)) (y + 1) n

/-- the outer terminal after the painting: fresh, except for the grid and autowrap (on) -/
def stFinal (pol : WidePolicy) (W H : Nat) (G : List Row) : Term :=
  { Term.init pol W H with main := { Scr.init W H with grid := G, wrap := true } }

namespace Lemmas

theorem paintRows_length (W : Nat) (s : Scr) (x x2 : Nat) : ∀ (n : Nat) (G : List Row) (y : Nat),
    (paintRows W s x x2 G y n).length = G.length := by
  intro n
  induction n with
  | zero => intro G y; rfl
  | succ n ih => intro G y; simp [paintRows, ih, rowG]

theorem paintRows_get (W : Nat) (s : Scr) (x x2 : Nat) : ∀ (n : Nat) (G : List Row) (y y' : Nat),
    y + n ≤ G.length →
    (paintRows W s x x2 G y n)[y']? =
      if y ≤ y' ∧ y' < y + n then
        some (blankRow x Style.default ++ subCells (s.row y') x x2 ++
          blankRow (W - (x + (x2 - x))) Style.default)
      else G[y']? := by
  intro n
  induction n with
  | zero => intro G y y' _; rw [paintRows, if_neg (by omega)]
  | succ n ih =>
    intro G y y' hle
    rw [paintRows, ih _ _ _ (by simp only [rowG, List.length_set]; omega)]
    by_cases h1 : y + 1 ≤ y' ∧ y' < y + 1 + n
    · rw [if_pos h1, if_pos (by omega)]
    · rw [if_neg h1]
      by_cases h2 : y' = y
      · subst h2
        rw [if_pos (by omega)]
        simp only [rowG, List.length_append, length_blankRow, subCells_length]
        rw [List.getElem?_set_self (by omega)]
      · rw [if_neg (by omega)]
        simp only [rowG]
        rw [List.getElem?_set_ne (Ne.symm h2)]

theorem ansiReset_eq : ansiReset = Style.default.ansiEscape := by decide

/-- all rows of the region, continuation style -/
theorem exec_rows (cw : Nat → Nat) (pol : WidePolicy) (W H : Nat) (s : Scr) (x x2 : Nat)
    (hx : x < x2) (hx2 : x2 ≤ W) (hmaxx : x < paramMax) (hsp : cw 32 ≤ 1) (rest : Bytes) (t' : Term) :
    ∀ (n : Nat) (G : List Row) (y cx cy : Nat) (sty : Style),
    G.length = H → y + n ≤ H → y + n ≤ paramMax →
    (∀ y', y ≤ y' → y' < y + n → G[y']? = some (blankRow W Style.default)) →
    (∀ y', y ≤ y' → y' < y + n → (s.row y').length = W ∧ RowOK cw (s.row y')) →
    (∀ cx' cy' sty', Exec cw (stG pol W H (paintRows W s x x2 G y n) cx' cy' sty') rest t') →
    Exec cw (stG pol W H G cx cy sty) (renderRows s x x2 y n ++ rest) t' := by
  intro n
  induction n with
  | zero =>
    intro G y cx cy sty _ _ _ _ _ hk
    exact hk cx cy sty
  | succ n ih =>
    intro G y cx cy sty hG hle hmax hblank hrows hk
    obtain ⟨hlen, hr⟩ := hrows y (Nat.le_refl _) (by omega)
    have hok := subCells_rowOK cw (s.row y) x x2 hr (by omega) hsp
    have hfit : x + (subCells (s.row y) x x2).length ≤ W := by rw [subCells_length]; omega
    rw [renderRows, List.append_assoc]
    apply exec_segment cw pol W H G cx cy sty x y _ _ t' hG (by omega) (by omega) hfit hmaxx
      (by omega) (hblank y (Nat.le_refl _) (by omega)) hok
    unfold stP
    apply ih _ (y + 1) _ _ _ (by simp only [rowG, List.length_set]; exact hG) (by omega) (by omega)
    · intro y' h1 h2
      simp only [rowG]
      rw [List.getElem?_set_ne (by omega)]
      exact hblank y' (by omega) (by omega)
    · intro y' h1 h2
      exact hrows y' (by omega) (by omega)
    · exact hk

theorem apply_save_init (cw : Nat → Nat) (pol : WidePolicy) (W H : Nat) :
    ((Term.init pol W H).apply cw (.csi 0 [] true 0x73)).1 = Term.init pol W H := rfl

theorem apply_nowrap_init (cw : Nat → Nat) (pol : WidePolicy) (W H : Nat) :
    ((Term.init pol W H).apply cw (.csi 0x3f [7] true 0x6c)).1 = Term.init pol W H := rfl

/-- `ESC [ ? 7 h` after the rows: autowrap on -/
theorem apply_wrap_stG (cw : Nat → Nat) (pol : WidePolicy) (W H : Nat) (G : List Row) (cx cy : Nat)
    (sty : Style) :
    ((stG pol W H G cx cy sty).apply cw (.csi 0x3f [7] true 0x68)).1 =
      { Term.init pol W H with main := { scrG W H G cx cy sty with wrap := true } } := rfl

/-- `ESC [ u`: back to the position `ESC [ s` saved, which is the home position -/
theorem apply_restore (cw : Nat → Nat) (pol : WidePolicy) (W H : Nat) (G : List Row) (cx cy : Nat) :
    (({ Term.init pol W H with main := { scrG W H G cx cy Style.default with wrap := true } } : Term).apply
      cw (.csi 0 [] true 0x75)).1 = stFinal pol W H G := rfl

end Lemmas
open Lemmas


/-- the grid of a fresh terminal of the inner screen's size after the painting of `r0` -/
def paintedGrid (s : Scr) (r0 : MRegion) : List Row :=
  paintRows s.w s (r0.clamp s.w s.h).x (r0.clamp s.w s.h).x2 (Scr.init s.w s.h).grid
    (r0.clamp s.w s.h).y ((r0.clamp s.w s.h).y2 - (r0.clamp s.w s.h).y)

namespace Lemmas

/-- the whole painting, continuation style: what follows it is read in the state `stFinal` -/
theorem exec_region (cw : Nat → Nat) (pol : WidePolicy) (s : Scr) (r0 : MRegion)
    (hne : (r0.clamp s.w s.h).isEmpty = false)
    (hrows : ∀ y, y < s.h → (s.row y).length = s.w ∧ RowOK cw (s.row y))
    (hsp : cw 32 ≤ 1) (hW : s.w ≤ paramMax) (hH : s.h ≤ paramMax) (rest : Bytes) (t' : Term)
    (hk : Exec cw (stFinal pol s.w s.h (paintedGrid s r0)) rest t') :
    Exec cw (Term.init pol s.w s.h) (renderRegion s r0 ++ rest) t' := by
  have hx : (r0.clamp s.w s.h).x < (r0.clamp s.w s.h).x2 := by
    simp only [MRegion.isEmpty, Bool.or_eq_false_iff, decide_eq_false_iff_not] at hne; omega
  have hy : (r0.clamp s.w s.h).y < (r0.clamp s.w s.h).y2 := by
    simp only [MRegion.isEmpty, Bool.or_eq_false_iff, decide_eq_false_iff_not] at hne; omega
  have hx2 : (r0.clamp s.w s.h).x2 ≤ s.w := by simp only [MRegion.clamp]; omega
  have hy2 : (r0.clamp s.w s.h).y2 ≤ s.h := by simp only [MRegion.clamp]; omega
  unfold renderRegion
  unfold paintedGrid at hk
  simp only [hne, Bool.false_eq_true, if_false]
  generalize r0.clamp s.w s.h = r at hx hy hx2 hy2 hk ⊢
  simp only [List.append_assoc]
  apply Exec.tok (a := ansiSaveCursor) (tk := .csi 0 [] true 0x73) rfl (by decide)
  rw [apply_save_init]
  apply Exec.tok (a := ansiWrapDisable) (tk := .csi 0x3f [7] true 0x6c) rfl (by decide)
  rw [apply_nowrap_init, ← stG_init]
  apply exec_rows cw pol s.w s.h s r.x r.x2 hx hx2 (by omega) hsp _ _ _ _ r.y 0 0 Style.default
    (init_grid_length _ _) (by omega) (by omega)
    (fun y' _ h2 => init_grid_get _ _ y' (by omega)) (fun y' _ h2 => hrows y' (by omega))
  intro cx' cy' sty'
  rw [ansiReset_eq]
  apply exec_ansiEscape cw Style.default TM.C07.Lemmas.valid_default
  rw [withSty_stG]
  apply Exec.tok (a := ansiWrapEnable) (tk := .csi 0x3f [7] true 0x68) rfl (by decide)
  rw [apply_wrap_stG]
  apply Exec.tok (a := ansiRestoreCursor) (tk := .csi 0 [] true 0x75) rfl (by decide)
  rw [apply_restore]
  exact hk

end Lemmas
open Lemmas

/-- the outer terminal after the whole painting `renderRegion s r0` has been read by a fresh
    terminal of the inner screen's size, completely described: it is fresh except for the painted
    grid and autowrap, which `ESC [ ? 7 h` leaves on — cursor at the position `ESC [ s` saved
    (home), current style default, saved cursor, margins, view state and the other buffer as in a
    fresh terminal -/
theorem mirror_region_state (cw : Nat → Nat) (pol : WidePolicy) (s : Scr) (r0 : MRegion)
    (hne : (r0.clamp s.w s.h).isEmpty = false)
    (hrows : ∀ y, y < s.h → (s.row y).length = s.w ∧ RowOK cw (s.row y))
    (hsp : cw 32 ≤ 1) (hW : s.w ≤ paramMax) (hH : s.h ≤ paramMax) :
    (run cw (Term.init pol s.w s.h) (renderRegion s r0)).1 =
      stFinal pol s.w s.h (paintedGrid s r0) := by
  apply Exec.run
  have := exec_region cw pol s r0 hne hrows hsp hW hH [] _ (Exec.nil cw _)
  rwa [List.append_nil] at this

/-- **the whole painting mirrored into a fresh outer terminal.** After `renderRegion s r0` (the
    painting part of `renderRegionLocked`) has been read by a fresh terminal of the inner screen's
    size: every row `y` of the clamped region holds `x` blanks, the window `[x, x2)` of the inner
    row `y` and blanks again; every other row is blank; the cursor is back at the position
    `ESC [ s` saved (home), autowrap is on and the current style is the default style. -/
theorem mirror_region_fresh (cw : Nat → Nat) (pol : WidePolicy) (s : Scr) (r0 : MRegion)
    (hne : (r0.clamp s.w s.h).isEmpty = false)
    (hrows : ∀ y, y < s.h → (s.row y).length = s.w ∧ RowOK cw (s.row y))
    (hsp : cw 32 ≤ 1) (hW : s.w ≤ paramMax) (hH : s.h ≤ paramMax) :
    let r := r0.clamp s.w s.h
    let T := (run cw (Term.init pol s.w s.h) (renderRegion s r0)).1
    (∀ y, r.y ≤ y → y < r.y2 → T.main.row y =
      blankRow r.x Style.default ++ subCells (s.row y) r.x r.x2 ++ blankRow (s.w - r.x2) Style.default) ∧
    (∀ y, y < s.h → ¬ (r.y ≤ y ∧ y < r.y2) → T.main.row y = blankRow s.w Style.default) ∧
    T.main.cx = 0 ∧ T.main.cy = 0 ∧ T.main.wrap = true ∧ T.main.sty = Style.default ∧
    T.main.w = s.w ∧ T.main.h = s.h ∧ T.main.grid.length = s.h ∧ T.onAlt = false := by
  intro r T
  have hT : T = _ := mirror_region_state cw pol s r0 hne hrows hsp hW hH
  unfold paintedGrid at hT
  have hr : r = r0.clamp s.w s.h := rfl
  rw [← hr] at hT hne
  have hy2 : r.y2 ≤ s.h := by rw [hr]; simp only [MRegion.clamp]; omega
  clear_value r T
  have hx : r.x < r.x2 := by
    simp only [MRegion.isEmpty, Bool.or_eq_false_iff, decide_eq_false_iff_not] at hne; omega
  have hy : r.y < r.y2 := by
    simp only [MRegion.isEmpty, Bool.or_eq_false_iff, decide_eq_false_iff_not] at hne; omega
  have hget := fun y' => paintRows_get s.w s r.x r.x2 (r.y2 - r.y) (Scr.init s.w s.h).grid r.y y'
    (by rw [init_grid_length]; omega)
  have hrow : ∀ y, T.main.row y = ((paintRows s.w s r.x r.x2 (Scr.init s.w s.h).grid r.y
      (r.y2 - r.y))[y]?).getD [] := by
    intro y
    rw [hT]
    show List.getD _ y [] = _
    rw [List.getD_eq_getElem?_getD]
    rfl
  refine ⟨?_, ?_, ?_, ?_, ?_, ?_, ?_, ?_, ?_, ?_⟩
  · intro y h1 h2
    rw [hrow, hget, if_pos (by omega)]
    show _ ++ _ ++ blankRow (s.w - (r.x + (r.x2 - r.x))) _ = _
    congr 2; omega
  · intro y h1 h2
    rw [hrow, hget, if_neg (by omega), init_grid_get _ _ _ h1]
    rfl
  all_goals rw [hT]
  · rfl
  · rfl
  · rfl
  · rfl
  · rfl
  · rfl
  · show (paintRows _ _ _ _ _ _ _).length = _
    rw [paintRows_length, init_grid_length]
  · rfl

/-- an empty (clamped) region paints nothing -/
theorem mirror_region_empty (s : Scr) (r0 : MRegion) (he : (r0.clamp s.w s.h).isEmpty = true) :
    renderRegion s r0 = [] := by
  simp [renderRegion, he]


/-! ## Part 5 — `Attach` end to end on a fresh outer terminal -/

namespace Lemmas

theorem apply_hide_final (cw : Nat → Nat) (pol : WidePolicy) (W H : Nat) (G : List Row) :
    ((stFinal pol W H G).apply cw (.csi 0x3f [25] true 0x6c)).1 =
      { stFinal pol W H G with vflags := (stFinal pol W H G).vflags.set 1 false } := rfl

theorem apply_cup_final (cw : Nat → Nat) (pol : WidePolicy) (W H : Nat) (G : List Row) (x y : Nat)
    (hx : x < W) (hy : y < H) :
    ((stFinal pol W H G).apply cw (cupTokXY x y)).1 =
      { stFinal pol W H G with main := { (stFinal pol W H G).main with cx := x, cy := y } } := by
  have h1 : clampNat (y : Int) (H - 1) = y := by
    unfold clampNat; omega
  have h2 : clampNat (x : Int) (W - 1) = x := by
    unfold clampNat; omega
  simp only [cupTokXY, Term.apply, Term.csi, Term.csiPlain, if_true, Term.scr, stFinal, Term.init,
    Bool.false_eq_true, if_false, Term.withScr, Term.setScr, Scr.setCursor, pAt]
  simp [Scr.init, h1, h2]

theorem apply_show_final (cw : Nat → Nat) (pol : WidePolicy) (W H : Nat) (G : List Row) (x y : Nat) :
    (({ stFinal pol W H G with main := { (stFinal pol W H G).main with cx := x, cy := y } } : Term).apply
      cw (.csi 0x3f [25] true 0x68)).1 =
      { stFinal pol W H G with main := { (stFinal pol W H G).main with cx := x, cy := y } } := rfl

end Lemmas
open Lemmas

/-- **`Attach` on a fresh outer terminal, end to end.** Everything `Attach(r0)` writes (the
    painting, then the cursor part), read by a fresh terminal of the inner screen's size: the
    result is the painted terminal `P` of `mirror_region_state` / `mirror_region_fresh`, and
    * when the cursor is to be shown (`showCur`, focused, announced position inside `r0`) the
      outer cursor stands at the announced position `(m.cx, m.cy)` and stays visible,
    * otherwise the outer cursor is hidden (view flag 1 off) and nothing else changes.
    `m.cx < s.w`, `m.cy < s.h`: the announced cursor lies on the screen (else `CUP` clamps it). -/
theorem attach_fresh (cw : Nat → Nat) (pol : WidePolicy) (m : Mirror) (s : Scr) (r0 : MRegion)
    (hne : (r0.clamp s.w s.h).isEmpty = false)
    (hrows : ∀ y, y < s.h → (s.row y).length = s.w ∧ RowOK cw (s.row y))
    (hsp : cw 32 ≤ 1) (hW : s.w ≤ paramMax) (hH : s.h ≤ paramMax)
    (hcx : m.cx < s.w) (hcy : m.cy < s.h) :
    let P := (run cw (Term.init pol s.w s.h) (renderRegion s r0)).1
    let T := (run cw (Term.init pol s.w s.h) (m.step s (.attach r0)).2).1
    let vis := m.showCur = true ∧ m.focused = true ∧ r0.x ≤ m.cx ∧ m.cx < r0.x2 ∧
      r0.y ≤ m.cy ∧ m.cy < r0.y2
    (m.step s (.attach r0)).1 = { m with region := r0, attached := true } ∧
    (vis → T = { P with main := { P.main with cx := m.cx, cy := m.cy } }) ∧
    (¬ vis → T = { P with vflags := P.vflags.set 1 false }) := by
  intro P T vis
  have hP : P = _ := mirror_region_state cw pol s r0 hne hrows hsp hW hH
  have hout : (m.step s (.attach r0)).2 =
      renderRegion s r0 ++ ({ m with region := r0, attached := true } : Mirror).renderCursor := by
    simp [Mirror.step, Mirror.renderRegion, hne]
  obtain ⟨hs1, hs2⟩ := cursor_spec { m with region := r0, attached := true } rfl
  refine ⟨rfl, ?_, ?_⟩
  · intro hv
    show (run cw _ _).1 = _
    rw [hout, hs1.2 hv, hP]
    apply Exec.run
    apply exec_region cw pol s r0 hne hrows hsp hW hH
    apply Exec.tok (next_cupXY m.cx m.cy (by omega) (by omega) _) (by simp [cupXY])
    rw [apply_cup_final cw pol s.w s.h _ m.cx m.cy hcx hcy]
    have e : ansiCursorShow = ansiCursorShow ++ [] := (List.append_nil _).symm
    rw [e]
    apply Exec.tok (a := ansiCursorShow) (tk := .csi 0x3f [25] true 0x68) rfl (by decide)
    rw [apply_show_final]
    exact Exec.nil cw _
  · intro hv
    show (run cw _ _).1 = _
    rw [hout, hs2 hv, hP]
    apply Exec.run
    apply exec_region cw pol s r0 hne hrows hsp hW hH
    have e : ansiCursorHide = ansiCursorHide ++ [] := (List.append_nil _).symm
    rw [e]
    apply Exec.tok (a := ansiCursorHide) (tk := .csi 0x3f [25] true 0x6c) rfl (by decide)
    rw [apply_hide_final]
    exact Exec.nil cw _

/-! ## Part 6 — repainting one row of a NON-fresh outer terminal

Row level first: `paintChars F p cs` is the row after the characters `cs` have been written one
after the other with `Row.put`, starting at column `p`. -/

/-- the row after the characters `cs` have been written from column `p` on (`Row.put` each) -/
def paintChars (F : Row) (p : Nat) : List Ch → Row
  | [] => F
  | c :: cs => paintChars (F.put p c.t c.w c.st) (p + c.w) cs

/-- the style of cell `k` of a segment (default when there is none) -/
def styAt (cells : Row) (k : Nat) : Style := (cells.getD k (blank Style.default)).sty

/-- the invariant of the repaint of `[x, …)` on the outer row `R` (column `x` not a continuation
    cell) when the cells `done` have been written and the cursor is at column `p`: left of `x`
    nothing has changed; `[x, p)` holds `done`; right of `p`, the cells of an outer character
    that started before `p` are blanks in the style of the written cell that stands on the
    character's first column, everything else is unchanged -/
structure PaintInv (R : Row) (x p : Nat) (done F : Row) : Prop where
  hxp : x ≤ p
  hdone : done.length = p - x
  hlen : F.length = R.length
  hwf : rowWF F = true
  cell : ∀ i, i < R.length → F[i]? =
    if i < x then R[i]?
    else if i < p then done[i - x]?
    else if headOf R i < p then some (blank (styAt done (headOf R i - x)))
    else R[i]?

namespace Lemmas

theorem headOf_mid (r : Row) (c j : Nat) (h1 : headOf r c ≤ j) (h2 : j ≤ c) :
    headOf r j = headOf r c :=
  TM.C03.Lemmas.headOf_unique r j (headOf r c) h1
    (fun k a b => TM.C03.Lemmas.headOf_cont r c k a (by omega)) (TM.C03.Lemmas.headOf_head r c)

/-- right of a clean column, characters start right of it -/
theorem headOf_ge_of_clean {r : Row} {x i : Nat} (hx : contAt r x = false) (hi : x ≤ i) :
    x ≤ headOf r i := by
  false_or_by_contra
  have := TM.C03.Lemmas.headOf_cont r i x (by omega) hi
  rw [this] at hx; cases hx

theorem inChar_congr {r r' : Row} {c i : Nat}
    (h : ∀ j, headOf r c ≤ j → j ≤ c → r'[j]? = r[j]?) :
    TM.C03.Lemmas.inChar r' c i ↔ TM.C03.Lemmas.inChar r c i := by
  have hle := TM.C03.Lemmas.headOf_le r c
  have e1 : contAt r' c = contAt r c := TM.C03.Lemmas.contAt_congr (h c hle (Nat.le_refl _))
  have e2 : headOf r' c = headOf r c := TM.C03.Lemmas.headOf_congr h
  have e3 : widthAt r' (headOf r c) = widthAt r (headOf r c) :=
    TM.C03.Lemmas.widthAt_congr (h _ (Nat.le_refl _) hle)
  unfold TM.C03.Lemmas.inChar
  rw [e1, e2, e3]

theorem styAt_append_left (a b : Row) (k : Nat) (hk : k < a.length) : styAt (a ++ b) k = styAt a k := by
  unfold styAt
  rw [List.getD_eq_getElem?_getD, List.getD_eq_getElem?_getD, List.getElem?_append_left hk]

theorem styAt_append_cells (a : Row) (t : Bytes) (w : Nat) (st : Style) (k : Nat)
    (h1 : a.length ≤ k) (h2 : k < a.length + w) : styAt (a ++ charCells t w st) k = st := by
  unfold styAt
  rw [List.getD_eq_getElem?_getD, List.getElem?_append_right h1,
    getElem?_charCells _ _ _ _ (by omega)]
  simp only [Option.getD_some]
  split <;> rfl

end Lemmas
open Lemmas

theorem PaintInv.clean {R : Row} {x p : Nat} {done F : Row} (hR : rowWF R = true)
    (inv : PaintInv R x p done F) : contAt F p = false := by
  by_cases hp : p < R.length
  · have := inv.cell p hp
    rw [if_neg (by have := inv.hxp; omega), if_neg (Nat.lt_irrefl _)] at this
    split at this
    · exact TM.C03.Lemmas.contAt_blank_false this
    · next hh =>
      have hle := TM.C03.Lemmas.headOf_le R p
      have he : headOf R p = p := by omega
      rw [TM.C03.Lemmas.contAt_congr this]
      rcases TM.C03.Lemmas.headOf_head R p with h0 | h0
      · rw [he] at h0; rw [h0]; exact TM.C03.Lemmas.wf_cont0 hR
      · rw [he] at h0; exact h0
  · exact TM.C03.Lemmas.contAt_ge (by rw [inv.hlen]; omega)

theorem PaintInv.init {R : Row} {x : Nat} (hR : rowWF R = true) (hx : contAt R x = false) :
    PaintInv R x x [] R where
  hxp := Nat.le_refl _
  hdone := by simp
  hlen := rfl
  hwf := hR
  cell := by
    intro i hi
    split
    · rfl
    · rw [if_neg]
      have := headOf_ge_of_clean (i := i) hx (by omega)
      omega

/-- one `Row.put` at the cursor keeps the invariant -/
theorem PaintInv.step {R : Row} {x p : Nat} {done F : Row} (hR : rowWF R = true)
    (hx : contAt R x = false) (inv : PaintInv R x p done F) (t : Bytes) (w : Nat) (st : Style)
    (hw : 1 ≤ w) (hfit : p + w ≤ R.length) :
    PaintInv R x (p + w) (done ++ charCells t w st) (F.put p t w st) where
  hxp := by have := inv.hxp; omega
  hdone := by
    rw [List.length_append, length_charCells _ _ _ hw, inv.hdone]; have := inv.hxp; omega
  hlen := by rw [TM.C03.Row.put_length, inv.hlen]
  hwf := TM.C03.Row.put_wf F p t w st inv.hwf hw (by rw [inv.hlen]; exact hfit)
  cell := by
    intro i hi
    have hxp := inv.hxp
    have hdl := inv.hdone
    have hFl := inv.hlen
    have hclean := inv.clean hR
    have hiF : i < F.length := by omega
    -- the written row, cell by cell
    have hput : (F.put p t w st)[i]? =
        if p ≤ i ∧ i < p + w then (charCells t w st)[i - p]?
        else if TM.C03.Lemmas.inChar F (p + w) i then some (blank st) else F[i]? := by
      unfold Row.put
      rw [TM.C03.Lemmas.getElem?_setRange (by rw [TM.C03.Lemmas.length_blankStraddlers]; exact hiF),
        length_charCells _ _ _ hw, TM.C03.Lemmas.blankStraddlers_eq,
        TM.C03.Lemmas.fixAt_of_not_cont hclean, TM.C03.Lemmas.getElem?_fixAt hiF]
    -- the character at the right boundary, in terms of `R`
    have hin : TM.C03.Lemmas.inChar F (p + w) i ↔
        (p ≤ headOf R (p + w) ∧ TM.C03.Lemmas.inChar R (p + w) i) := by
      by_cases hc' : p + w < R.length
      · by_cases hh : headOf R (p + w) < p
        · have hb := inv.cell (p + w) hc'
          rw [if_neg (by omega), if_neg (by omega), if_pos hh] at hb
          have : contAt F (p + w) = false := TM.C03.Lemmas.contAt_blank_false hb
          constructor
          · intro h; rw [TM.C03.Lemmas.inChar, this] at h; cases h.1
          · intro h; omega
        · have hagree : ∀ j, headOf R (p + w) ≤ j → j ≤ p + w → F[j]? = R[j]? := by
            intro j j1 j2
            have hj := inv.cell j (by omega)
            rw [if_neg (by omega), if_neg (by omega), headOf_mid R (p + w) j j1 j2, if_neg hh] at hj
            exact hj
          rw [inChar_congr hagree]
          constructor
          · intro h; exact ⟨by omega, h⟩
          · intro h; exact h.2
      · have h1 : contAt F (p + w) = false := TM.C03.Lemmas.contAt_ge (by omega)
        have h2 : contAt R (p + w) = false := TM.C03.Lemmas.contAt_ge (by omega)
        constructor
        · intro h; rw [TM.C03.Lemmas.inChar, h1] at h; cases h.1
        · intro h; have := h.2; rw [TM.C03.Lemmas.inChar, h2] at this; cases this.1
    rw [hput]
    by_cases h1 : i < x
    · -- left of the window
      have hnc : ¬ TM.C03.Lemmas.inChar F (p + w) i := by
        rw [hin]
        intro ⟨ha, hb⟩
        have := hb.2.1; omega
      rw [if_neg (show ¬ (p ≤ i ∧ i < p + w) by omega), if_neg hnc, if_pos h1, inv.cell i hi,
        if_pos h1]
    · rw [if_neg h1]
      by_cases h2 : i < p
      · -- cells written before
        have hnc : ¬ TM.C03.Lemmas.inChar F (p + w) i := by
          rw [hin]
          intro ⟨ha, hb⟩
          have := hb.2.1; omega
        rw [if_neg (show ¬ (p ≤ i ∧ i < p + w) by omega), if_neg hnc,
          if_pos (show i < p + w by omega), inv.cell i hi, if_neg h1, if_pos h2,
          List.getElem?_append_left (by omega)]
      · by_cases h3 : i < p + w
        · -- the character just written
          rw [if_pos (show p ≤ i ∧ i < p + w from ⟨by omega, h3⟩), if_pos h3,
            List.getElem?_append_right (by omega), hdl]
          congr 1; omega
        · -- right of the cursor
          rw [if_neg (show ¬ (p ≤ i ∧ i < p + w) by omega), if_neg h3]
          have hFi := inv.cell i hi
          rw [if_neg h1, if_neg h2] at hFi
          by_cases hc : TM.C03.Lemmas.inChar F (p + w) i
          · rw [if_pos hc]
            obtain ⟨ha, hcR, hb1, hb2⟩ := hin.1 hc
            obtain ⟨t', w', s', hch, _, _, _, hw'⟩ :=
              TM.C03.Lemmas.wf_head hR (TM.C03.Lemmas.contAt_lt hcR)
            rw [hw'] at hb2
            have hhi : headOf R i = headOf R (p + w) := TM.C03.Lemmas.wf_headOf_eq hR hch hb1 hb2
            have hlt : headOf R (p + w) < p + w := by
              have hle := TM.C03.Lemmas.headOf_le R (p + w)
              have : headOf R (p + w) ≠ p + w := by
                intro e
                have := TM.C03.Lemmas.contAt_ch hch
                rw [e, hcR] at this; cases this
              omega
            rw [hhi, if_pos hlt, styAt_append_cells _ _ _ _ _ (by omega) (by omega)]
          · rw [if_neg hc, hFi]
            have hge := headOf_ge_of_clean (i := i) hx (by omega)
            by_cases h4 : headOf R i < p
            · rw [if_pos h4, if_pos (by omega), styAt_append_left _ _ _ (by omega)]
            · rw [if_neg h4, if_neg]
              intro h5
              apply hc
              rw [hin]
              have hmid := headOf_mid R i (p + w) (by omega) (by omega)
              obtain ⟨t', w', s', hch, _, hlt', _, hw'⟩ := TM.C03.Lemmas.wf_head hR hi
              refine ⟨by omega, TM.C03.Lemmas.headOf_cont R i (p + w) h5 (by omega), ?_, ?_⟩
              · rw [hmid]; exact TM.C03.Lemmas.headOf_le R i
              · rw [hmid, hw']; exact hlt'

/-- the invariant along all the characters of a segment -/
theorem PaintInv.chars {R : Row} {x : Nat} (hR : rowWF R = true) (hx : contAt R x = false) :
    ∀ (cs : List Ch) (F : Row) (p : Nat) (done : Row), PaintInv R x p done F →
    (∀ c ∈ cs, 1 ≤ c.w) → p + (ofChars cs).length ≤ R.length →
    PaintInv R x (p + (ofChars cs).length) (done ++ ofChars cs) (paintChars F p cs) := by
  intro cs
  induction cs with
  | nil =>
    intro F p done inv _ _
    simpa [ofChars, paintChars] using inv
  | cons c cs ih =>
    intro F p done inv hw hfit
    have hcw := hw c (by simp)
    have hcl : c.cells.length = c.w := length_charCells _ _ _ hcw
    rw [ofChars_cons, List.length_append, hcl] at hfit
    have h1 := inv.step hR hx c.t c.w c.st hcw (by omega)
    have h2 := ih _ _ _ h1 (fun q hq => hw q (by simp [hq])) (by omega)
    rw [ofChars_cons, List.length_append, hcl, ← List.append_assoc, ← Nat.add_assoc]
    exact h2

namespace Lemmas

/-- a write that starts on a continuation cell first blanks that character whole (grid policy):
    it is the write on the row with that character already blanked -/
theorem put_fix (r : Row) (a : Nat) (t : Bytes) (w : Nat) (st : Style) (hwf : rowWF r = true) :
    r.put a t w st = (TM.C03.Lemmas.fixAt r a st).put a t w st := by
  unfold Row.put
  rw [TM.C03.Lemmas.blankStraddlers_eq, TM.C03.Lemmas.blankStraddlers_eq,
    TM.C03.Lemmas.fixAt_of_not_cont (TM.C03.Lemmas.contAt_fixAt_self hwf a st)]

theorem contAt_put_right (F : Row) (p : Nat) (t : Bytes) (w : Nat) (st : Style)
    (hwf : rowWF F = true) (hw : 1 ≤ w) : contAt (F.put p t w st) (p + w) = false := by
  rw [TM.C03.Lemmas.contAt_congr (TM.C03.Row.put_outside F p t w st hw (p + w) (Or.inr (Nat.le_refl _)))]
  exact TM.C03.Lemmas.contAt_blankStraddlers_right hwf _ _ _

theorem styAt_zero_ofChars (c : Ch) (cs : List Ch) : styAt (ofChars (c :: cs)) 0 = c.st := by
  rw [ofChars_cons]
  simp [styAt, Ch.cells, charCells]

end Lemmas
open Lemmas

/-! ### the outer terminal -/

/-- an arbitrary outer terminal `o` with grid, cursor and current style of its main screen
    replaced -/
def stO (o : Term) (G : List Row) (cx cy : Nat) (sty : Style) : Term :=
  { o with main := { o.main with grid := G, cx := cx, cy := cy, sty := sty } }

/-- what the repaint assumes about the outer terminal: main screen active, autowrap off (the
    mirror sends `ESC [ ? 7 l` first), width `W`, row `y` on the screen -/
structure OuterOK (o : Term) (W y : Nat) : Prop where
  main : o.onAlt = false
  nowrap : o.main.wrap = false
  width : o.main.w = W
  hy : y < o.main.h
  hyG : y < o.main.grid.length

namespace Lemmas

theorem stO_self (o : Term) : stO o o.main.grid o.main.cx o.main.cy o.main.sty = o := rfl

theorem withSty_stO (o : Term) (ho : o.onAlt = false) (G : List Row) (cx cy : Nat) (sty s : Style) :
    withSty (stO o G cx cy sty) s = stO o G cx cy s := by
  simp [withSty, stO, Term.setScr, Term.scr, ho]

theorem apply_cup_stO (cw : Nat → Nat) (o : Term) (ho : o.onAlt = false) (G : List Row)
    (cx cy : Nat) (sty : Style) (x y : Nat) (hx : x < o.main.w) (hy : y < o.main.h) :
    ((stO o G cx cy sty).apply cw (cupTokXY x y)).1 = stO o G x y sty := by
  have h1 : clampNat (y : Int) (o.main.h - 1) = y := by
    unfold clampNat; omega
  have h2 : clampNat (x : Int) (o.main.w - 1) = x := by
    unfold clampNat; omega
  simp only [cupTokXY, Term.apply, Term.csi, Term.csiPlain, if_true, Term.scr, stO, ho,
    Bool.false_eq_true, if_false, Term.withScr, Term.setScr, Scr.setCursor, pAt]
  simp [h1, h2]

/-- one character written on row `y` of the outer terminal (autowrap off, the character fits):
    `Row.put` at the cursor, the cursor moves behind it or stays pinned on the last column.
    Either the grid policy, or the cursor does not stand on a continuation cell. -/
theorem put_scrO (pol : WidePolicy) (S : Scr) (W : Nat) (G : List Row) (y : Nat) (F : Row) (p : Nat)
    (sty : Style) (t : Bytes) (w0 w : Nat) (hW : S.w = W) (hwrap : S.wrap = false)
    (hy : y < G.length) (hw0 : max w0 1 = w) (hfit : p + w ≤ W)
    (hpol : pol = .blank ∨ contAt F p = false) :
    Scr.put pol { S with grid := G.set y F, cx := p, cy := y, sty := sty } t w0 =
      { S with grid := G.set y (F.put p t w sty), cx := min (p + w) (W - 1), cy := y, sty := sty } := by
  have hw : 1 ≤ w := by omega
  have hkeep : (contAt F p && pol == WidePolicy.keep) = false := by
    rcases hpol with h | h
    · subst h; simp
    · simp [h]
  generalize hS0 : ({ S with grid := G.set y F, cx := p, cy := y, sty := sty } : Scr) = S0
  have e1 : S0.w = W := by rw [← hS0]; exact hW
  have e2 : S0.cy = y := by rw [← hS0]
  have e3 : S0.wrap = false := by rw [← hS0]; exact hwrap
  have e4 : S0.sty = sty := by rw [← hS0]
  have e5 : S0.cx = p := by rw [← hS0]
  have hrow : S0.row y = F := by rw [← hS0]; simp [Scr.row, hy]
  unfold Scr.put
  simp only [hw0, e1, e2, e3, e4, e5, hrow, hkeep, if_neg (show ¬ w > W by omega),
    if_neg (show ¬ p + w > W by omega), Bool.false_eq_true, if_false, Nat.add_zero]
  have e6 : (S0.setRow y (F.put p t w sty)).w = W := e1
  have e7 : (S0.setRow y (F.put p t w sty)).cx = p := e5
  have e8 : (S0.setRow y (F.put p t w sty)).wrap = false := e3
  simp only [e6, e7, e8, Bool.false_eq_true, if_false]
  by_cases hlt : p + w < W
  · have hmin : min (p + w) (W - 1) = p + w := by omega
    rw [if_pos hlt, hmin, ← hS0]
    simp [Scr.setRow, hW, hwrap]
  · have hmin : min (p + w) (W - 1) = W - 1 := by omega
    rw [if_neg hlt, hmin, ← hS0]
    simp [Scr.setRow, hW, hwrap]

theorem apply_text_stO (cw : Nat → Nat) (o : Term) (W y : Nat) (ok : OuterOK o W y) (G : List Row)
    (F : Row) (p : Nat) (sty : Style) (t : Bytes) (cp w : Nat) (hy : y < G.length)
    (hw0 : max (cw cp) 1 = w) (hfit : p + w ≤ W) (hpol : o.pol = .blank ∨ contAt F p = false) :
    ((stO o (G.set y F) p y sty).apply cw (.text t cp)).1 =
      stO o (G.set y (F.put p t w sty)) (min (p + w) (W - 1)) y sty := by
  have := put_scrO o.pol o.main W G y F p sty t (cw cp) w ok.width ok.nowrap hy hw0 hfit hpol
  simp only [Term.apply, Term.scr, Term.setScr, stO, ok.main, Bool.false_eq_true, if_false, this]

/-- the characters of a segment written on row `y` of the outer terminal, continuation style -/
theorem exec_chars_O (cw : Nat → Nat) (o : Term) (W y : Nat) (ok : OuterOK o W y) (G : List Row)
    (hy : y < G.length) (rest : Bytes) (t' : Term) (cs : List Ch) :
    ∀ (F : Row) (p : Nat) (prev : Option Style) (sty : Style),
    (∀ c ∈ cs, ChOK cw c) → p + (ofChars cs).length ≤ W → F.length = W → rowWF F = true →
    (o.pol = .blank ∨ contAt F p = false) → (∀ st, prev = some st → sty = st) →
    Exec cw (stO o (G.set y (paintChars F p cs)) (min (p + (ofChars cs).length) (W - 1)) y
      (lastSty sty cs)) rest t' →
    Exec cw (stO o (G.set y F) (min p (W - 1)) y sty) (renderCells prev (ofChars cs) ++ rest) t' := by
  induction cs with
  | nil =>
    intro F p prev sty _ _ _ _ _ _ hk
    simpa [ofChars, renderCells, lastSty, paintChars] using hk
  | cons c cs ih =>
    intro F p prev sty hok hlen hFl hwf hpol hprev hk
    obtain ⟨hw, hvalid, cp, hcp, h32, h127, ht, hwid⟩ := hok c (by simp)
    rw [ofChars_cons] at hlen hk ⊢
    have hclen : c.cells.length = c.w := length_charCells _ _ _ hw
    rw [List.length_append, hclen] at hlen hk
    have hmin : min p (W - 1) = p := by omega
    have hE := ih (F.put p c.t c.w c.st) (p + c.w) (some c.st) c.st
      (fun q hq => hok q (by simp [hq])) (by omega)
      (by rw [TM.C03.Row.put_length]; exact hFl)
      (TM.C03.Row.put_wf F p c.t c.w c.st hwf hw (by omega))
      (Or.inr (contAt_put_right F p c.t c.w c.st hwf hw)) (fun st h => by cases h; rfl)
      (by rw [Nat.add_assoc]; exact hk)
    rw [renderCells_char, hmin]
    have htext : Exec cw (stO o (G.set y F) p y c.st)
        (c.t ++ renderCells (some c.st) (ofChars cs) ++ rest) t' := by
      rw [ht, List.append_assoc]
      apply Exec.tok (next_text cp hcp h32 h127 _) (encodeRune_length_pos cp)
      rw [← ht, apply_text_stO cw o W y ok G F p c.st c.t cp c.w hy hwid (by omega) hpol]
      exact hE
    by_cases hp : prev = some c.st
    · rw [if_pos hp, List.nil_append, hprev _ hp]; exact htext
    · rw [if_neg hp, List.append_assoc]
      apply exec_ansiEscape cw c.st hvalid
      rw [withSty_stO o ok.main]; exact htext

end Lemmas
open Lemmas

/-- the outer row after the repaint, cell by cell: `R` is the outer row before (with the
    character straddling `x`, if any, already blanked: see `repaint_row_state`), `cells` the
    window written at `[x, x2)` -/
def repaintedRow (R : Row) (x x2 : Nat) (cells : Row) : Row :=
  (List.range R.length).map fun i =>
    if i < x then R.getD i (blank Style.default)
    else if i < x2 then cells.getD (i - x) (blank Style.default)
    else if headOf R i < x2 then blank (styAt cells (headOf R i - x))
    else R.getD i (blank Style.default)

/-- the invariant determines the row -/
theorem PaintInv.eq {R : Row} {x p : Nat} {done F : Row} (inv : PaintInv R x p done F) :
    F = repaintedRow R x p done := by
  apply List.ext_getElem?
  intro i
  by_cases hi : i < R.length
  · rw [inv.cell i hi]
    unfold repaintedRow
    rw [List.getElem?_map, List.getElem?_range hi]
    simp only [Option.map_some]
    have hd := inv.hdone
    have hxp := inv.hxp
    split
    · rw [getD_of_lt hi, List.getElem?_eq_getElem hi]
    · split
      · rw [List.getD_eq_getElem?_getD, List.getElem?_eq_getElem (by omega)]; rfl
      · split
        · rfl
        · rw [getD_of_lt hi, List.getElem?_eq_getElem hi]
  · rw [List.getElem?_eq_none (by rw [inv.hlen]; omega),
      List.getElem?_eq_none (by simp [repaintedRow]; omega)]

namespace Lemmas

/-- one repainted row segment on an arbitrary outer terminal, continuation style -/
theorem exec_repaint_segment (cw : Nat → Nat) (o : Term) (W y : Nat) (ok : OuterOK o W y)
    (G : List Row) (cx cy : Nat) (sty : Style) (x x2 : Nat) (R0 cells : Row) (rest : Bytes) (t' : Term)
    (hG : G[y]? = some R0) (hRl : R0.length = W) (hRwf : rowWF R0 = true)
    (hx : x < x2) (hx2 : x2 ≤ W) (hcl : cells.length = x2 - x)
    (hmaxx : x < paramMax) (hmaxy : y < paramMax) (hok : RowOK cw cells)
    (hpol : o.pol = .blank ∨ contAt R0 x = false)
    (hk : Exec cw (stO o (G.set y (repaintedRow (TM.C03.Lemmas.fixAt R0 x (styAt cells 0)) x x2 cells))
      (min x2 (W - 1)) y (segSty sty cells)) rest t') :
    Exec cw (stO o G cx cy sty) (cupXY x y ++ renderCells none cells ++ rest) t' ∧
    PaintInv (TM.C03.Lemmas.fixAt R0 x (styAt cells 0)) x x2 cells
      (repaintedRow (TM.C03.Lemmas.fixAt R0 x (styAt cells 0)) x x2 cells) := by
  obtain ⟨hyG, hGy⟩ := List.getElem?_eq_some_iff.1 hG
  obtain ⟨cs, hcs, hch⟩ := rowOK_chars cw cells.length cells (Nat.le_refl _) hok
  -- the segment is not empty
  obtain ⟨c, cs', rfl⟩ : ∃ c cs', cs = c :: cs' := by
    cases cs with
    | nil => rw [hcs] at hcl; simp [ofChars] at hcl; omega
    | cons c cs' => exact ⟨c, cs', rfl⟩
  have hst0 : styAt cells 0 = c.st := by rw [hcs]; exact styAt_zero_ofChars c cs'
  have hRwf' : rowWF (TM.C03.Lemmas.fixAt R0 x c.st) = true := TM.C03.Lemmas.fixAt_wf hRwf x c.st
  have hclean : contAt (TM.C03.Lemmas.fixAt R0 x c.st) x = false :=
    TM.C03.Lemmas.contAt_fixAt_self hRwf x c.st
  have hRl' : (TM.C03.Lemmas.fixAt R0 x c.st).length = W := by rw [TM.C03.Lemmas.length_fixAt, hRl]
  -- the painted row, from `R0` and from `R0` with the straddler at `x` blanked
  have hpaint : paintChars R0 x (c :: cs') = paintChars (TM.C03.Lemmas.fixAt R0 x c.st) x (c :: cs') := by
    show paintChars (R0.put x c.t c.w c.st) _ _ = paintChars ((TM.C03.Lemmas.fixAt R0 x c.st).put x c.t c.w c.st) _ _
    rw [put_fix R0 x c.t c.w c.st hRwf]
  have hlen' : x + (ofChars (c :: cs')).length = x2 := by rw [← hcs, hcl]; omega
  have inv := PaintInv.chars hRwf' hclean (c :: cs') _ x [] (PaintInv.init hRwf' hclean)
    (fun q hq => (hch q hq).1) (by rw [hlen', hRl']; exact hx2)
  rw [hlen', List.nil_append, ← hcs, ← hpaint] at inv
  have hF := inv.eq
  rw [hst0] at hk ⊢
  refine ⟨?_, by rw [← hF]; exact inv⟩
  rw [List.append_assoc]
  apply Exec.tok (next_cupXY x y hmaxx hmaxy _) (by simp [cupXY])
  rw [apply_cup_stO cw o ok.main G cx cy sty x y (by rw [ok.width]; omega) ok.hy]
  have hset : G = G.set y R0 := by rw [← hGy, List.set_getElem_self]
  have hmin : x = min x (W - 1) := by omega
  rw [hset, hmin, hcs]
  apply exec_chars_O cw o W y ok G hyG rest t' (c :: cs') R0 x none sty hch (by omega) hRl hRwf hpol
    (fun st h => by cases h)
  rw [hlen', lastSty_eq, ← hcs, hF]
  exact hk

end Lemmas
open Lemmas

/-- **One row repainted on an ARBITRARY outer terminal: the complete state.** The outer terminal
    `o` shows its main screen, autowrap is off, row `y` has the screen's width and is well formed
    (`OuterOK`, `rowWF`); everything else — the other rows, cursor, current style, margins, saved
    cursor, the other buffer, view state — is arbitrary. After
    `CUP(y+1, x+1) ++ cells of the window [x, x2) of the inner row r` the terminal is `o` with
    row `y` replaced by `repaintedRow R x x2 window`, the cursor behind the window (pinned on the
    last column) and the current style that of the last cell written, where `R` is the outer row
    with the character straddling column `x` (if column `x` was one of its continuation cells)
    blanked whole in the style of the FIRST written cell (`fixAt`; `R` is the row itself when
    column `x` is not a continuation cell).
    Grid policy (`.blank`): no further hypothesis. Span policy (`.keep`): only when column `x` of
    the outer row is not a continuation cell (otherwise `Scr.put` takes the `putKeep` branch). -/
theorem repaint_row_state (cw : Nat → Nat) (o : Term) (W x x2 y : Nat) (r : Row) (ok : OuterOK o W y)
    (hRl : (o.main.row y).length = W) (hRwf : rowWF (o.main.row y) = true)
    (hx : x < x2) (hx2 : x2 ≤ W) (hmaxy : y < paramMax) (hmaxx : x < paramMax)
    (hlen : r.length = W) (hr : RowOK cw r) (hsp : cw 32 ≤ 1)
    (hpol : o.pol = .blank ∨ contAt (o.main.row y) x = false) :
    let R := TM.C03.Lemmas.fixAt (o.main.row y) x (styAt (subCells r x x2) 0)
    (run cw o (cupXY x y ++ renderCells none (subCells r x x2))).1 =
      stO o (o.main.grid.set y (repaintedRow R x x2 (subCells r x x2))) (min x2 (W - 1)) y
        (segSty o.main.sty (subCells r x x2)) ∧
    PaintInv R x x2 (subCells r x x2) (repaintedRow R x x2 (subCells r x x2)) := by
  intro R
  have hok := subCells_rowOK cw r x x2 hr (by omega) hsp
  have hG : o.main.grid[y]? = some (o.main.row y) := by
    rw [Scr.row, List.getD_eq_getElem?_getD, List.getElem?_eq_getElem ok.hyG]; rfl
  obtain ⟨h1, h2⟩ := exec_repaint_segment cw o W y ok o.main.grid o.main.cx o.main.cy o.main.sty x x2
    (o.main.row y) (subCells r x x2) [] _ hG hRl hRwf hx hx2 (subCells_length r x x2) hmaxx hmaxy hok
    hpol (Exec.nil cw _)
  rw [List.append_nil, stO_self] at h1
  exact ⟨Exec.run h1, h2⟩

namespace Lemmas

theorem stO_row (o : Term) (G : List Row) (y : Nat) (F : Row) (cx cy : Nat) (sty : Style)
    (hy : y < G.length) : (stO o (G.set y F) cx cy sty).main.row y = F := by
  simp [stO, Scr.row, hy]

theorem stO_row_other (o : Term) (y : Nat) (F : Row) (cx cy : Nat) (sty : Style) (y' : Nat)
    (hne : y' ≠ y) : (stO o (o.main.grid.set y F) cx cy sty).main.row y' = o.main.row y' := by
  simp [stO, Scr.row, List.getD_eq_getElem?_getD, Ne.symm hne]

/-- right of a clean column `c`, "the character covering `i` starts before `c`" never happens -/
theorem headOf_lt_iff_cutBy {r : Row} (hwf : rowWF r = true) {i c : Nat} (hi : i < r.length)
    (hci : c ≤ i) : headOf r i < c ↔ TM.C03.cutBy r i c := by
  obtain ⟨t, w, st, _, _, h3, _, h5⟩ := TM.C03.Lemmas.wf_head hwf hi
  unfold TM.C03.cutBy
  rw [h5]
  constructor
  · intro h; exact ⟨h, by omega⟩
  · intro h; exact h.1

theorem cutCell_congr {r r' : Row} {a b i : Nat}
    (h : ∀ j, headOf r i ≤ j → j ≤ i → r'[j]? = r[j]?) : cutCell r' a b i = cutCell r a b i := by
  have hle := TM.C03.Lemmas.headOf_le r i
  have e1 : headOf r' i = headOf r i := TM.C03.Lemmas.headOf_congr h
  have e2 : widthAt r' (headOf r i) = widthAt r (headOf r i) :=
    TM.C03.Lemmas.widthAt_congr (h _ (Nat.le_refl _) hle)
  have e3 : r'.getD i (blank Style.default) = r.getD i (blank Style.default) := by
    rw [List.getD_eq_getElem?_getD, List.getD_eq_getElem?_getD, h i hle (Nat.le_refl _)]
  unfold cutCell
  simp only [e1, e2, e3]

end Lemmas
open Lemmas

/-- **One row repainted on an arbitrary outer terminal, cell by cell** (hypotheses as in
    `repaint_row_state`; `O` = the outer row `y` before, `st0` = the style of the first cell of
    the window):
    1. the cells `[x, x2)` of row `y` are the window `subCells r x x2`;
    2. a cell LEFT of `x` is unchanged, unless the (wide) outer character covering it is cut by
       column `x` — then it is a blank in the style `st0` of the FIRST written cell;
    3. a cell RIGHT of `x2` is unchanged, unless the outer character covering it starts before
       `x2` — then it is a blank in the style of the written cell standing on that character's
       first column; this is stated on `R` = `O` with the straddler at `x` blanked (`R = O` when
       column `x` is not a continuation cell: then the condition is `cutBy O i x2`, see
       `repaint_row_right_clean`);
    4. every other row is unchanged; the cursor ends at `(min x2 (W-1), y)`; row `y` keeps its
       length and stays well formed; autowrap, the active buffer and the size are unchanged. -/
theorem repaint_row (cw : Nat → Nat) (o : Term) (W x x2 y : Nat) (r : Row) (ok : OuterOK o W y)
    (hRl : (o.main.row y).length = W) (hRwf : rowWF (o.main.row y) = true)
    (hx : x < x2) (hx2 : x2 ≤ W) (hmaxy : y < paramMax) (hmaxx : x < paramMax)
    (hlen : r.length = W) (hr : RowOK cw r) (hsp : cw 32 ≤ 1)
    (hpol : o.pol = .blank ∨ contAt (o.main.row y) x = false) :
    let O := o.main.row y
    let st0 := styAt (subCells r x x2) 0
    let R := TM.C03.Lemmas.fixAt O x st0
    let T := (run cw o (cupXY x y ++ renderCells none (subCells r x x2))).1
    (∀ i, x ≤ i → i < x2 → (T.main.row y)[i]? = (subCells r x x2)[i - x]?) ∧
    (∀ i, i < x → (T.main.row y)[i]? = if TM.C03.cutBy O i x then some (blank st0) else O[i]?) ∧
    (∀ i, x2 ≤ i → i < W → (T.main.row y)[i]? =
      if headOf R i < x2 then some (blank (styAt (subCells r x x2) (headOf R i - x))) else R[i]?) ∧
    (∀ y', y' ≠ y → T.main.row y' = o.main.row y') ∧
    T.main.cx = min x2 (W - 1) ∧ T.main.cy = y ∧
    (T.main.row y).length = W ∧ rowWF (T.main.row y) = true ∧
    T.main.wrap = false ∧ T.onAlt = false ∧ T.main.w = W ∧ T.main.h = o.main.h ∧
    T.main.grid.length = o.main.grid.length := by
  intro O st0 R T
  obtain ⟨hT, inv⟩ := repaint_row_state cw o W x x2 y r ok hRl hRwf hx hx2 hmaxy hmaxx hlen hr hsp hpol
  have hT' : T = _ := hT
  have hRl' : R.length = W := by rw [TM.C03.Lemmas.length_fixAt]; exact hRl
  have hRl'' : (TM.C03.Lemmas.fixAt (o.main.row y) x (styAt (subCells r x x2) 0)).length = W := hRl'
  have hOl : O.length = W := hRl
  have hrow : T.main.row y = repaintedRow R x x2 (subCells r x x2) := by
    rw [hT']; exact stO_row o _ y _ _ _ _ ok.hyG
  refine ⟨?_, ?_, ?_, ?_, ?_, ?_, ?_, ?_, ?_, ?_, ?_, ?_, ?_⟩
  · intro i h1 h2
    rw [hrow, inv.cell i (by omega), if_neg (by omega), if_pos h2]
  · intro i h1
    rw [hrow, inv.cell i (by omega), if_pos h1,
      TM.C03.Lemmas.getElem?_fixAt (show i < O.length by omega)]
    have := TM.C03.Lemmas.inChar_iff_cutBy hRwf (c := x) (show i < O.length by omega)
    by_cases hc : TM.C03.Lemmas.inChar O x i
    · rw [if_pos hc, if_pos (this.1 hc)]
    · rw [if_neg hc, if_neg (fun h => hc (this.2 h))]
  · intro i h1 h2
    rw [hrow, inv.cell i (by omega), if_neg (by omega), if_neg (by omega)]
  · intro y' hne
    rw [hT']; exact stO_row_other o y _ _ _ _ y' hne
  · rw [hT']; rfl
  · rw [hT']; rfl
  · rw [hrow, inv.hlen, hRl']
  · rw [hrow]; exact inv.hwf
  · rw [hT']; exact ok.nowrap
  · rw [hT']; exact ok.main
  · rw [hT']; exact ok.width
  · rw [hT']; rfl
  · rw [hT']; simp [stO]

/-- item 3 of `repaint_row` on the outer row itself when column `x` is not a continuation cell
    (both policies): a cell right of `x2` is unchanged unless the outer character covering it is
    cut by column `x2`; then it is a blank in the style of the written cell standing on the
    character's first column -/
theorem repaint_row_right_clean (cw : Nat → Nat) (o : Term) (W x x2 y : Nat) (r : Row)
    (ok : OuterOK o W y)
    (hRl : (o.main.row y).length = W) (hRwf : rowWF (o.main.row y) = true)
    (hx : x < x2) (hx2 : x2 ≤ W) (hmaxy : y < paramMax) (hmaxx : x < paramMax)
    (hlen : r.length = W) (hr : RowOK cw r) (hsp : cw 32 ≤ 1)
    (hclean : contAt (o.main.row y) x = false) (i : Nat) (h1 : x2 ≤ i) (h2 : i < W) :
    ((run cw o (cupXY x y ++ renderCells none (subCells r x x2))).1.main.row y)[i]? =
      if TM.C03.cutBy (o.main.row y) i x2 then
        some (blank (styAt (subCells r x x2) (headOf (o.main.row y) i - x)))
      else (o.main.row y)[i]? := by
  have h := (repaint_row cw o W x x2 y r ok hRl hRwf hx hx2 hmaxy hmaxx hlen hr hsp
    (Or.inr hclean)).2.2.1 i h1 h2
  rw [TM.C03.Lemmas.fixAt_of_not_cont hclean] at h
  rw [h]
  have := headOf_lt_iff_cutBy hRwf (i := i) (c := x2) (by omega) h1
  by_cases hc : headOf (o.main.row y) i < x2
  · rw [if_pos hc, if_pos (this.1 hc)]
  · rw [if_neg hc, if_neg (fun h => hc (this.2 h))]

/-- the outer row shows the window `[x0, x02)` of the inner row `r` -/
def Synced (O r : Row) (x0 x02 : Nat) : Prop :=
  ∀ i, x0 ≤ i → i < x02 → O[i]? = (subCells r x0 x02)[i - x0]?

/-- **A repaint re-synchronises the mirror.** The outer row `y` shows the window `[x0, x02)` (the
    attached region) of the inner row `r`. The inner row changes to `rNew`, which differs from `r`
    only inside `[x, x2) ⊆ [x0, x02)`, and the mirror repaints `[x, x2)` from `rNew`. If the
    repainted window cuts no character — neither of the outer row (columns `x`, `x2` are not
    continuation cells there) nor of the new inner row — then afterwards the outer row shows the
    window `[x0, x02)` of `rNew`. Either policy (column `x` of the outer row is clean). -/
theorem repaint_syncs (cw : Nat → Nat) (o : Term) (W x0 x02 x x2 y : Nat) (r rNew : Row)
    (ok : OuterOK o W y)
    (hOl : (o.main.row y).length = W) (hOwf : rowWF (o.main.row y) = true)
    (hsync : Synced (o.main.row y) r x0 x02)
    (hx0 : x0 ≤ x) (hx : x < x2) (hx2 : x2 ≤ x02) (hx02 : x02 ≤ W)
    (hox : contAt (o.main.row y) x = false) (hox2 : contAt (o.main.row y) x2 = false)
    (hnl : rNew.length = W) (hnew : RowOK cw rNew)
    (hagree : ∀ i, (i < x ∨ x2 ≤ i) → rNew[i]? = r[i]?)
    (hnx : contAt rNew x = false) (hnx2 : contAt rNew x2 = false)
    (hsp : cw 32 ≤ 1) (hmaxy : y < paramMax) (hmaxx : x < paramMax) :
    Synced ((run cw o (cupXY x y ++ renderCells none (subCells rNew x x2))).1.main.row y)
      rNew x0 x02 := by
  obtain ⟨p1, p2, p3, _⟩ := repaint_row cw o W x x2 y rNew ok hOl hOwf hx (by omega) hmaxy hmaxx hnl
    hnew hsp (Or.inr hox)
  have hwfN := hnew.wf
  intro i h1 h2
  rw [subCells_getElem? rNew x0 x02 (i - x0) (by omega), show x0 + (i - x0) = i by omega]
  have hold := hsync i h1 h2
  rw [subCells_getElem? r x0 x02 (i - x0) (by omega), show x0 + (i - x0) = i by omega] at hold
  by_cases hA : i < x
  · -- left of the repainted window: unchanged on both sides
    rw [p2 i hA, if_neg, hold]
    · congr 1
      exact (cutCell_congr (fun j _ j2 => hagree j (Or.inl (by omega)))).symm
    · intro hc
      have := ((TM.C03.Lemmas.cutBy_iff hOwf (show i < (o.main.row y).length by omega)).1 hc).1
      rw [hox] at this; cases this
  · by_cases hB : i < x2
    · -- inside the repainted window: the character lies inside both windows
      rw [p1 i (by omega) hB, subCells_getElem? rNew x x2 (i - x) (by omega),
        show x + (i - x) = i by omega]
      congr 1
      obtain ⟨t, w, st, hch, _, q3, _, q5⟩ := TM.C03.Lemmas.wf_head hwfN (show i < rNew.length by omega)
      have hge := headOf_ge_of_clean (i := i) hnx (by omega)
      have hle := TM.C03.Lemmas.headOf_le rNew i
      have hend : headOf rNew i + w ≤ x2 := by
        false_or_by_contra
        obtain ⟨_, _, cs, _⟩ := TM.C03.Lemmas.wf_ch hwfN hch
        have := cs x2 (by omega) (by omega)
        rw [hnx2] at this; cases this
      rw [cutCell_of_inside ⟨hge, by rw [q5]; exact hend⟩,
        cutCell_of_inside ⟨by omega, by rw [q5]; omega⟩]
    · -- right of the repainted window
      have hi : i < W := by omega
      rw [p3 i (by omega) hi, TM.C03.Lemmas.fixAt_of_not_cont hox]
      have hge := headOf_ge_of_clean (i := i) hox2 (by omega)
      rw [if_neg (by omega), hold]
      congr 1
      have hrx2 : contAt r x2 = false := by
        rw [← TM.C03.Lemmas.contAt_congr (hagree x2 (Or.inr (Nat.le_refl _)))]; exact hnx2
      have hger := headOf_ge_of_clean (i := i) hrx2 (by omega)
      exact (cutCell_congr (fun j j1 _ => hagree j (Or.inr (by omega)))).symm

/-! ## Part 7 — the region-level invariant

The whole painting `renderRegion s r0` over an ARBITRARY outer terminal of the inner screen's
size, and the capstone: an attached mirror keeps the outer terminal equal to the inner screen
inside its region. -/

/-- the new outer row: the window `[x, x2)` of the inner row `r` written over the outer row `R0`
    (the outer character straddling `x`, if any, blanked whole first) -/
def newRow (R0 r : Row) (x x2 : Nat) : Row :=
  repaintedRow (TM.C03.Lemmas.fixAt R0 x (styAt (subCells r x x2) 0)) x x2 (subCells r x x2)

/-- the grid after the rows `y, …, y+n-1` of the region have been repainted on `G` -/
def repaintRows (s : Scr) (x x2 : Nat) : List Row → Nat → Nat → List Row
  | G, _, 0 => G
  | G, y, n+1 => repaintRows s x x2 (G.set y (newRow (G.getD y []) (s.row y) x x2)) (y + 1) n

/-- the outer terminal once `ESC [ s`, `ESC [ ? 7 l` have been read: cursor saved, autowrap off -/
def stSaved (o : Term) : Term :=
  { o with main := { o.main with sx := o.main.cx, sy := o.main.cy, wrap := false } }

/-- the outer terminal after the whole painting: grid `G`, cursor back where it was, saved cursor
    overwritten with that position, autowrap ON, current style default; everything else as in `o` -/
def stDone (o : Term) (G : List Row) : Term :=
  { o with main := { o.main with grid := G, sx := o.main.cx, sy := o.main.cy, wrap := true,
                                 sty := Style.default } }

/-- the outer terminal between `ESC [ ? 7 h` and `ESC [ u` -/
def stPainted (o : Term) (G : List Row) (cx cy : Nat) : Term :=
  { o with main := { o.main with grid := G, cx := cx, cy := cy, sx := o.main.cx, sy := o.main.cy,
                                 wrap := true, sty := Style.default } }

/-- the outer terminal fits the inner screen: main screen active, same size, every row of the
    screen's width and well formed -/
structure OuterGrid (o : Term) (s : Scr) : Prop where
  main : o.onAlt = false
  width : o.main.w = s.w
  height : o.main.h = s.h
  glen : o.main.grid.length = s.h
  rows : ∀ y, y < s.h → (o.main.row y).length = s.w ∧ rowWF (o.main.row y) = true

namespace Lemmas

/-- the repainted row satisfies the painting invariant (row level, no terminal involved) -/
theorem paintInv_newRow (cw : Nat → Nat) (R0 cells : Row) (x x2 : Nat) (hRwf : rowWF R0 = true)
    (hx : x < x2) (hx2 : x2 ≤ R0.length) (hcl : cells.length = x2 - x) (hok : RowOK cw cells) :
    PaintInv (TM.C03.Lemmas.fixAt R0 x (styAt cells 0)) x x2 cells
      (repaintedRow (TM.C03.Lemmas.fixAt R0 x (styAt cells 0)) x x2 cells) := by
  obtain ⟨cs, hcs, hch⟩ := rowOK_chars cw cells.length cells (Nat.le_refl _) hok
  have hRwf' := TM.C03.Lemmas.fixAt_wf hRwf x (styAt cells 0)
  have hclean := TM.C03.Lemmas.contAt_fixAt_self hRwf x (styAt cells 0)
  have hlen' : x + (ofChars cs).length = x2 := by rw [← hcs, hcl]; omega
  have inv := PaintInv.chars hRwf' hclean cs _ x [] (PaintInv.init hRwf' hclean)
    (fun q hq => (hch q hq).1) (by rw [hlen', TM.C03.Lemmas.length_fixAt]; exact hx2)
  rw [hlen', List.nil_append, ← hcs] at inv
  have hF := inv.eq
  rw [← hF]; exact inv

/-- **row level: a repaint that cuts no character re-synchronises the row** -/
theorem synced_newRow (cw : Nat → Nat) (O r rNew : Row) (W x0 x02 x x2 : Nat)
    (hOl : O.length = W) (hOwf : rowWF O = true) (hsync : Synced O r x0 x02)
    (hx0 : x0 ≤ x) (hx : x < x2) (hx2 : x2 ≤ x02) (hx02 : x02 ≤ W)
    (hox : contAt O x = false) (hox2 : contAt O x2 = false)
    (hnl : rNew.length = W) (hnew : RowOK cw rNew) (hsp : cw 32 ≤ 1)
    (hleft : x0 < x → ∀ j, j < x → rNew[j]? = r[j]?)
    (hright : x2 < x02 → ∀ j, x2 ≤ j → rNew[j]? = r[j]?)
    (hnx : contAt rNew x = false) (hnx2 : contAt rNew x2 = false) :
    Synced (newRow O rNew x x2) rNew x0 x02 ∧ (newRow O rNew x x2).length = W ∧
      rowWF (newRow O rNew x x2) = true := by
  have hok := subCells_rowOK cw rNew x x2 hnew (by omega) hsp
  have inv := paintInv_newRow cw O (subCells rNew x x2) x x2 hOwf hx (by omega)
    (subCells_length rNew x x2) hok
  rw [TM.C03.Lemmas.fixAt_of_not_cont hox] at inv
  have hF : newRow O rNew x x2 = repaintedRow O x x2 (subCells rNew x x2) := by
    unfold newRow; rw [TM.C03.Lemmas.fixAt_of_not_cont hox]
  rw [hF]
  refine ⟨?_, by rw [inv.hlen, hOl], inv.hwf⟩
  have hwfN := hnew.wf
  intro i h1 h2
  rw [subCells_getElem? rNew x0 x02 (i - x0) (by omega), show x0 + (i - x0) = i by omega]
  have hold := hsync i h1 h2
  rw [subCells_getElem? r x0 x02 (i - x0) (by omega), show x0 + (i - x0) = i by omega] at hold
  rw [inv.cell i (by omega)]
  by_cases hA : i < x
  · rw [if_pos hA, hold]
    congr 1
    exact (cutCell_congr (fun j _ j2 => hleft (by omega) j (by omega))).symm
  · rw [if_neg hA]
    by_cases hB : i < x2
    · rw [if_pos hB, subCells_getElem? rNew x x2 (i - x) (by omega), show x + (i - x) = i by omega]
      congr 1
      obtain ⟨t, w, st, hch, _, q3, _, q5⟩ := TM.C03.Lemmas.wf_head hwfN (show i < rNew.length by omega)
      have hge := headOf_ge_of_clean (i := i) hnx (by omega)
      have hle := TM.C03.Lemmas.headOf_le rNew i
      have hend : headOf rNew i + w ≤ x2 := by
        false_or_by_contra
        obtain ⟨_, _, cs, _⟩ := TM.C03.Lemmas.wf_ch hwfN hch
        have := cs x2 (by omega) (by omega)
        rw [hnx2] at this; cases this
      rw [cutCell_of_inside ⟨hge, by rw [q5]; exact hend⟩,
        cutCell_of_inside ⟨by omega, by rw [q5]; omega⟩]
    · have hge := headOf_ge_of_clean (i := i) hox2 (by omega)
      rw [if_neg hB, if_neg (by omega), hold]
      congr 1
      have hrx2 : contAt r x2 = false := by
        rw [← TM.C03.Lemmas.contAt_congr (hright (by omega) x2 (Nat.le_refl _))]; exact hnx2
      have hger := headOf_ge_of_clean (i := i) hrx2 (by omega)
      exact (cutCell_congr (fun j j1 _ => hright (by omega) j (by omega))).symm

theorem repaintRows_length (s : Scr) (x x2 : Nat) : ∀ (n : Nat) (G : List Row) (y : Nat),
    (repaintRows s x x2 G y n).length = G.length := by
  intro n
  induction n with
  | zero => intro G y; rfl
  | succ n ih => intro G y; simp [repaintRows, ih]

theorem repaintRows_get (s : Scr) (x x2 : Nat) : ∀ (n : Nat) (G : List Row) (y y' : Nat),
    y + n ≤ G.length →
    (repaintRows s x x2 G y n)[y']? =
      if y ≤ y' ∧ y' < y + n then some (newRow (G.getD y' []) (s.row y') x x2) else G[y']? := by
  intro n
  induction n with
  | zero => intro G y y' _; rw [repaintRows, if_neg (by omega)]
  | succ n ih =>
    intro G y y' hle
    rw [repaintRows, ih _ _ _ (by simp only [List.length_set]; omega)]
    by_cases h1 : y + 1 ≤ y' ∧ y' < y + 1 + n
    · rw [if_pos h1, if_pos (by omega)]
      simp only [List.getD_eq_getElem?_getD]
      rw [List.getElem?_set_ne (by omega)]
    · rw [if_neg h1]
      by_cases h2 : y' = y
      · subst h2
        rw [if_pos (by omega), List.getElem?_set_self (by omega)]
      · rw [if_neg (by omega), List.getElem?_set_ne (Ne.symm h2)]

theorem stSaved_ok (o : Term) (s : Scr) (og : OuterGrid o s) (y : Nat) (hy : y < s.h) :
    OuterOK (stSaved o) s.w y :=
  ⟨og.main, rfl, og.width, by show y < o.main.h; rw [og.height]; exact hy,
    by show y < o.main.grid.length; rw [og.glen]; exact hy⟩

theorem apply_save (cw : Nat → Nat) (o : Term) (ho : o.onAlt = false) :
    (o.apply cw (.csi 0 [] true 0x73)).1 =
      { o with main := { o.main with sx := o.main.cx, sy := o.main.cy } } := by
  simp [Term.apply, Term.csi, Term.csiPlain, Term.scr, Term.setScr, ho, Scr.saveCursor]

theorem apply_nowrap (cw : Nat → Nat) (o : Term) (ho : o.onAlt = false) :
    (({ o with main := { o.main with sx := o.main.cx, sy := o.main.cy } } : Term).apply cw
      (.csi 0x3f [7] true 0x6c)).1 = stSaved o := by
  simp [Term.apply, Term.csi, Term.decModes, Term.decMode, Term.scr, Term.setScr, ho, stSaved]

theorem apply_wrap_stO (cw : Nat → Nat) (o : Term) (ho : o.onAlt = false) (G : List Row)
    (cx cy : Nat) :
    ((stO (stSaved o) G cx cy Style.default).apply cw (.csi 0x3f [7] true 0x68)).1 =
      stPainted o G cx cy := by
  simp [Term.apply, Term.csi, Term.decModes, Term.decMode, Term.scr, Term.setScr, ho, stSaved, stO,
    stPainted]

theorem apply_restore_O (cw : Nat → Nat) (o : Term) (ho : o.onAlt = false) (G : List Row)
    (cx cy : Nat) :
    ((stPainted o G cx cy).apply cw (.csi 0 [] true 0x75)).1 = stDone o G := by
  simp [Term.apply, Term.csi, Term.csiPlain, Term.scr, Term.setScr, Term.withScr, ho,
    Scr.restoreCursor, stDone, stPainted]

end Lemmas
open Lemmas

namespace Lemmas

/-- all rows of the region repainted on an arbitrary grid, continuation style. `o1` is any outer
    terminal satisfying `OuterOK` for the rows concerned (autowrap off). -/
theorem exec_rows_O (cw : Nat → Nat) (o1 : Term) (W : Nat) (s : Scr) (x x2 : Nat)
    (hx : x < x2) (hx2 : x2 ≤ W) (hmaxx : x < paramMax) (hsp : cw 32 ≤ 1) (rest : Bytes) (t' : Term) :
    ∀ (n : Nat) (G : List Row) (y cx cy : Nat) (sty : Style),
    y + n ≤ paramMax →
    (∀ y', y ≤ y' → y' < y + n → OuterOK o1 W y') →
    (∀ y', y ≤ y' → y' < y + n → ∃ R0, G[y']? = some R0 ∧ R0.length = W ∧ rowWF R0 = true ∧
      (o1.pol = .blank ∨ contAt R0 x = false)) →
    (∀ y', y ≤ y' → y' < y + n → (s.row y').length = W ∧ RowOK cw (s.row y')) →
    (∀ cx' cy' sty', Exec cw (stO o1 (repaintRows s x x2 G y n) cx' cy' sty') rest t') →
    Exec cw (stO o1 G cx cy sty) (renderRows s x x2 y n ++ rest) t' := by
  intro n
  induction n with
  | zero =>
    intro G y cx cy sty _ _ _ _ hk
    exact hk cx cy sty
  | succ n ih =>
    intro G y cx cy sty hmax hok hG hrows hk
    obtain ⟨hlen, hr⟩ := hrows y (Nat.le_refl _) (by omega)
    obtain ⟨R0, hGy, hRl, hRwf, hpol⟩ := hG y (Nat.le_refl _) (by omega)
    have hcells := subCells_rowOK cw (s.row y) x x2 hr (by omega) hsp
    have hR0 : G.getD y [] = R0 := by rw [List.getD_eq_getElem?_getD, hGy]; rfl
    rw [renderRows, List.append_assoc]
    refine (exec_repaint_segment cw o1 W y (hok y (Nat.le_refl _) (by omega)) G cx cy sty x x2 R0
      (subCells (s.row y) x x2) _ t' hGy hRl hRwf hx hx2 (subCells_length _ _ _) hmaxx (by omega)
      hcells hpol ?_).1
    apply ih _ (y + 1) _ _ _ (by omega) (fun y' h1 h2 => hok y' (by omega) (by omega))
    · intro y' h1 h2
      obtain ⟨R', h3, h4⟩ := hG y' (by omega) (by omega)
      exact ⟨R', by rw [List.getElem?_set_ne (by omega)]; exact h3, h4⟩
    · intro y' h1 h2
      exact hrows y' (by omega) (by omega)
    · intro cx' cy' sty'
      have := hk cx' cy' sty'
      rw [repaintRows, hR0] at this
      exact this

/-- the whole painting over an arbitrary outer terminal, continuation style -/
theorem exec_repaint_region (cw : Nat → Nat) (o : Term) (s : Scr) (r0 : MRegion) (og : OuterGrid o s)
    (hne : (r0.clamp s.w s.h).isEmpty = false)
    (hrows : ∀ y, (r0.clamp s.w s.h).y ≤ y → y < (r0.clamp s.w s.h).y2 →
      (s.row y).length = s.w ∧ RowOK cw (s.row y))
    (hpol : ∀ y, (r0.clamp s.w s.h).y ≤ y → y < (r0.clamp s.w s.h).y2 →
      o.pol = .blank ∨ contAt (o.main.row y) (r0.clamp s.w s.h).x = false)
    (hsp : cw 32 ≤ 1) (hW : s.w ≤ paramMax) (hH : s.h ≤ paramMax) (rest : Bytes) (t' : Term)
    (hk : Exec cw (stDone o (repaintRows s (r0.clamp s.w s.h).x (r0.clamp s.w s.h).x2 o.main.grid
      (r0.clamp s.w s.h).y ((r0.clamp s.w s.h).y2 - (r0.clamp s.w s.h).y))) rest t') :
    Exec cw o (renderRegion s r0 ++ rest) t' := by
  have hx : (r0.clamp s.w s.h).x < (r0.clamp s.w s.h).x2 := by
    simp only [MRegion.isEmpty, Bool.or_eq_false_iff, decide_eq_false_iff_not] at hne; omega
  have hy : (r0.clamp s.w s.h).y < (r0.clamp s.w s.h).y2 := by
    simp only [MRegion.isEmpty, Bool.or_eq_false_iff, decide_eq_false_iff_not] at hne; omega
  have hx2 : (r0.clamp s.w s.h).x2 ≤ s.w := by simp only [MRegion.clamp]; omega
  have hy2 : (r0.clamp s.w s.h).y2 ≤ s.h := by simp only [MRegion.clamp]; omega
  unfold renderRegion
  simp only [hne, Bool.false_eq_true, if_false]
  generalize r0.clamp s.w s.h = r at hx hy hx2 hy2 hk hrows hpol ⊢
  simp only [List.append_assoc]
  apply Exec.tok (a := ansiSaveCursor) (tk := .csi 0 [] true 0x73) rfl (by decide)
  rw [apply_save cw o og.main]
  apply Exec.tok (a := ansiWrapDisable) (tk := .csi 0x3f [7] true 0x6c) rfl (by decide)
  rw [apply_nowrap cw o og.main, ← stO_self (stSaved o)]
  apply exec_rows_O cw (stSaved o) s.w s r.x r.x2 hx hx2 (by omega) hsp _ _ _ _ r.y _ _ _ (by omega)
    (fun y' _ h2 => stSaved_ok o s og y' (by omega))
  · intro y' h1 h2
    have hy' : y' < s.h := by omega
    refine ⟨o.main.row y', ?_, (og.rows y' hy').1, (og.rows y' hy').2, hpol y' h1 (by omega)⟩
    show o.main.grid[y']? = _
    rw [Scr.row, List.getD_eq_getElem?_getD, List.getElem?_eq_getElem (by rw [og.glen]; exact hy')]
    rfl
  · intro y' h1 h2
    exact hrows y' h1 (by omega)
  · intro cx' cy' sty'
    rw [ansiReset_eq]
    apply exec_ansiEscape cw Style.default TM.C07.Lemmas.valid_default
    rw [withSty_stO (stSaved o) og.main]
    apply Exec.tok (a := ansiWrapEnable) (tk := .csi 0x3f [7] true 0x68) rfl (by decide)
    rw [apply_wrap_stO cw o og.main]
    apply Exec.tok (a := ansiRestoreCursor) (tk := .csi 0 [] true 0x75) rfl (by decide)
    rw [apply_restore_O cw o og.main]
    exact hk

end Lemmas
open Lemmas

/-- the grid of the outer terminal `o` after the painting of `r0` from the inner screen `s` -/
def repaintedGrid (o : Term) (s : Scr) (r0 : MRegion) : List Row :=
  repaintRows s (r0.clamp s.w s.h).x (r0.clamp s.w s.h).x2 o.main.grid
    (r0.clamp s.w s.h).y ((r0.clamp s.w s.h).y2 - (r0.clamp s.w s.h).y)

/-- **The whole painting over an ARBITRARY outer terminal: the complete state.** `o` shows its
    main screen and has the inner screen's size, every row of the screen's width and well formed
    (`OuterGrid`); autowrap, cursor, style, margins, the other buffer, view state arbitrary. After
    `renderRegion s r0` the terminal is `o` with the rows of the clamped region replaced by
    `newRow (old outer row) (inner row) x x2`, the cursor where it was, the SAVED cursor
    overwritten with that position, autowrap ON and the current style default (`stDone`).
    Grid policy: no further hypothesis; span policy: column `x` of no repainted outer row is a
    continuation cell. -/
theorem repaint_region_state (cw : Nat → Nat) (o : Term) (s : Scr) (r0 : MRegion) (og : OuterGrid o s)
    (hne : (r0.clamp s.w s.h).isEmpty = false)
    (hrows : ∀ y, (r0.clamp s.w s.h).y ≤ y → y < (r0.clamp s.w s.h).y2 →
      (s.row y).length = s.w ∧ RowOK cw (s.row y))
    (hpol : ∀ y, (r0.clamp s.w s.h).y ≤ y → y < (r0.clamp s.w s.h).y2 →
      o.pol = .blank ∨ contAt (o.main.row y) (r0.clamp s.w s.h).x = false)
    (hsp : cw 32 ≤ 1) (hW : s.w ≤ paramMax) (hH : s.h ≤ paramMax) :
    (run cw o (renderRegion s r0)).1 = stDone o (repaintedGrid o s r0) := by
  apply Exec.run
  have := exec_repaint_region cw o s r0 og hne hrows hpol hsp hW hH [] _ (Exec.nil cw _)
  rwa [List.append_nil] at this

/-- the rows of `repaintedGrid`: inside the clamped region `newRow`, outside unchanged -/
theorem repaintedGrid_row (o : Term) (s : Scr) (r0 : MRegion) (hg : o.main.grid.length = s.h)
    (y : Nat) :
    (stDone o (repaintedGrid o s r0)).main.row y =
      if (r0.clamp s.w s.h).y ≤ y ∧ y < (r0.clamp s.w s.h).y2 then
        newRow (o.main.row y) (s.row y) (r0.clamp s.w s.h).x (r0.clamp s.w s.h).x2
      else o.main.row y := by
  have hy2 : (r0.clamp s.w s.h).y2 ≤ s.h := by simp only [MRegion.clamp]; omega
  have hy1 : (r0.clamp s.w s.h).y ≤ s.h := by simp only [MRegion.clamp]; omega
  show List.getD (repaintedGrid o s r0) y [] = _
  unfold repaintedGrid
  rw [List.getD_eq_getElem?_getD, repaintRows_get _ _ _ _ _ _ _ (by omega)]
  by_cases h : (r0.clamp s.w s.h).y ≤ y ∧ y < (r0.clamp s.w s.h).y2
  · rw [if_pos (by omega), if_pos h]; rfl
  · rw [if_neg (by omega), if_neg h, Scr.row, List.getD_eq_getElem?_getD]

/-! ### the invariant -/

/-- cell `(x, y)` lies in the rectangle `D` -/
def inRect (D : MRegion) (x y : Nat) : Prop := D.x ≤ x ∧ x < D.x2 ∧ D.y ≤ y ∧ y < D.y2

/-- **the mirror invariant**: inside the (clamped) region `R`, every row of the outer terminal
    shows the window of the corresponding row of the inner screen -/
def SyncedRegion (o : Term) (s : Scr) (R : MRegion) : Prop :=
  ∀ y, (R.clamp s.w s.h).y ≤ y → y < (R.clamp s.w s.h).y2 →
    Synced (o.main.row y) (s.row y) (R.clamp s.w s.h).x (R.clamp s.w s.h).x2

/-- the cursor is to be shown: `cursor_spec` -/
def cursorVisible (m : Mirror) : Prop :=
  m.showCur = true ∧ m.focused = true ∧ m.region.x ≤ m.cx ∧ m.cx < m.region.x2 ∧
    m.region.y ≤ m.cy ∧ m.cy < m.region.y2

/-- the terminal with the cursor placed and shown -/
def withCursor (t : Term) (cx cy : Nat) : Term :=
  { t with main := { t.main with cx := cx, cy := cy }, vflags := t.vflags.set 1 true }

/-- the terminal with the cursor hidden -/
def cursorHidden (t : Term) : Term := { t with vflags := t.vflags.set 1 false }

namespace Lemmas

theorem apply_cup_any (cw : Nat → Nat) (t : Term) (ht : t.onAlt = false) (x y : Nat)
    (hx : x < t.main.w) (hy : y < t.main.h) :
    (t.apply cw (cupTokXY x y)).1 = { t with main := { t.main with cx := x, cy := y } } := by
  have := apply_cup_stO cw t ht t.main.grid t.main.cx t.main.cy t.main.sty x y hx hy
  rw [stO_self] at this
  exact this

theorem apply_show_any (cw : Nat → Nat) (t : Term) :
    (t.apply cw (.csi 0x3f [25] true 0x68)).1 = { t with vflags := t.vflags.set 1 true } := by
  simp [Term.apply, Term.csi, Term.decModes, Term.decMode, Term.setVFlag]

theorem apply_hide_any (cw : Nat → Nat) (t : Term) :
    (t.apply cw (.csi 0x3f [25] true 0x6c)).1 = cursorHidden t := by
  simp [Term.apply, Term.csi, Term.decModes, Term.decMode, Term.setVFlag, cursorHidden]

/-- the cursor part, read by any terminal showing its main screen -/
theorem exec_cursor (cw : Nat → Nat) (m : Mirror) (ha : m.attached = true) (t : Term)
    (ht : t.onAlt = false) (hcx : m.cx < t.main.w) (hcy : m.cy < t.main.h)
    (hmx : m.cx < paramMax) (hmy : m.cy < paramMax) :
    (cursorVisible m → Exec cw t m.renderCursor (withCursor t m.cx m.cy)) ∧
    (¬ cursorVisible m → Exec cw t m.renderCursor (cursorHidden t)) := by
  obtain ⟨hs1, hs2⟩ := cursor_spec m ha
  constructor
  · intro hv
    rw [hs1.2 hv]
    apply Exec.tok (next_cupXY m.cx m.cy hmx hmy _) (by simp [cupXY])
    rw [apply_cup_any cw t ht m.cx m.cy hcx hcy]
    have e : ansiCursorShow = ansiCursorShow ++ [] := (List.append_nil _).symm
    rw [e]
    apply Exec.tok (a := ansiCursorShow) (tk := .csi 0x3f [25] true 0x68) rfl (by decide)
    rw [apply_show_any]
    exact Exec.nil cw _
  · intro hv
    rw [hs2 hv]
    have e : ansiCursorHide = ansiCursorHide ++ [] := (List.append_nil _).symm
    rw [e]
    apply Exec.tok (a := ansiCursorHide) (tk := .csi 0x3f [25] true 0x6c) rfl (by decide)
    rw [apply_hide_any]
    exact Exec.nil cw _

end Lemmas
open Lemmas

namespace Lemmas

theorem rect_left (Dx Rx w j : Nat) (h : min Rx w < min (max Dx Rx) w) (hj : j < min (max Dx Rx) w) :
    j < Dx := by omega

theorem rect_right (Dx2 Rx2 w j : Nat) (h : min (min Dx2 Rx2) w < min Rx2 w)
    (hj : min (min Dx2 Rx2) w ≤ j) : Dx2 ≤ j := by omega

theorem rect_rows (Dy Dy2 Ry Ry2 h y : Nat) (h1 : min Ry h ≤ y) (h2 : y < min Ry2 h)
    (hn : ¬ (min (max Dy Ry) h ≤ y ∧ y < min (min Dy2 Ry2) h)) : ¬ (Dy ≤ y ∧ y < Dy2) := by omega

theorem rect_sub (D R : MRegion) (w h : Nat) :
    (R.clamp w h).x ≤ ((D.inter R).clamp w h).x ∧ ((D.inter R).clamp w h).x2 ≤ (R.clamp w h).x2 ∧
    (R.clamp w h).x2 ≤ w ∧ (R.clamp w h).y ≤ ((D.inter R).clamp w h).y ∧
    ((D.inter R).clamp w h).y2 ≤ (R.clamp w h).y2 ∧ (R.clamp w h).y2 ≤ h := by
  simp only [MRegion.clamp, MRegion.inter]
  omega

end Lemmas
open Lemmas

/-- **`RegionChanged` keeps the mirror in sync.** An attached mirror with region `R = m.region`;
    the outer terminal `o` fits the inner screen (`OuterGrid`) and shows it inside `R`
    (`SyncedRegion o sOld R`). The inner screen changes from `sOld` to `sNew` (same size), every
    cell outside the rectangle `D` unchanged, and the mirror executes `RegionChanged(D)`. If the
    painted window `P = (D ∩ R)` clamped is not empty and cuts no character — columns `P.x`,
    `P.x2` are continuation cells neither of the repainted outer rows nor of the new inner rows —
    then the outer terminal that has read the written bytes again fits the inner screen and shows
    `sNew` inside `R`; it is `stDone o (repaintedGrid …)` with the cursor placed at
    `(m.cx, m.cy)` and shown when `cursorVisible m` (`cursor_spec`), hidden otherwise.
    Both policies. -/
theorem regionChanged_keeps_sync (cw : Nat → Nat) (m : Mirror) (o : Term) (sOld sNew : Scr)
    (D : MRegion) (ha : m.attached = true) (hw : sNew.w = sOld.w) (hh : sNew.h = sOld.h)
    (og : OuterGrid o sNew) (hsync : SyncedRegion o sOld m.region)
    (hchg : ∀ y x, ¬ inRect D x y → (sNew.row y)[x]? = (sOld.row y)[x]?)
    (hP : ((D.inter m.region).clamp sNew.w sNew.h).isEmpty = false)
    (hrows : ∀ y, ((D.inter m.region).clamp sNew.w sNew.h).y ≤ y →
      y < ((D.inter m.region).clamp sNew.w sNew.h).y2 →
      (sNew.row y).length = sNew.w ∧ RowOK cw (sNew.row y))
    (hnocut : ∀ y, ((D.inter m.region).clamp sNew.w sNew.h).y ≤ y →
      y < ((D.inter m.region).clamp sNew.w sNew.h).y2 →
      contAt (o.main.row y) ((D.inter m.region).clamp sNew.w sNew.h).x = false ∧
      contAt (o.main.row y) ((D.inter m.region).clamp sNew.w sNew.h).x2 = false ∧
      contAt (sNew.row y) ((D.inter m.region).clamp sNew.w sNew.h).x = false ∧
      contAt (sNew.row y) ((D.inter m.region).clamp sNew.w sNew.h).x2 = false)
    (hsp : cw 32 ≤ 1) (hW : sNew.w ≤ paramMax) (hH : sNew.h ≤ paramMax)
    (hcx : m.cx < sNew.w) (hcy : m.cy < sNew.h) :
    let T := (run cw o (m.step sNew (.regionChanged D)).2).1
    let P' := stDone o (repaintedGrid o sNew (D.inter m.region))
    (m.step sNew (.regionChanged D)).1 = m ∧
    SyncedRegion T sNew m.region ∧ OuterGrid T sNew ∧
    (cursorVisible m → T = withCursor P' m.cx m.cy) ∧
    (¬ cursorVisible m → T = cursorHidden P') := by
  intro T P'
  -- the bytes written
  have hout : (m.step sNew (.regionChanged D)).2 =
      renderRegion sNew (D.inter m.region) ++ m.renderCursor := by
    simp [Mirror.step, Mirror.renderRegion, ha, hP]
  -- the state reached
  have hpol : ∀ y, ((D.inter m.region).clamp sNew.w sNew.h).y ≤ y →
      y < ((D.inter m.region).clamp sNew.w sNew.h).y2 →
      o.pol = .blank ∨ contAt (o.main.row y) ((D.inter m.region).clamp sNew.w sNew.h).x = false :=
    fun y h1 h2 => Or.inr (hnocut y h1 h2).1
  have hP'alt : P'.onAlt = false := og.main
  have hcur := exec_cursor cw m ha P' hP'alt (by show m.cx < o.main.w; rw [og.width]; exact hcx)
    (by show m.cy < o.main.h; rw [og.height]; exact hcy) (by omega) (by omega)
  have hTv : cursorVisible m → T = withCursor P' m.cx m.cy := by
    intro hv
    show (run cw o _).1 = _
    rw [hout]
    exact Exec.run (exec_repaint_region cw o sNew _ og hP hrows hpol hsp hW hH _ _ (hcur.1 hv))
  have hTh : ¬ cursorVisible m → T = cursorHidden P' := by
    intro hv
    show (run cw o _).1 = _
    rw [hout]
    exact Exec.run (exec_repaint_region cw o sNew _ og hP hrows hpol hsp hW hH _ _ (hcur.2 hv))
  -- rows, size, buffer of `T` are those of `P'`
  have hTrow : ∀ y, T.main.row y = P'.main.row y := by
    intro y
    by_cases hv : cursorVisible m
    · rw [hTv hv]; rfl
    · rw [hTh hv]; rfl
  have hTfix : T.onAlt = false ∧ T.main.w = sNew.w ∧ T.main.h = sNew.h ∧
      T.main.grid.length = sNew.h := by
    have hgl : (repaintedGrid o sNew (D.inter m.region)).length = sNew.h := by
      unfold repaintedGrid; rw [repaintRows_length, og.glen]
    by_cases hv : cursorVisible m
    · rw [hTv hv]; exact ⟨og.main, og.width, og.height, hgl⟩
    · rw [hTh hv]; exact ⟨og.main, og.width, og.height, hgl⟩
  suffices hsuff : SyncedRegion T sNew m.region ∧ OuterGrid T sNew from
    ⟨rfl, hsuff.1, hsuff.2, hTv, hTh⟩
  -- arithmetic of the rectangles
  obtain ⟨hc1, hc2, hc3, hc4, hc5, hc6⟩ := rect_sub D m.region sNew.w sNew.h
  have hleftA : (m.region.clamp sNew.w sNew.h).x < ((D.inter m.region).clamp sNew.w sNew.h).x →
      ∀ j, j < ((D.inter m.region).clamp sNew.w sNew.h).x → j < D.x :=
    fun h j hj => rect_left D.x m.region.x sNew.w j h hj
  have hrightA : ((D.inter m.region).clamp sNew.w sNew.h).x2 < (m.region.clamp sNew.w sNew.h).x2 →
      ∀ j, ((D.inter m.region).clamp sNew.w sNew.h).x2 ≤ j → D.x2 ≤ j :=
    fun h j hj => rect_right D.x2 m.region.x2 sNew.w j h hj
  have hrowsA : ∀ y, (m.region.clamp sNew.w sNew.h).y ≤ y → y < (m.region.clamp sNew.w sNew.h).y2 →
      ¬ (((D.inter m.region).clamp sNew.w sNew.h).y ≤ y ∧ y < ((D.inter m.region).clamp sNew.w sNew.h).y2) →
      ¬ (D.y ≤ y ∧ y < D.y2) :=
    fun y h1 h2 hn => rect_rows D.y D.y2 m.region.y m.region.y2 sNew.h y h1 h2 hn
  have hPne : ((D.inter m.region).clamp sNew.w sNew.h).x < ((D.inter m.region).clamp sNew.w sNew.h).x2 := by
    simp only [MRegion.isEmpty, Bool.or_eq_false_iff, decide_eq_false_iff_not] at hP; omega
  have hsync' : ∀ y, (m.region.clamp sNew.w sNew.h).y ≤ y → y < (m.region.clamp sNew.w sNew.h).y2 →
      Synced (o.main.row y) (sOld.row y) (m.region.clamp sNew.w sNew.h).x
        (m.region.clamp sNew.w sNew.h).x2 := by
    intro y h1 h2
    have := hsync y (by rw [← hw, ← hh]; exact h1) (by rw [← hw, ← hh]; exact h2)
    rw [← hw, ← hh] at this
    exact this
  have hrowT : ∀ y, T.main.row y =
      if ((D.inter m.region).clamp sNew.w sNew.h).y ≤ y ∧ y < ((D.inter m.region).clamp sNew.w sNew.h).y2
      then newRow (o.main.row y) (sNew.row y) ((D.inter m.region).clamp sNew.w sNew.h).x
        ((D.inter m.region).clamp sNew.w sNew.h).x2
      else o.main.row y := by
    intro y
    rw [hTrow]
    exact repaintedGrid_row o sNew (D.inter m.region) og.glen y
  clear hTrow hTv hTh hcur hout hpol
  unfold SyncedRegion
  clear_value T P'
  generalize ((D.inter m.region).clamp sNew.w sNew.h) = P at *
  generalize (m.region.clamp sNew.w sNew.h) = Rc at *
  -- the repainted rows
  have hpainted : ∀ y, P.y ≤ y → y < P.y2 →
      Synced (newRow (o.main.row y) (sNew.row y) P.x P.x2) (sNew.row y) Rc.x Rc.x2 ∧
      (newRow (o.main.row y) (sNew.row y) P.x P.x2).length = sNew.w ∧
      rowWF (newRow (o.main.row y) (sNew.row y) P.x P.x2) = true := by
    intro y h1 h2
    have hyh : y < sNew.h := by omega
    obtain ⟨c1, c2, c3, c4⟩ := hnocut y h1 h2
    obtain ⟨l1, l2⟩ := hrows y h1 h2
    apply synced_newRow cw (o.main.row y) (sOld.row y) (sNew.row y) sNew.w Rc.x Rc.x2 P.x P.x2
      (og.rows y hyh).1 (og.rows y hyh).2 (hsync' y (by omega) (by omega)) (by omega) hPne (by omega)
      (by omega) c1 c2 l1 l2 hsp
    · intro hlt j hj
      apply hchg
      have := hleftA hlt j hj
      unfold inRect; omega
    · intro hlt j hj
      apply hchg
      have := hrightA hlt j hj
      unfold inRect; omega
    · exact c3
    · exact c4
  refine ⟨?_, ⟨hTfix.1, hTfix.2.1, hTfix.2.2.1, hTfix.2.2.2, ?_⟩⟩
  · -- the invariant
    intro y h1 h2
    rw [hrowT]
    by_cases hp : P.y ≤ y ∧ y < P.y2
    · rw [if_pos hp]; exact (hpainted y hp.1 hp.2).1
    · rw [if_neg hp]
      have hrow : sNew.row y = sOld.row y := by
        apply List.ext_getElem?
        intro x
        apply hchg
        have := hrowsA y h1 h2 hp
        unfold inRect; omega
      rw [hrow]
      exact hsync' y h1 h2
  · -- the rows stay well formed
    intro y hy
    rw [hrowT]
    by_cases hp : P.y ≤ y ∧ y < P.y2
    · rw [if_pos hp]; exact (hpainted y hp.1 hp.2).2
    · rw [if_neg hp]; exact og.rows y hy

/-- **`RegionChanged` with nothing to paint.** When `D ∩ R` (clamped) is empty the mirror writes
    nothing, so the outer terminal stays as it is; the invariant is kept provided the change did
    not touch the characters shown inside `R`: for every cell `i` of a row of the clamped region,
    the cells from the first column of the inner character covering `i` up to `i` are unchanged
    (this is what `cutCell` reads). It holds in particular when the whole rows of the region are
    unchanged, or when the change lies right of the region, or left of it and no inner character
    straddles the region's left edge. -/
theorem regionChanged_empty_keeps_sync (cw : Nat → Nat) (m : Mirror) (o : Term) (sOld sNew : Scr)
    (D : MRegion) (hw : sNew.w = sOld.w) (hh : sNew.h = sOld.h)
    (hsync : SyncedRegion o sOld m.region)
    (hP : ((D.inter m.region).clamp sNew.w sNew.h).isEmpty = true)
    (hkeep : ∀ y, (m.region.clamp sNew.w sNew.h).y ≤ y → y < (m.region.clamp sNew.w sNew.h).y2 →
      ∀ i, (m.region.clamp sNew.w sNew.h).x ≤ i → i < (m.region.clamp sNew.w sNew.h).x2 →
      ∀ j, headOf (sOld.row y) i ≤ j → j ≤ i → (sNew.row y)[j]? = (sOld.row y)[j]?) :
    m.step sNew (.regionChanged D) = (m, []) ∧
    (run cw o (m.step sNew (.regionChanged D)).2).1 = o ∧ SyncedRegion o sNew m.region := by
  have hstep := region_outside_silent m sNew D hP
  refine ⟨hstep, ?_, ?_⟩
  · rw [hstep]; exact Exec.run (Exec.nil cw o)
  · intro y h1 h2 i h3 h4
    have := hsync y (by rw [← hw, ← hh]; exact h1) (by rw [← hw, ← hh]; exact h2) i
      (by rw [← hw, ← hh]; exact h3) (by rw [← hw, ← hh]; exact h4)
    rw [← hw, ← hh] at this
    rw [this, subCells_getElem? _ _ _ _ (by omega), subCells_getElem? _ _ _ _ (by omega)]
    congr 1
    exact (cutCell_congr (hkeep y h1 h2 _ (by omega) (by omega))).symm

/-- **`Attach` establishes the invariant.** After everything `Attach(r0)` writes has been read by
    a fresh outer terminal of the inner screen's size, the outer terminal fits the inner screen
    and shows it inside `r0`; the mirror is attached to `r0`. -/
theorem attach_establishes_sync (cw : Nat → Nat) (pol : WidePolicy) (m : Mirror) (s : Scr)
    (r0 : MRegion) (hne : (r0.clamp s.w s.h).isEmpty = false)
    (hrows : ∀ y, y < s.h → (s.row y).length = s.w ∧ RowOK cw (s.row y))
    (hsp : cw 32 ≤ 1) (hW : s.w ≤ paramMax) (hH : s.h ≤ paramMax)
    (hcx : m.cx < s.w) (hcy : m.cy < s.h) :
    let T := (run cw (Term.init pol s.w s.h) (m.step s (.attach r0)).2).1
    (m.step s (.attach r0)).1.attached = true ∧ (m.step s (.attach r0)).1.region = r0 ∧
    SyncedRegion T s r0 ∧ OuterGrid T s := by
  intro T
  obtain ⟨_, a2, a3⟩ := attach_fresh cw pol m s r0 hne hrows hsp hW hH hcx hcy
  obtain ⟨f1, f2, _, _, _, _, f7, f8, f9, f10⟩ := mirror_region_fresh cw pol s r0 hne hrows hsp hW hH
  have hx : (r0.clamp s.w s.h).x < (r0.clamp s.w s.h).x2 := by
    simp only [MRegion.isEmpty, Bool.or_eq_false_iff, decide_eq_false_iff_not] at hne; omega
  have hx2 : (r0.clamp s.w s.h).x2 ≤ s.w := by simp only [MRegion.clamp]; omega
  have hy2 : (r0.clamp s.w s.h).y2 ≤ s.h := by simp only [MRegion.clamp]; omega
  -- rows, size and buffer of `T` are those of the painted terminal
  have hT : (∀ y, T.main.row y = (run cw (Term.init pol s.w s.h) (renderRegion s r0)).1.main.row y) ∧
      T.onAlt = false ∧ T.main.w = s.w ∧ T.main.h = s.h ∧ T.main.grid.length = s.h := by
    by_cases hv : m.showCur = true ∧ m.focused = true ∧ r0.x ≤ m.cx ∧ m.cx < r0.x2 ∧
        r0.y ≤ m.cy ∧ m.cy < r0.y2
    · have e : T = _ := a2 hv
      rw [e]; exact ⟨fun y => rfl, f10, f7, f8, f9⟩
    · have e : T = _ := a3 hv
      rw [e]; exact ⟨fun y => rfl, f10, f7, f8, f9⟩
  obtain ⟨hrow, t1, t2, t3, t4⟩ := hT
  unfold SyncedRegion
  generalize r0.clamp s.w s.h = r at f1 f2 hx hx2 hy2 ⊢
  refine ⟨rfl, rfl, ?_, ⟨t1, t2, t3, t4, ?_⟩⟩
  · intro y h1 h2 i h3 h4
    show (T.main.row y)[i]? = _
    rw [hrow, f1 y h1 h2, List.getElem?_append_left (by
      rw [List.length_append, length_blankRow, subCells_length]; omega),
      List.getElem?_append_right (by rw [length_blankRow]; exact h3), length_blankRow]
  · intro y hy
    rw [hrow]
    by_cases hin : r.y ≤ y ∧ y < r.y2
    · rw [f1 y hin.1 hin.2]
      refine ⟨?_, ?_⟩
      · rw [List.length_append, List.length_append, length_blankRow, length_blankRow, subCells_length]
        omega
      · have hsub := (subCells_rowOK cw (s.row y) r.x r.x2 (hrows y hy).2
          (by rw [(hrows y hy).1]; exact hx2) hsp).wf
        exact TM.C03.Lemmas.wf_append
          (TM.C03.Lemmas.wf_append (TM.C03.Lemmas.blankRow_wf _ _) hsub) (TM.C03.Lemmas.blankRow_wf _ _)
    · rw [f2 y hy hin]
      exact ⟨length_blankRow _ _, TM.C03.Lemmas.blankRow_wf _ _⟩

/-- **The whole painting over an arbitrary outer terminal, cell by cell**, when the painted window
    cuts no character of the repainted outer rows (columns `x`, `x2` of the clamped region are not
    continuation cells there; both policies): in every row of the clamped region the cells
    `[x, x2)` are the window of the inner row and every other cell is unchanged; the rows outside
    are unchanged; the cursor is where it was, the saved cursor is overwritten with that position,
    autowrap is ON, the current style is default; the terminal still fits the inner screen. -/
theorem repaint_region (cw : Nat → Nat) (o : Term) (s : Scr) (r0 : MRegion) (og : OuterGrid o s)
    (hne : (r0.clamp s.w s.h).isEmpty = false)
    (hrows : ∀ y, (r0.clamp s.w s.h).y ≤ y → y < (r0.clamp s.w s.h).y2 →
      (s.row y).length = s.w ∧ RowOK cw (s.row y))
    (hnocut : ∀ y, (r0.clamp s.w s.h).y ≤ y → y < (r0.clamp s.w s.h).y2 →
      contAt (o.main.row y) (r0.clamp s.w s.h).x = false ∧
      contAt (o.main.row y) (r0.clamp s.w s.h).x2 = false)
    (hsp : cw 32 ≤ 1) (hW : s.w ≤ paramMax) (hH : s.h ≤ paramMax) :
    let r := r0.clamp s.w s.h
    let T := (run cw o (renderRegion s r0)).1
    (∀ y, r.y ≤ y → y < r.y2 → ∀ i, i < s.w → (T.main.row y)[i]? =
      if r.x ≤ i ∧ i < r.x2 then (subCells (s.row y) r.x r.x2)[i - r.x]? else (o.main.row y)[i]?) ∧
    (∀ y, ¬ (r.y ≤ y ∧ y < r.y2) → T.main.row y = o.main.row y) ∧
    T.main.cx = o.main.cx ∧ T.main.cy = o.main.cy ∧ T.main.sx = o.main.cx ∧ T.main.sy = o.main.cy ∧
    T.main.wrap = true ∧ T.main.sty = Style.default ∧ OuterGrid T s := by
  intro r T
  have hT : T = _ := repaint_region_state cw o s r0 og hne hrows
    (fun y h1 h2 => Or.inr (hnocut y h1 h2).1) hsp hW hH
  have hrowT := fun y => repaintedGrid_row o s r0 og.glen y
  have hx : (r0.clamp s.w s.h).x < (r0.clamp s.w s.h).x2 := by
    simp only [MRegion.isEmpty, Bool.or_eq_false_iff, decide_eq_false_iff_not] at hne; omega
  have hx2 : (r0.clamp s.w s.h).x2 ≤ s.w := by simp only [MRegion.clamp]; omega
  have hy2 : (r0.clamp s.w s.h).y2 ≤ s.h := by simp only [MRegion.clamp]; omega
  have hgl : (repaintedGrid o s r0).length = s.h := by
    unfold repaintedGrid; rw [repaintRows_length, og.glen]
  have hr : r = r0.clamp s.w s.h := rfl
  rw [← hr] at hrowT hx hx2 hy2 hrows hnocut
  clear_value r
  -- the painted rows
  have hinv : ∀ y, r.y ≤ y → y < r.y2 →
      newRow (o.main.row y) (s.row y) r.x r.x2 =
        repaintedRow (o.main.row y) r.x r.x2 (subCells (s.row y) r.x r.x2) ∧
      PaintInv (o.main.row y) r.x r.x2 (subCells (s.row y) r.x r.x2)
        (repaintedRow (o.main.row y) r.x r.x2 (subCells (s.row y) r.x r.x2)) := by
    intro y h1 h2
    have hyh : y < s.h := by omega
    have hok := subCells_rowOK cw (s.row y) r.x r.x2 (hrows y h1 h2).2
      (by rw [(hrows y h1 h2).1]; exact hx2) hsp
    have inv := paintInv_newRow cw (o.main.row y) _ r.x r.x2 (og.rows y hyh).2 hx
      (by rw [(og.rows y hyh).1]; exact hx2) (subCells_length _ _ _) hok
    rw [TM.C03.Lemmas.fixAt_of_not_cont (hnocut y h1 h2).1] at inv
    refine ⟨?_, inv⟩
    unfold newRow
    rw [TM.C03.Lemmas.fixAt_of_not_cont (hnocut y h1 h2).1]
  rw [hT]
  refine ⟨?_, ?_, rfl, rfl, rfl, rfl, rfl, rfl, ⟨og.main, og.width, og.height, hgl, ?_⟩⟩
  · intro y h1 h2 i hi
    have hyh : y < s.h := by omega
    obtain ⟨e, inv⟩ := hinv y h1 h2
    rw [hrowT, if_pos ⟨h1, h2⟩, e, inv.cell i (by rw [(og.rows y hyh).1]; exact hi)]
    by_cases hA : i < r.x
    · rw [if_pos hA, if_neg (by omega)]
    · rw [if_neg hA]
      by_cases hB : i < r.x2
      · rw [if_pos hB, if_pos ⟨by omega, hB⟩]
      · have := headOf_ge_of_clean (i := i) (hnocut y h1 h2).2 (by omega)
        rw [if_neg hB, if_neg (by omega), if_neg (by omega)]
  · intro y hn
    rw [hrowT, if_neg hn]
  · intro y hy
    rw [hrowT]
    by_cases hin : r.y ≤ y ∧ y < r.y2
    · obtain ⟨e, inv⟩ := hinv y hin.1 hin.2
      rw [if_pos hin, e]
      exact ⟨by rw [inv.hlen]; exact (og.rows y hy).1, inv.hwf⟩
    · rw [if_neg hin]; exact og.rows y hy

/-! ### the invariant along a run of `RegionChanged` steps -/

/-- a step that paints: hypotheses of `regionChanged_keeps_sync` -/
def PaintStep (cw : Nat → Nat) (m : Mirror) (o : Term) (sOld sNew : Scr) (D : MRegion) : Prop :=
  (∀ y x, ¬ inRect D x y → (sNew.row y)[x]? = (sOld.row y)[x]?) ∧
  ((D.inter m.region).clamp sNew.w sNew.h).isEmpty = false ∧
  (∀ y, ((D.inter m.region).clamp sNew.w sNew.h).y ≤ y →
    y < ((D.inter m.region).clamp sNew.w sNew.h).y2 →
    ((sNew.row y).length = sNew.w ∧ RowOK cw (sNew.row y)) ∧
    contAt (o.main.row y) ((D.inter m.region).clamp sNew.w sNew.h).x = false ∧
    contAt (o.main.row y) ((D.inter m.region).clamp sNew.w sNew.h).x2 = false ∧
    contAt (sNew.row y) ((D.inter m.region).clamp sNew.w sNew.h).x = false ∧
    contAt (sNew.row y) ((D.inter m.region).clamp sNew.w sNew.h).x2 = false) ∧
  sNew.w ≤ paramMax ∧ sNew.h ≤ paramMax ∧ m.cx < sNew.w ∧ m.cy < sNew.h

/-- a step that paints nothing: hypotheses of `regionChanged_empty_keeps_sync` -/
def IdleStep (m : Mirror) (sOld sNew : Scr) (D : MRegion) : Prop :=
  ((D.inter m.region).clamp sNew.w sNew.h).isEmpty = true ∧
  ∀ y, (m.region.clamp sNew.w sNew.h).y ≤ y → y < (m.region.clamp sNew.w sNew.h).y2 →
    ∀ i, (m.region.clamp sNew.w sNew.h).x ≤ i → i < (m.region.clamp sNew.w sNew.h).x2 →
    ∀ j, headOf (sOld.row y) i ≤ j → j ≤ i → (sNew.row y)[j]? = (sOld.row y)[j]?

/-- the outer terminal after a run of (inner change, `RegionChanged(D)`) steps -/
def mirrorRun (cw : Nat → Nat) (m : Mirror) : Term → List (Scr × MRegion) → Term
  | o, [] => o
  | o, (sNew, D) :: rest => mirrorRun cw m (run cw o (m.step sNew (.regionChanged D)).2).1 rest

/-- the inner screen after the run -/
def lastScr : Scr → List (Scr × MRegion) → Scr
  | s, [] => s
  | _, (sNew, _) :: rest => lastScr sNew rest

/-- the per-step hypotheses along the run (they speak about the outer terminal of the moment) -/
def StepsOK (cw : Nat → Nat) (m : Mirror) : Term → Scr → List (Scr × MRegion) → Prop
  | _, _, [] => True
  | o, sOld, (sNew, D) :: rest =>
    sNew.w = sOld.w ∧ sNew.h = sOld.h ∧
    (PaintStep cw m o sOld sNew D ∨ IdleStep m sOld sNew D) ∧
    StepsOK cw m (run cw o (m.step sNew (.regionChanged D)).2).1 sNew rest

theorem OuterGrid.resize {o : Term} {s s' : Scr} (og : OuterGrid o s) (hw : s'.w = s.w)
    (hh : s'.h = s.h) : OuterGrid o s' :=
  ⟨og.main, by rw [hw]; exact og.width, by rw [hh]; exact og.height, by rw [hh]; exact og.glen,
    fun y hy => by rw [hw]; exact og.rows y (by rw [← hh]; exact hy)⟩

/-- **The mirror invariant along any run.** An attached mirror whose outer terminal fits the
    inner screen and shows it inside the region keeps doing so along every sequence of
    (inner change announced by `D`, `RegionChanged(D)`) steps whose painted windows cut no
    character (`PaintStep`) or that paint nothing without touching the shown characters
    (`IdleStep`). With `attach_establishes_sync` for the start: a `TTYFrontend` attached to a
    region keeps an outer terminal that interprets its output identical to the inner screen
    inside that region. -/
theorem mirror_invariant_run (cw : Nat → Nat) (m : Mirror) (ha : m.attached = true)
    (hsp : cw 32 ≤ 1) :
    ∀ (steps : List (Scr × MRegion)) (o : Term) (s0 : Scr),
    OuterGrid o s0 → SyncedRegion o s0 m.region → StepsOK cw m o s0 steps →
    SyncedRegion (mirrorRun cw m o steps) (lastScr s0 steps) m.region ∧
      OuterGrid (mirrorRun cw m o steps) (lastScr s0 steps) := by
  intro steps
  induction steps with
  | nil => intro o s0 og hs _; exact ⟨hs, og⟩
  | cons st rest ih =>
    intro o s0 og hs hok
    obtain ⟨sNew, D⟩ := st
    obtain ⟨hw, hh, hstep, hrest⟩ := hok
    show SyncedRegion (mirrorRun cw m (run cw o (m.step sNew (.regionChanged D)).2).1 rest)
      (lastScr sNew rest) m.region ∧
      OuterGrid (mirrorRun cw m (run cw o (m.step sNew (.regionChanged D)).2).1 rest)
        (lastScr sNew rest)
    rcases hstep with ⟨h1, h2, h3, h4, h5, h6, h7⟩ | ⟨h1, h2⟩
    · obtain ⟨_, q2, q3, _, _⟩ := regionChanged_keeps_sync cw m o s0 sNew D ha hw hh (og.resize hw hh)
        hs h1 h2 (fun y a b => (h3 y a b).1) (fun y a b => (h3 y a b).2) hsp h4 h5 h6 h7
      exact ih _ sNew q3 q2 hrest
    · obtain ⟨_, q2, q3⟩ := regionChanged_empty_keeps_sync cw m o s0 sNew D hw hh hs h1 h2
      rw [q2] at hrest ⊢
      exact ih _ sNew (og.resize hw hh) q3 hrest

/-! ## Part 8 — the mirror driven by the model terminal's own announcements -/

namespace Lemmas

/-- `synced_newRow` with the inner no-cut hypotheses only where the painted window's edge is not
    the region's edge (there both views cut the inner row at the same column) -/
theorem synced_newRow' (cw : Nat → Nat) (O r rNew : Row) (W x0 x02 x x2 : Nat)
    (hOl : O.length = W) (hOwf : rowWF O = true) (hsync : Synced O r x0 x02)
    (hx0 : x0 ≤ x) (hx : x < x2) (hx2 : x2 ≤ x02) (hx02 : x02 ≤ W)
    (hox : contAt O x = false) (hox2 : contAt O x2 = false)
    (hnl : rNew.length = W) (hnew : RowOK cw rNew) (hsp : cw 32 ≤ 1)
    (hleft : x0 < x → ∀ j, j < x → rNew[j]? = r[j]?)
    (hright : x2 < x02 → ∀ j, x2 ≤ j → rNew[j]? = r[j]?)
    (hnx : x = x0 ∨ contAt rNew x = false) (hnx2 : x2 = x02 ∨ contAt rNew x2 = false) :
    Synced (newRow O rNew x x2) rNew x0 x02 ∧ (newRow O rNew x x2).length = W ∧
      rowWF (newRow O rNew x x2) = true := by
  have hok := subCells_rowOK cw rNew x x2 hnew (by omega) hsp
  have inv := paintInv_newRow cw O (subCells rNew x x2) x x2 hOwf hx (by omega)
    (subCells_length rNew x x2) hok
  rw [TM.C03.Lemmas.fixAt_of_not_cont hox] at inv
  have hF : newRow O rNew x x2 = repaintedRow O x x2 (subCells rNew x x2) := by
    unfold newRow; rw [TM.C03.Lemmas.fixAt_of_not_cont hox]
  rw [hF]
  refine ⟨?_, by rw [inv.hlen, hOl], inv.hwf⟩
  have hwfN := hnew.wf
  intro i h1 h2
  rw [subCells_getElem? rNew x0 x02 (i - x0) (by omega), show x0 + (i - x0) = i by omega]
  have hold := hsync i h1 h2
  rw [subCells_getElem? r x0 x02 (i - x0) (by omega), show x0 + (i - x0) = i by omega] at hold
  rw [inv.cell i (by omega)]
  by_cases hA : i < x
  · rw [if_pos hA, hold]
    congr 1
    exact (cutCell_congr (fun j _ j2 => hleft (by omega) j (by omega))).symm
  · rw [if_neg hA]
    by_cases hB : i < x2
    · rw [if_pos hB, subCells_getElem? rNew x x2 (i - x) (by omega), show x + (i - x) = i by omega]
      congr 1
      obtain ⟨t, w, st, hch, _, q3, _, q5⟩ := TM.C03.Lemmas.wf_head hwfN (show i < rNew.length by omega)
      have hle := TM.C03.Lemmas.headOf_le rNew i
      by_cases hin : Inside rNew x0 x02 i
      · have hin' : Inside rNew x x2 i := by
          obtain ⟨i1, i2⟩ := hin
          rw [q5] at i2
          refine ⟨?_, ?_⟩
          · rcases hnx with e | e
            · omega
            · exact headOf_ge_of_clean (i := i) e (by omega)
          · rw [q5]
            rcases hnx2 with e | e
            · omega
            · false_or_by_contra
              obtain ⟨_, _, cs, _⟩ := TM.C03.Lemmas.wf_ch hwfN hch
              have := cs x2 (by omega) (by omega)
              rw [e] at this; cases this
        rw [cutCell_of_inside hin, cutCell_of_inside hin']
      · have hin' : ¬ Inside rNew x x2 i := fun h => hin ⟨by have := h.1; omega, by have := h.2; omega⟩
        rw [cutCell_of_not_inside hin, cutCell_of_not_inside hin']
    · have hge := headOf_ge_of_clean (i := i) hox2 (by omega)
      rw [if_neg hB, if_neg (by omega), hold]
      congr 1
      have hrx2 : contAt r x2 = false := by
        rw [← TM.C03.Lemmas.contAt_congr (hright (by omega) x2 (Nat.le_refl _))]
        rcases hnx2 with e | e
        · omega
        · exact e
      have hger := headOf_ge_of_clean (i := i) hrx2 (by omega)
      exact (cutCell_congr (fun j j1 _ => hright (by omega) j (by omega))).symm

end Lemmas
open Lemmas

/-- `regionChanged_keeps_sync` with the inner no-cut hypotheses weakened: at an edge of the painted
    window that IS the region's edge (`P.x = R.x` resp. `P.x2 = R.x2`, clamped) nothing is asked
    of the new inner row — both views cut it at the same column. -/
theorem regionChanged_keeps_sync' (cw : Nat → Nat) (m : Mirror) (o : Term) (sOld sNew : Scr)
    (D : MRegion) (ha : m.attached = true) (hw : sNew.w = sOld.w) (hh : sNew.h = sOld.h)
    (og : OuterGrid o sNew) (hsync : SyncedRegion o sOld m.region)
    (hchg : ∀ y x, ¬ inRect D x y → (sNew.row y)[x]? = (sOld.row y)[x]?)
    (hP : ((D.inter m.region).clamp sNew.w sNew.h).isEmpty = false)
    (hrows : ∀ y, ((D.inter m.region).clamp sNew.w sNew.h).y ≤ y →
      y < ((D.inter m.region).clamp sNew.w sNew.h).y2 →
      (sNew.row y).length = sNew.w ∧ RowOK cw (sNew.row y))
    (hnocut : ∀ y, ((D.inter m.region).clamp sNew.w sNew.h).y ≤ y →
      y < ((D.inter m.region).clamp sNew.w sNew.h).y2 →
      contAt (o.main.row y) ((D.inter m.region).clamp sNew.w sNew.h).x = false ∧
      contAt (o.main.row y) ((D.inter m.region).clamp sNew.w sNew.h).x2 = false ∧
      (((D.inter m.region).clamp sNew.w sNew.h).x = (m.region.clamp sNew.w sNew.h).x ∨
        contAt (sNew.row y) ((D.inter m.region).clamp sNew.w sNew.h).x = false) ∧
      (((D.inter m.region).clamp sNew.w sNew.h).x2 = (m.region.clamp sNew.w sNew.h).x2 ∨
        contAt (sNew.row y) ((D.inter m.region).clamp sNew.w sNew.h).x2 = false))
    (hsp : cw 32 ≤ 1) (hW : sNew.w ≤ paramMax) (hH : sNew.h ≤ paramMax)
    (hcx : m.cx < sNew.w) (hcy : m.cy < sNew.h) :
    let T := (run cw o (m.step sNew (.regionChanged D)).2).1
    let P' := stDone o (repaintedGrid o sNew (D.inter m.region))
    (m.step sNew (.regionChanged D)).1 = m ∧
    SyncedRegion T sNew m.region ∧ OuterGrid T sNew ∧
    (cursorVisible m → T = withCursor P' m.cx m.cy) ∧
    (¬ cursorVisible m → T = cursorHidden P') := by
  intro T P'
  -- the bytes written
  have hout : (m.step sNew (.regionChanged D)).2 =
      renderRegion sNew (D.inter m.region) ++ m.renderCursor := by
    simp [Mirror.step, Mirror.renderRegion, ha, hP]
  -- the state reached
  have hpol : ∀ y, ((D.inter m.region).clamp sNew.w sNew.h).y ≤ y →
      y < ((D.inter m.region).clamp sNew.w sNew.h).y2 →
      o.pol = .blank ∨ contAt (o.main.row y) ((D.inter m.region).clamp sNew.w sNew.h).x = false :=
    fun y h1 h2 => Or.inr (hnocut y h1 h2).1
  have hP'alt : P'.onAlt = false := og.main
  have hcur := exec_cursor cw m ha P' hP'alt (by show m.cx < o.main.w; rw [og.width]; exact hcx)
    (by show m.cy < o.main.h; rw [og.height]; exact hcy) (by omega) (by omega)
  have hTv : cursorVisible m → T = withCursor P' m.cx m.cy := by
    intro hv
    show (run cw o _).1 = _
    rw [hout]
    exact Exec.run (exec_repaint_region cw o sNew _ og hP hrows hpol hsp hW hH _ _ (hcur.1 hv))
  have hTh : ¬ cursorVisible m → T = cursorHidden P' := by
    intro hv
    show (run cw o _).1 = _
    rw [hout]
    exact Exec.run (exec_repaint_region cw o sNew _ og hP hrows hpol hsp hW hH _ _ (hcur.2 hv))
  -- rows, size, buffer of `T` are those of `P'`
  have hTrow : ∀ y, T.main.row y = P'.main.row y := by
    intro y
    by_cases hv : cursorVisible m
    · rw [hTv hv]; rfl
    · rw [hTh hv]; rfl
  have hTfix : T.onAlt = false ∧ T.main.w = sNew.w ∧ T.main.h = sNew.h ∧
      T.main.grid.length = sNew.h := by
    have hgl : (repaintedGrid o sNew (D.inter m.region)).length = sNew.h := by
      unfold repaintedGrid; rw [repaintRows_length, og.glen]
    by_cases hv : cursorVisible m
    · rw [hTv hv]; exact ⟨og.main, og.width, og.height, hgl⟩
    · rw [hTh hv]; exact ⟨og.main, og.width, og.height, hgl⟩
  suffices hsuff : SyncedRegion T sNew m.region ∧ OuterGrid T sNew from
    ⟨rfl, hsuff.1, hsuff.2, hTv, hTh⟩
  -- arithmetic of the rectangles
  obtain ⟨hc1, hc2, hc3, hc4, hc5, hc6⟩ := rect_sub D m.region sNew.w sNew.h
  have hleftA : (m.region.clamp sNew.w sNew.h).x < ((D.inter m.region).clamp sNew.w sNew.h).x →
      ∀ j, j < ((D.inter m.region).clamp sNew.w sNew.h).x → j < D.x :=
    fun h j hj => rect_left D.x m.region.x sNew.w j h hj
  have hrightA : ((D.inter m.region).clamp sNew.w sNew.h).x2 < (m.region.clamp sNew.w sNew.h).x2 →
      ∀ j, ((D.inter m.region).clamp sNew.w sNew.h).x2 ≤ j → D.x2 ≤ j :=
    fun h j hj => rect_right D.x2 m.region.x2 sNew.w j h hj
  have hrowsA : ∀ y, (m.region.clamp sNew.w sNew.h).y ≤ y → y < (m.region.clamp sNew.w sNew.h).y2 →
      ¬ (((D.inter m.region).clamp sNew.w sNew.h).y ≤ y ∧ y < ((D.inter m.region).clamp sNew.w sNew.h).y2) →
      ¬ (D.y ≤ y ∧ y < D.y2) :=
    fun y h1 h2 hn => rect_rows D.y D.y2 m.region.y m.region.y2 sNew.h y h1 h2 hn
  have hPne : ((D.inter m.region).clamp sNew.w sNew.h).x < ((D.inter m.region).clamp sNew.w sNew.h).x2 := by
    simp only [MRegion.isEmpty, Bool.or_eq_false_iff, decide_eq_false_iff_not] at hP; omega
  have hsync' : ∀ y, (m.region.clamp sNew.w sNew.h).y ≤ y → y < (m.region.clamp sNew.w sNew.h).y2 →
      Synced (o.main.row y) (sOld.row y) (m.region.clamp sNew.w sNew.h).x
        (m.region.clamp sNew.w sNew.h).x2 := by
    intro y h1 h2
    have := hsync y (by rw [← hw, ← hh]; exact h1) (by rw [← hw, ← hh]; exact h2)
    rw [← hw, ← hh] at this
    exact this
  have hrowT : ∀ y, T.main.row y =
      if ((D.inter m.region).clamp sNew.w sNew.h).y ≤ y ∧ y < ((D.inter m.region).clamp sNew.w sNew.h).y2
      then newRow (o.main.row y) (sNew.row y) ((D.inter m.region).clamp sNew.w sNew.h).x
        ((D.inter m.region).clamp sNew.w sNew.h).x2
      else o.main.row y := by
    intro y
    rw [hTrow]
    exact repaintedGrid_row o sNew (D.inter m.region) og.glen y
  clear hTrow hTv hTh hcur hout hpol
  unfold SyncedRegion
  clear_value T P'
  generalize ((D.inter m.region).clamp sNew.w sNew.h) = P at *
  generalize (m.region.clamp sNew.w sNew.h) = Rc at *
  -- the repainted rows
  have hpainted : ∀ y, P.y ≤ y → y < P.y2 →
      Synced (newRow (o.main.row y) (sNew.row y) P.x P.x2) (sNew.row y) Rc.x Rc.x2 ∧
      (newRow (o.main.row y) (sNew.row y) P.x P.x2).length = sNew.w ∧
      rowWF (newRow (o.main.row y) (sNew.row y) P.x P.x2) = true := by
    intro y h1 h2
    have hyh : y < sNew.h := by omega
    obtain ⟨c1, c2, c3, c4⟩ := hnocut y h1 h2
    obtain ⟨l1, l2⟩ := hrows y h1 h2
    apply synced_newRow' cw (o.main.row y) (sOld.row y) (sNew.row y) sNew.w Rc.x Rc.x2 P.x P.x2
      (og.rows y hyh).1 (og.rows y hyh).2 (hsync' y (by omega) (by omega)) (by omega) hPne (by omega)
      (by omega) c1 c2 l1 l2 hsp
    · intro hlt j hj
      apply hchg
      have := hleftA hlt j hj
      unfold inRect; omega
    · intro hlt j hj
      apply hchg
      have := hrightA hlt j hj
      unfold inRect; omega
    · exact c3
    · exact c4
  refine ⟨?_, ⟨hTfix.1, hTfix.2.1, hTfix.2.2.1, hTfix.2.2.2, ?_⟩⟩
  · -- the invariant
    intro y h1 h2
    rw [hrowT]
    by_cases hp : P.y ≤ y ∧ y < P.y2
    · rw [if_pos hp]; exact (hpainted y hp.1 hp.2).1
    · rw [if_neg hp]
      have hrow : sNew.row y = sOld.row y := by
        apply List.ext_getElem?
        intro x
        apply hchg
        have := hrowsA y h1 h2 hp
        unfold inRect; omega
      rw [hrow]
      exact hsync' y h1 h2
  · -- the rows stay well formed
    intro y hy
    rw [hrowT]
    by_cases hp : P.y ≤ y ∧ y < P.y2
    · rw [if_pos hp]; exact (hpainted y hp.1 hp.2).2
    · rw [if_neg hp]; exact og.rows y hy

/-- a model `Region` as a mirror region -/
def toM (r : Region) : MRegion := ⟨r.x1, r.y1, r.x2, r.y2⟩

/-- no outer wide character straddles the left or the right edge of the (clamped) region on the
    region's rows — an invariant of the mirror: paintings write whole windows `[R.x, R.x2)` -/
def NoStraddle (o : Term) (s : Scr) (R : MRegion) : Prop :=
  ∀ y, (R.clamp s.w s.h).y ≤ y → y < (R.clamp s.w s.h).y2 →
    contAt (o.main.row y) (R.clamp s.w s.h).x = false ∧
    contAt (o.main.row y) (R.clamp s.w s.h).x2 = false

namespace Lemmas

theorem rect_full (D R : MRegion) (w h : Nat) (hD : D.x = 0 ∧ w ≤ D.x2) :
    ((D.inter R).clamp w h).x = (R.clamp w h).x ∧ ((D.inter R).clamp w h).x2 = (R.clamp w h).x2 := by
  simp only [MRegion.clamp, MRegion.inter]
  omega

theorem rect_rows_in (D R : MRegion) (w h y : Nat) (h1 : (R.clamp w h).y ≤ y)
    (h2 : y < (R.clamp w h).y2) (h3 : D.y ≤ y) (h4 : y < D.y2) :
    ((D.inter R).clamp w h).y ≤ y ∧ y < ((D.inter R).clamp w h).y2 := by
  simp only [MRegion.clamp, MRegion.inter] at *
  omega

end Lemmas
open Lemmas

/-- **`RegionChanged(D)` for a full-width `D`** (what the model terminal announces): the painted
    window has exactly the region's columns, so NOTHING is asked of the inner rows beyond `RowOK`
    and nothing about what the outer rows showed before: every painted row shows the inner row
    afterwards, every other row is unchanged, the outer terminal still fits the inner screen and
    still has no character straddling the region's edges; cursor as in `cursor_spec`. -/
theorem regionChanged_fullwidth (cw : Nat → Nat) (m : Mirror) (o : Term) (s : Scr) (D : MRegion)
    (ha : m.attached = true) (og : OuterGrid o s) (hD : D.x = 0 ∧ s.w ≤ D.x2)
    (hP : ((D.inter m.region).clamp s.w s.h).isEmpty = false)
    (hrows : ∀ y, ((D.inter m.region).clamp s.w s.h).y ≤ y →
      y < ((D.inter m.region).clamp s.w s.h).y2 → (s.row y).length = s.w ∧ RowOK cw (s.row y))
    (hns : NoStraddle o s m.region)
    (hsp : cw 32 ≤ 1) (hW : s.w ≤ paramMax) (hH : s.h ≤ paramMax)
    (hcx : m.cx < s.w) (hcy : m.cy < s.h) :
    let T := (run cw o (m.step s (.regionChanged D)).2).1
    let P' := stDone o (repaintedGrid o s (D.inter m.region))
    (∀ y, ((D.inter m.region).clamp s.w s.h).y ≤ y → y < ((D.inter m.region).clamp s.w s.h).y2 →
      Synced (T.main.row y) (s.row y) (m.region.clamp s.w s.h).x (m.region.clamp s.w s.h).x2) ∧
    (∀ y, ¬ (((D.inter m.region).clamp s.w s.h).y ≤ y ∧ y < ((D.inter m.region).clamp s.w s.h).y2) →
      T.main.row y = o.main.row y) ∧
    OuterGrid T s ∧ NoStraddle T s m.region ∧
    (cursorVisible m → T = withCursor P' m.cx m.cy) ∧
    (¬ cursorVisible m → T = cursorHidden P') := by
  intro T P'
  obtain ⟨hc1, hc2, hc3, hc4, hc5, hc6⟩ := rect_sub D m.region s.w s.h
  obtain ⟨hfx, hfx2⟩ := rect_full D m.region s.w s.h hD
  have hout : (m.step s (.regionChanged D)).2 =
      renderRegion s (D.inter m.region) ++ m.renderCursor := by
    simp [Mirror.step, Mirror.renderRegion, ha, hP]
  have hpol : ∀ y, ((D.inter m.region).clamp s.w s.h).y ≤ y →
      y < ((D.inter m.region).clamp s.w s.h).y2 →
      o.pol = .blank ∨ contAt (o.main.row y) ((D.inter m.region).clamp s.w s.h).x = false := by
    intro y h1 h2
    right
    rw [hfx]
    exact (hns y (by omega) (by omega)).1
  have hP'alt : P'.onAlt = false := og.main
  have hcur := exec_cursor cw m ha P' hP'alt (by show m.cx < o.main.w; rw [og.width]; exact hcx)
    (by show m.cy < o.main.h; rw [og.height]; exact hcy) (by omega) (by omega)
  have hTv : cursorVisible m → T = withCursor P' m.cx m.cy := by
    intro hv
    show (run cw o _).1 = _
    rw [hout]
    exact Exec.run (exec_repaint_region cw o s _ og hP hrows hpol hsp hW hH _ _ (hcur.1 hv))
  have hTh : ¬ cursorVisible m → T = cursorHidden P' := by
    intro hv
    show (run cw o _).1 = _
    rw [hout]
    exact Exec.run (exec_repaint_region cw o s _ og hP hrows hpol hsp hW hH _ _ (hcur.2 hv))
  have hTrow : ∀ y, T.main.row y = P'.main.row y := by
    intro y
    by_cases hv : cursorVisible m
    · rw [hTv hv]; rfl
    · rw [hTh hv]; rfl
  have hTfix : T.onAlt = false ∧ T.main.w = s.w ∧ T.main.h = s.h ∧ T.main.grid.length = s.h := by
    have hgl : (repaintedGrid o s (D.inter m.region)).length = s.h := by
      unfold repaintedGrid; rw [repaintRows_length, og.glen]
    by_cases hv : cursorVisible m
    · rw [hTv hv]; exact ⟨og.main, og.width, og.height, hgl⟩
    · rw [hTh hv]; exact ⟨og.main, og.width, og.height, hgl⟩
  have hPne : ((D.inter m.region).clamp s.w s.h).x < ((D.inter m.region).clamp s.w s.h).x2 := by
    simp only [MRegion.isEmpty, Bool.or_eq_false_iff, decide_eq_false_iff_not] at hP; omega
  have hrowT : ∀ y, T.main.row y =
      if ((D.inter m.region).clamp s.w s.h).y ≤ y ∧ y < ((D.inter m.region).clamp s.w s.h).y2
      then newRow (o.main.row y) (s.row y) ((D.inter m.region).clamp s.w s.h).x
        ((D.inter m.region).clamp s.w s.h).x2
      else o.main.row y := by
    intro y
    rw [hTrow]
    exact repaintedGrid_row o s (D.inter m.region) og.glen y
  suffices hsuff : (∀ y, ((D.inter m.region).clamp s.w s.h).y ≤ y →
      y < ((D.inter m.region).clamp s.w s.h).y2 →
      Synced (T.main.row y) (s.row y) (m.region.clamp s.w s.h).x (m.region.clamp s.w s.h).x2) ∧
    (∀ y, ¬ (((D.inter m.region).clamp s.w s.h).y ≤ y ∧ y < ((D.inter m.region).clamp s.w s.h).y2) →
      T.main.row y = o.main.row y) ∧
    OuterGrid T s ∧ NoStraddle T s m.region from
    ⟨hsuff.1, hsuff.2.1, hsuff.2.2.1, hsuff.2.2.2, hTv, hTh⟩
  clear hTrow hTv hTh hcur hout hpol
  unfold NoStraddle at hns ⊢
  clear_value T P'
  rw [hfx, hfx2] at hrowT hPne
  generalize ((D.inter m.region).clamp s.w s.h) = P at *
  generalize (m.region.clamp s.w s.h) = Rc at *
  -- the painted rows
  have hpainted : ∀ y, P.y ≤ y → y < P.y2 →
      Synced (newRow (o.main.row y) (s.row y) Rc.x Rc.x2) (s.row y) Rc.x Rc.x2 ∧
      ((newRow (o.main.row y) (s.row y) Rc.x Rc.x2).length = s.w ∧
        rowWF (newRow (o.main.row y) (s.row y) Rc.x Rc.x2) = true) ∧
      contAt (newRow (o.main.row y) (s.row y) Rc.x Rc.x2) Rc.x = false ∧
      contAt (newRow (o.main.row y) (s.row y) Rc.x Rc.x2) Rc.x2 = false := by
    intro y h1 h2
    have hyh : y < s.h := by omega
    obtain ⟨l1, l2⟩ := hrows y h1 h2
    obtain ⟨c1, _⟩ := hns y (by omega) (by omega)
    have hok := subCells_rowOK cw (s.row y) Rc.x Rc.x2 l2 (by omega) hsp
    have inv := paintInv_newRow cw (o.main.row y) _ Rc.x Rc.x2 (og.rows y hyh).2 hPne
      (by rw [(og.rows y hyh).1]; exact hc3) (subCells_length _ _ _) hok
    rw [TM.C03.Lemmas.fixAt_of_not_cont c1] at inv
    have hF : newRow (o.main.row y) (s.row y) Rc.x Rc.x2 =
        repaintedRow (o.main.row y) Rc.x Rc.x2 (subCells (s.row y) Rc.x Rc.x2) := by
      unfold newRow; rw [TM.C03.Lemmas.fixAt_of_not_cont c1]
    rw [hF]
    have hOl := (og.rows y hyh).1
    refine ⟨?_, ⟨by rw [inv.hlen]; exact hOl, inv.hwf⟩, ?_, inv.clean (og.rows y hyh).2⟩
    · intro i i1 i2
      rw [inv.cell i (by omega), if_neg (by omega), if_pos i2]
    · have hcell := inv.cell Rc.x (by omega)
      rw [if_neg (Nat.lt_irrefl _), if_pos hPne, Nat.sub_self] at hcell
      have h0 := TM.C03.Lemmas.wf_cont0 hok.wf
      unfold contAt at h0 ⊢
      rw [hcell]; exact h0
  refine ⟨?_, ?_, ⟨hTfix.1, hTfix.2.1, hTfix.2.2.1, hTfix.2.2.2, ?_⟩, ?_⟩
  · intro y h1 h2
    rw [hrowT, if_pos ⟨h1, h2⟩]; exact (hpainted y h1 h2).1
  · intro y hn
    rw [hrowT, if_neg hn]
  · intro y hy
    rw [hrowT]
    by_cases hp : P.y ≤ y ∧ y < P.y2
    · rw [if_pos hp]; exact (hpainted y hp.1 hp.2).2.1
    · rw [if_neg hp]; exact og.rows y hy
  · intro y h1 h2
    rw [hrowT]
    by_cases hp : P.y ≤ y ∧ y < P.y2
    · rw [if_pos hp]; exact (hpainted y hp.1 hp.2).2.2
    · rw [if_neg hp]; exact hns y h1 h2

/-- the outer terminal after the mirror has been told `RegionChanged(D)` for every `D` of the
    list, in order, each time reading the inner screen `s` and the outer terminal reading what
    the mirror wrote -/
def feedDamage (cw : Nat → Nat) (m : Mirror) (s : Scr) : Term → List MRegion → Term
  | o, [] => o
  | o, D :: ds => feedDamage cw m s (run cw o (m.step s (.regionChanged D)).2).1 ds

/-- feeding a list of full-width regions: every region row covered by one of them shows the inner
    row afterwards; a row that showed the inner row keeps showing it; the outer terminal still
    fits and has no straddler at the region's edges -/
theorem feedDamage_spec (cw : Nat → Nat) (m : Mirror) (s : Scr) (ha : m.attached = true)
    (hrows : ∀ y, y < s.h → (s.row y).length = s.w ∧ RowOK cw (s.row y))
    (hsp : cw 32 ≤ 1) (hW : s.w ≤ paramMax) (hH : s.h ≤ paramMax)
    (hcx : m.cx < s.w) (hcy : m.cy < s.h) :
    ∀ (ds : List MRegion) (o : Term), (∀ D ∈ ds, D.x = 0 ∧ s.w ≤ D.x2) →
    OuterGrid o s → NoStraddle o s m.region →
    OuterGrid (feedDamage cw m s o ds) s ∧ NoStraddle (feedDamage cw m s o ds) s m.region ∧
    ∀ y, (m.region.clamp s.w s.h).y ≤ y → y < (m.region.clamp s.w s.h).y2 →
      ((∃ D ∈ ds, D.y ≤ y ∧ y < D.y2) →
        Synced ((feedDamage cw m s o ds).main.row y) (s.row y) (m.region.clamp s.w s.h).x
          (m.region.clamp s.w s.h).x2) ∧
      (Synced (o.main.row y) (s.row y) (m.region.clamp s.w s.h).x (m.region.clamp s.w s.h).x2 →
        Synced ((feedDamage cw m s o ds).main.row y) (s.row y) (m.region.clamp s.w s.h).x
          (m.region.clamp s.w s.h).x2) := by
  intro ds
  induction ds with
  | nil =>
    intro o _ og hns
    exact ⟨og, hns, fun y _ _ => ⟨fun ⟨D, hD, _⟩ => (by cases hD), id⟩⟩
  | cons D ds ih =>
    intro o hfull og hns
    have hD := hfull D (by simp)
    have hy2 : (m.region.clamp s.w s.h).y2 ≤ s.h := by simp only [MRegion.clamp]; omega
    -- one step
    have hstep : OuterGrid (run cw o (m.step s (.regionChanged D)).2).1 s ∧
        NoStraddle (run cw o (m.step s (.regionChanged D)).2).1 s m.region ∧
        ∀ y, (m.region.clamp s.w s.h).y ≤ y → y < (m.region.clamp s.w s.h).y2 →
          ((D.y ≤ y ∧ y < D.y2) →
            Synced ((run cw o (m.step s (.regionChanged D)).2).1.main.row y) (s.row y)
              (m.region.clamp s.w s.h).x (m.region.clamp s.w s.h).x2) ∧
          (Synced (o.main.row y) (s.row y) (m.region.clamp s.w s.h).x (m.region.clamp s.w s.h).x2 →
            Synced ((run cw o (m.step s (.regionChanged D)).2).1.main.row y) (s.row y)
              (m.region.clamp s.w s.h).x (m.region.clamp s.w s.h).x2) := by
      cases hP : ((D.inter m.region).clamp s.w s.h).isEmpty with
      | true =>
        have hst := region_outside_silent m s D hP
        have hrun : (run cw o (m.step s (.regionChanged D)).2).1 = o := by
          rw [hst]; exact Exec.run (Exec.nil cw o)
        rw [hrun]
        refine ⟨og, hns, fun y h1 h2 => ⟨fun hc => ?_, id⟩⟩
        obtain ⟨r1, r2⟩ := rect_rows_in D m.region s.w s.h y h1 h2 hc.1 hc.2
        obtain ⟨hfx, hfx2⟩ := rect_full D m.region s.w s.h hD
        simp only [MRegion.isEmpty, Bool.or_eq_true, decide_eq_true_eq] at hP
        intro i i1 i2
        omega
      | false =>
        obtain ⟨q1, q2, q3, q4, _, _⟩ := regionChanged_fullwidth cw m o s D ha og hD hP
          (fun y a b => hrows y (by
            have := (rect_sub D m.region s.w s.h).2.2.2.2.1; omega)) hns hsp hW hH hcx hcy
        refine ⟨q3, q4, fun y h1 h2 => ⟨fun hc => ?_, fun hs => ?_⟩⟩
        · obtain ⟨r1, r2⟩ := rect_rows_in D m.region s.w s.h y h1 h2 hc.1 hc.2
          exact q1 y r1 r2
        · by_cases hp : ((D.inter m.region).clamp s.w s.h).y ≤ y ∧
              y < ((D.inter m.region).clamp s.w s.h).y2
          · exact q1 y hp.1 hp.2
          · rw [q2 y hp]; exact hs
    obtain ⟨s1, s2, s3⟩ := hstep
    obtain ⟨i1, i2, i3⟩ := ih _ (fun D' hD' => hfull D' (by simp [hD'])) s1 s2
    refine ⟨i1, i2, fun y h1 h2 => ⟨?_, fun hs => (i3 y h1 h2).2 ((s3 y h1 h2).2 hs)⟩⟩
    rintro ⟨D', hD', hc⟩
    rcases List.mem_cons.1 hD' with rfl | hmem
    · exact (i3 y h1 h2).2 ((s3 y h1 h2).1 hc)
    · exact (i3 y h1 h2).1 ⟨D', hmem, hc⟩

/-- what the mirror needs of the inner (model) terminal: the C10 invariant of both buffers, both
    of the same size, the rows of the active screen `RowOK`, the size within CSI-parameter range -/
structure InnerOK (cw : Nat → Nat) (t : Term) : Prop where
  minv : t.main.inv = true
  ainv : t.alt.inv = true
  size : t.main.w = t.alt.w ∧ t.main.h = t.alt.h
  rows : ∀ y, y < t.scr.h → RowOK cw (t.scr.row y)
  wmax : t.scr.w ≤ paramMax
  hmax : t.scr.h ≤ paramMax

namespace Lemmas

theorem InnerOK_shaped {cw : Nat → Nat} {t : Term} (h : InnerOK cw t) : TM.C10.Shaped t.scr :=
  TM.C10.Lemmas.shaped_scr (TM.C10.Lemmas.inv_shaped h.minv) (TM.C10.Lemmas.inv_shaped h.ainv)

theorem InnerOK_rowlen {cw : Nat → Nat} {t : Term} (h : InnerOK cw t) (y : Nat) (hy : y < t.scr.h) :
    (t.scr.row y).length = t.scr.w := by
  have hs := InnerOK_shaped h
  exact hs.2 _ (TM.C10.Lemmas.row_mem t.scr y (by rw [hs.1]; exact hy))

theorem InnerOK_needWF {cw : Nat → Nat} {t : Term} (h : InnerOK cw t) : TM.C10.NeedWF t :=
  TM.C10.Lemmas.needWF_of_inv h.minv h.ainv

/-- a token keeps the size of the active screen (both buffers have the same size) -/
theorem apply_scr_size (cw : Nat → Nat) (t : Term) (tok : Tok) (h : InnerOK cw t) :
    (Term.apply cw t tok).1.scr.w = t.scr.w ∧ (Term.apply cw t tok).1.scr.h = t.scr.h := by
  obtain ⟨_, g1, g2, g3, g4, _, _⟩ := TM.C10.Lemmas.apply_geo cw t tok (InnerOK_needWF h)
  obtain ⟨z1, z2⟩ := h.size
  have e1 : t.scr.w = t.main.w ∧ t.scr.h = t.main.h := TM.C10.Lemmas.scr_size h.size
  have e2 : (Term.apply cw t tok).1.scr.w = (Term.apply cw t tok).1.main.w ∧
      (Term.apply cw t tok).1.scr.h = (Term.apply cw t tok).1.main.h :=
    TM.C10.Lemmas.scr_size ⟨by rw [g1, g3]; exact z1, by rw [g2, g4]; exact z2⟩
  rw [e1.1, e1.2, e2.1, e2.2]
  exact ⟨g1, g2⟩

/-- a row outside the announced damage is the same row of the active screen afterwards -/
theorem row_unannounced (cw : Nat → Nat) (t : Term) (tok : Tok) (h : InnerOK cw t) (y : Nat)
    (hy : y < t.scr.h) (hn : ¬ TM.C10.dmgRow t tok y) :
    (Term.apply cw t tok).1.scr.row y = t.scr.row y := by
  have hw : 0 < t.scr.w := by
    have := ((TM.C10.Lemmas.inv_iff t.main).1 h.minv).1
    rw [(TM.C10.Lemmas.scr_size h.size).1]; omega
  have hann : TM.C10.announced t tok 0 y = false := by
    cases e : TM.C10.announced t tok 0 y with
    | false => rfl
    | true => exact absurd ((TM.C10.Lemmas.announced_iff t tok 0 y hw).1 e) hn
  rw [TM.C10.Lemmas.row_eq, TM.C10.Lemmas.row_eq,
    TM.C10.Lemmas.apply_frame cw t tok (InnerOK_shaped h) (InnerOK_needWF h) 0 y hw hy hann]

end Lemmas
open Lemmas

/-- **The mirror follows one token of the model terminal.** The inner terminal `t` applies `tok`
    (any token, buffer switches included: they announce the whole screen) and becomes `t'`; the
    mirror — attached, region `R` — is told `RegionChanged(D)` for every region `D` the model
    announces for the token (`Term.damage t tok`, in order), each time reading the NEW active
    screen `t'.scr`, and the outer terminal reads what the mirror writes. (The Go code calls back
    DURING the change, region by region; the model announces after it. Every announced region is
    repainted from the final screen here, which is what the last callback touching a cell does.)
    If the outer terminal fitted the old active screen, showed it inside `R` and had no wide
    character straddling an edge of `R`, the same holds for the new active screen afterwards.
    The model's announcements are full-width rows, so no no-cut hypothesis on the inner rows
    remains. `InnerOK` is taken for `t` and for `t'`. -/
theorem mirror_follows_token (cw : Nat → Nat) (m : Mirror) (ha : m.attached = true) (t : Term)
    (tok : Tok) (o : Term) (hI : InnerOK cw t) (hI' : InnerOK cw (Term.apply cw t tok).1)
    (og : OuterGrid o t.scr) (hs : SyncedRegion o t.scr m.region)
    (hns : NoStraddle o t.scr m.region) (hsp : cw 32 ≤ 1)
    (hcx : m.cx < t.scr.w) (hcy : m.cy < t.scr.h) :
    let t' := (Term.apply cw t tok).1
    let o' := feedDamage cw m t'.scr o ((t.damage tok).map toM)
    SyncedRegion o' t'.scr m.region ∧ OuterGrid o' t'.scr ∧ NoStraddle o' t'.scr m.region := by
  intro t' o'
  obtain ⟨hw, hh⟩ : t'.scr.w = t.scr.w ∧ t'.scr.h = t.scr.h := apply_scr_size cw t tok hI
  have og' : OuterGrid o t'.scr := og.resize hw hh
  have hns' : NoStraddle o t'.scr m.region := by
    unfold NoStraddle at hns ⊢; rw [hw, hh]; exact hns
  have hfull : ∀ D ∈ (t.damage tok).map toM, D.x = 0 ∧ t'.scr.w ≤ D.x2 := by
    intro D hD
    obtain ⟨r, hr, rfl⟩ := List.mem_map.1 hD
    obtain ⟨a, b⟩ := TM.C10.Lemmas.damage_fullwidth t tok r hr
    exact ⟨a, by show t'.scr.w ≤ r.x2; rw [b, hw]; exact Nat.le_refl _⟩
  obtain ⟨f1, f2, f3⟩ := feedDamage_spec cw m t'.scr ha
    (fun y hy => ⟨InnerOK_rowlen hI' y hy, hI'.rows y hy⟩) hsp hI'.wmax hI'.hmax
    (by rw [hw]; exact hcx) (by rw [hh]; exact hcy) _ o hfull og' hns'
  refine ⟨?_, f1, f2⟩
  intro y h1 h2
  have hy2 : (m.region.clamp t'.scr.w t'.scr.h).y2 ≤ t'.scr.h := by simp only [MRegion.clamp]; omega
  by_cases hd : TM.C10.dmgRow t tok y
  · apply (f3 y h1 h2).1
    obtain ⟨r, hr, r1, r2⟩ := hd
    exact ⟨toM r, List.mem_map.2 ⟨r, hr, rfl⟩, r1, r2⟩
  · apply (f3 y h1 h2).2
    have hrow : t'.scr.row y = t.scr.row y := row_unannounced cw t tok hI y (by omega) hd
    rw [hrow]
    have := hs y (by rw [← hw, ← hh]; exact h1) (by rw [← hw, ← hh]; exact h2)
    rw [← hw, ← hh] at this
    exact this

/-- the outer terminal after a list of tokens, the mirror being driven by the model terminal's
    announcements after every token -/
def mirrorFollow (cw : Nat → Nat) (m : Mirror) : Term → Term → List Tok → Term
  | _, o, [] => o
  | t, o, tok :: toks =>
    mirrorFollow cw m (Term.apply cw t tok).1
      (feedDamage cw m (Term.apply cw t tok).1.scr o ((t.damage tok).map toM)) toks

/-- `InnerOK` in every state of the run (before every token and at the end) -/
def InnerAlong (cw : Nat → Nat) : Term → List Tok → Prop
  | t, [] => InnerOK cw t
  | t, tok :: toks => InnerOK cw t ∧ InnerAlong cw (Term.apply cw t tok).1 toks

theorem InnerAlong.head {cw : Nat → Nat} {t : Term} {toks : List Tok} (h : InnerAlong cw t toks) :
    InnerOK cw t := by
  cases toks with
  | nil => exact h
  | cons tok toks => exact h.1

/-- **The mirror follows any run of tokens.** An attached mirror whose outer terminal fits the
    inner terminal's active screen, shows it inside the region and has no straddler at the
    region's edges, and which is driven by the model terminal's own announcements after every
    token, still does so after the whole list of tokens — buffer switches, scrolls, wide
    characters, autowrap included. (Apply it to every prefix for "after every token".) -/
theorem mirror_follows_run (cw : Nat → Nat) (m : Mirror) (ha : m.attached = true) (hsp : cw 32 ≤ 1) :
    ∀ (toks : List Tok) (t o : Term), InnerAlong cw t toks →
    OuterGrid o t.scr → SyncedRegion o t.scr m.region → NoStraddle o t.scr m.region →
    m.cx < t.scr.w → m.cy < t.scr.h →
    SyncedRegion (mirrorFollow cw m t o toks) (TM.C10.stateAfter cw t toks).scr m.region ∧
    OuterGrid (mirrorFollow cw m t o toks) (TM.C10.stateAfter cw t toks).scr ∧
    NoStraddle (mirrorFollow cw m t o toks) (TM.C10.stateAfter cw t toks).scr m.region := by
  intro toks
  induction toks with
  | nil => intro t o _ og hs hns _ _; exact ⟨hs, og, hns⟩
  | cons tok toks ih =>
    intro t o hal og hs hns hcx hcy
    obtain ⟨hI, hrest⟩ := hal
    have hI' := hrest.head
    obtain ⟨q1, q2, q3⟩ := mirror_follows_token cw m ha t tok o hI hI' og hs hns hsp hcx hcy
    obtain ⟨hw, hh⟩ := apply_scr_size cw t tok hI
    exact ih _ _ hrest q2 q1 q3 (by rw [hw]; exact hcx) (by rw [hh]; exact hcy)

/-- after `Attach` on a fresh outer terminal no wide character straddles an edge of the region -/
theorem attach_nostraddle (cw : Nat → Nat) (pol : WidePolicy) (m : Mirror) (s : Scr)
    (r0 : MRegion) (hne : (r0.clamp s.w s.h).isEmpty = false)
    (hrows : ∀ y, y < s.h → (s.row y).length = s.w ∧ RowOK cw (s.row y))
    (hsp : cw 32 ≤ 1) (hW : s.w ≤ paramMax) (hH : s.h ≤ paramMax)
    (hcx : m.cx < s.w) (hcy : m.cy < s.h) :
    NoStraddle (run cw (Term.init pol s.w s.h) (m.step s (.attach r0)).2).1 s r0 := by
  obtain ⟨_, a2, a3⟩ := attach_fresh cw pol m s r0 hne hrows hsp hW hH hcx hcy
  obtain ⟨f1, _⟩ := mirror_region_fresh cw pol s r0 hne hrows hsp hW hH
  have hx : (r0.clamp s.w s.h).x < (r0.clamp s.w s.h).x2 := by
    simp only [MRegion.isEmpty, Bool.or_eq_false_iff, decide_eq_false_iff_not] at hne; omega
  have hx2 : (r0.clamp s.w s.h).x2 ≤ s.w := by simp only [MRegion.clamp]; omega
  have hy2 : (r0.clamp s.w s.h).y2 ≤ s.h := by simp only [MRegion.clamp]; omega
  have hrow : ∀ y, (run cw (Term.init pol s.w s.h) (m.step s (.attach r0)).2).1.main.row y =
      (run cw (Term.init pol s.w s.h) (renderRegion s r0)).1.main.row y := by
    intro y
    by_cases hv : m.showCur = true ∧ m.focused = true ∧ r0.x ≤ m.cx ∧ m.cx < r0.x2 ∧
        r0.y ≤ m.cy ∧ m.cy < r0.y2
    · rw [a2 hv]; rfl
    · rw [a3 hv]
  unfold NoStraddle
  generalize r0.clamp s.w s.h = r at f1 hx hx2 hy2 ⊢
  intro y h1 h2
  have hy : y < s.h := by omega
  have hsub := (subCells_rowOK cw (s.row y) r.x r.x2 (hrows y hy).2
    (by rw [(hrows y hy).1]; exact hx2) hsp).wf
  have h0 := TM.C03.Lemmas.wf_cont0 hsub
  rw [hrow, f1 y h1 h2]
  constructor
  · unfold contAt at h0 ⊢
    rw [List.getElem?_append_left (by
        rw [List.length_append, length_blankRow, subCells_length]; omega),
      List.getElem?_append_right (by rw [length_blankRow]; exact Nat.le_refl _), length_blankRow,
      Nat.sub_self]
    exact h0
  · have := contAt_blankTail (blankRow r.x Style.default ++ subCells (s.row y) r.x r.x2)
      (s.w - r.x2) 0 Style.default
    rw [List.length_append, length_blankRow, subCells_length,
      show r.x + (r.x2 - r.x) + 0 = r.x2 by omega] at this
    exact this

/-- **Capstone: attach, then follow.** A mirror is attached to the region `R` of the model
    terminal `t` on a FRESH outer terminal of the same size and from then on driven by the
    terminal's own announcements: after any list of tokens the outer terminal, which has read
    everything the mirror wrote, shows the terminal's active screen inside `R` (and still fits it
    and has no straddler at the edges of `R`). -/
theorem attach_then_follow (cw : Nat → Nat) (pol : WidePolicy) (m : Mirror) (t : Term)
    (R : MRegion) (toks : List Tok) (hne : (R.clamp t.scr.w t.scr.h).isEmpty = false)
    (hal : InnerAlong cw t toks) (hsp : cw 32 ≤ 1) (hcx : m.cx < t.scr.w) (hcy : m.cy < t.scr.h) :
    let m' := (m.step t.scr (.attach R)).1
    let o0 := (run cw (Term.init pol t.scr.w t.scr.h) (m.step t.scr (.attach R)).2).1
    let o' := mirrorFollow cw m' t o0 toks
    SyncedRegion o' (TM.C10.stateAfter cw t toks).scr R ∧
    OuterGrid o' (TM.C10.stateAfter cw t toks).scr ∧
    NoStraddle o' (TM.C10.stateAfter cw t toks).scr R := by
  intro m' o0 o'
  have hI := hal.head
  have hrows : ∀ y, y < t.scr.h → (t.scr.row y).length = t.scr.w ∧ RowOK cw (t.scr.row y) :=
    fun y hy => ⟨InnerOK_rowlen hI y hy, hI.rows y hy⟩
  obtain ⟨b1, b2, b3, b4⟩ := attach_establishes_sync cw pol m t.scr R hne hrows hsp hI.wmax hI.hmax
    hcx hcy
  have b5 := attach_nostraddle cw pol m t.scr R hne hrows hsp hI.wmax hI.hmax hcx hcy
  have hreg : m'.region = R := b2
  have := mirror_follows_run cw m' b1 hsp toks t o0 hal b4 (by rw [hreg]; exact b3)
    (by rw [hreg]; exact b5) hcx hcy
  rw [hreg] at this
  exact this

/-! ### sessions: tokens of the inner terminal interleaved with cursor callbacks -/

/-- the callbacks that leave the painted rows alone: `CursorMoved`, `ViewFlagChanged(ShowCursor)`,
    `Focus`, and every other callback (which writes nothing) -/
inductive CursorOp
  | moved (x y : Nat)
  | showCur (v : Bool)
  | focus
  | other

def CursorOp.toOp : CursorOp → MirrorOp
  | .moved x y => .cursorMoved x y
  | .showCur v => .showCursor v
  | .focus => .focus
  | .other => .other

/-- one step of a session: the inner terminal applies a token and the mirror is told the
    announced regions; or the mirror receives a cursor callback -/
inductive SessStep
  | tok (tok : Tok)
  | cur (c : CursorOp)

/-- mirror, inner terminal, outer terminal -/
structure Sess where
  m : Mirror
  t : Term
  o : Term

def Sess.step (cw : Nat → Nat) (σ : Sess) : SessStep → Sess
  | .tok tok =>
    ⟨σ.m, (Term.apply cw σ.t tok).1,
      feedDamage cw σ.m (Term.apply cw σ.t tok).1.scr σ.o ((σ.t.damage tok).map toM)⟩
  | .cur c => ⟨(σ.m.step σ.t.scr c.toOp).1, σ.t, (run cw σ.o (σ.m.step σ.t.scr c.toOp).2).1⟩

def Sess.run (cw : Nat → Nat) (σ : Sess) (steps : List SessStep) : Sess :=
  steps.foldl (Sess.step cw) σ

/-- the session invariant: the mirror is attached to `R`, the outer terminal fits the inner
    terminal's active screen, shows it inside `R`, has no straddler at the edges of `R`, and the
    announced cursor lies on the screen -/
structure SessInv (R : MRegion) (σ : Sess) : Prop where
  att : σ.m.attached = true
  reg : σ.m.region = R
  sync : SyncedRegion σ.o σ.t.scr R
  grid : OuterGrid σ.o σ.t.scr
  nostr : NoStraddle σ.o σ.t.scr R
  hcx : σ.m.cx < σ.t.scr.w
  hcy : σ.m.cy < σ.t.scr.h

/-- a `CursorMoved` announces a position on the screen -/
def movedOK (σ : Sess) : SessStep → Prop
  | .cur (.moved x y) => x < σ.t.scr.w ∧ y < σ.t.scr.h
  | _ => True

/-- per-step hypotheses: `InnerOK` in every state, and `movedOK` -/
def SessOK (cw : Nat → Nat) : Sess → List SessStep → Prop
  | σ, [] => InnerOK cw σ.t
  | σ, st :: rest => InnerOK cw σ.t ∧ movedOK σ st ∧ SessOK cw (σ.step cw st) rest

theorem SessOK.head {cw : Nat → Nat} {σ : Sess} {steps : List SessStep} (h : SessOK cw σ steps) :
    InnerOK cw σ.t := by
  cases steps with
  | nil => exact h
  | cons st rest => exact h.1

/-- **a cursor callback**: what the outer terminal becomes, and that its rows are untouched -/
theorem cursorOp_spec (cw : Nat → Nat) (m : Mirror) (s : Scr) (o : Term) (c : CursorOp)
    (ha : m.attached = true) (ho : o.onAlt = false)
    (hcx : (m.step s c.toOp).1.cx < o.main.w) (hcy : (m.step s c.toOp).1.cy < o.main.h)
    (hW : o.main.w ≤ paramMax) (hH : o.main.h ≤ paramMax) :
    let m' := (m.step s c.toOp).1
    let T := (run cw o (m.step s c.toOp).2).1
    m'.attached = true ∧ m'.region = m.region ∧
    (c = .other → T = o ∧ m' = m) ∧
    (c ≠ .other → (cursorVisible m' → T = withCursor o m'.cx m'.cy) ∧
      (¬ cursorVisible m' → T = cursorHidden o)) ∧
    (∀ y, T.main.row y = o.main.row y) ∧ T.onAlt = o.onAlt ∧ T.main.w = o.main.w ∧
    T.main.h = o.main.h ∧ T.main.grid.length = o.main.grid.length := by
  intro m' T
  have key : ∀ (m1 : Mirror), m1.attached = true → m1.cx < o.main.w → m1.cy < o.main.h →
      ∀ T1, T1 = (run cw o m1.renderCursor).1 →
      ((cursorVisible m1 → T1 = withCursor o m1.cx m1.cy) ∧
        (¬ cursorVisible m1 → T1 = cursorHidden o)) ∧
      (∀ y, T1.main.row y = o.main.row y) ∧ T1.onAlt = o.onAlt ∧ T1.main.w = o.main.w ∧
      T1.main.h = o.main.h ∧ T1.main.grid.length = o.main.grid.length := by
    intro m1 h1 h2 h3 T1 hT1
    obtain ⟨e1, e2⟩ := exec_cursor cw m1 h1 o ho h2 h3 (by omega) (by omega)
    by_cases hv : cursorVisible m1
    · have : T1 = withCursor o m1.cx m1.cy := by rw [hT1]; exact Exec.run (e1 hv)
      refine ⟨⟨fun _ => this, fun h => absurd hv h⟩, ?_⟩
      rw [this]; exact ⟨fun _ => rfl, rfl, rfl, rfl, rfl⟩
    · have : T1 = cursorHidden o := by rw [hT1]; exact Exec.run (e2 hv)
      refine ⟨⟨fun h => absurd h hv, fun _ => this⟩, ?_⟩
      rw [this]; exact ⟨fun _ => rfl, rfl, rfl, rfl, rfl⟩
  cases c with
  | other =>
    have hT : T = o := Exec.run (Exec.nil cw o)
    refine ⟨ha, rfl, fun _ => ⟨hT, rfl⟩, fun h => absurd rfl h, ?_⟩
    rw [hT]; exact ⟨fun _ => rfl, rfl, rfl, rfl, rfl⟩
  | moved x y =>
    obtain ⟨k1, k2⟩ := key { m with cx := x, cy := y } ha hcx hcy T rfl
    exact ⟨ha, rfl, fun h => (by cases h), fun _ => k1, k2⟩
  | showCur v =>
    obtain ⟨k1, k2⟩ := key { m with showCur := v } ha hcx hcy T rfl
    exact ⟨ha, rfl, fun h => (by cases h), fun _ => k1, k2⟩
  | focus =>
    obtain ⟨k1, k2⟩ := key { m with focused := true } ha hcx hcy T rfl
    exact ⟨ha, rfl, fun h => (by cases h), fun _ => k1, k2⟩

/-- one step keeps the session invariant -/
theorem sessInv_step (cw : Nat → Nat) (R : MRegion) (σ : Sess) (st : SessStep) (hsp : cw 32 ≤ 1)
    (inv : SessInv R σ) (hI : InnerOK cw σ.t) (hI' : InnerOK cw (σ.step cw st).t)
    (hmv : movedOK σ st) :
    SessInv R (σ.step cw st) := by
  cases st with
  | tok tok =>
    obtain ⟨q1, q2, q3⟩ := mirror_follows_token cw σ.m inv.att σ.t tok σ.o hI hI' inv.grid
      (by rw [inv.reg]; exact inv.sync) (by rw [inv.reg]; exact inv.nostr) hsp inv.hcx inv.hcy
    obtain ⟨hw, hh⟩ := apply_scr_size cw σ.t tok hI
    rw [inv.reg] at q1 q3
    exact ⟨inv.att, inv.reg, q1, q2, q3,
      by show σ.m.cx < (Term.apply cw σ.t tok).1.scr.w; rw [hw]; exact inv.hcx,
      by show σ.m.cy < (Term.apply cw σ.t tok).1.scr.h; rw [hh]; exact inv.hcy⟩
  | cur c =>
    have hcxy : (σ.m.step σ.t.scr c.toOp).1.cx < σ.t.scr.w ∧ (σ.m.step σ.t.scr c.toOp).1.cy < σ.t.scr.h := by
      cases c with
      | moved x y => exact hmv
      | showCur v => exact ⟨inv.hcx, inv.hcy⟩
      | focus => exact ⟨inv.hcx, inv.hcy⟩
      | other => exact ⟨inv.hcx, inv.hcy⟩
    obtain ⟨c1, c2, _, _, c5, c6, c7, c8, c9⟩ := cursorOp_spec cw σ.m σ.t.scr σ.o c inv.att inv.grid.main
      (by rw [inv.grid.width]; exact hcxy.1) (by rw [inv.grid.height]; exact hcxy.2)
      (by rw [inv.grid.width]; exact hI.wmax) (by rw [inv.grid.height]; exact hI.hmax)
    refine ⟨c1, by show (σ.m.step σ.t.scr c.toOp).1.region = R; rw [c2]; exact inv.reg,
      ?_, ?_, ?_, hcxy.1, hcxy.2⟩
    · intro y h1 h2
      show Synced ((run cw σ.o _).1.main.row y) _ _ _
      rw [c5 y]; exact inv.sync y h1 h2
    · exact ⟨by show (run cw σ.o _).1.onAlt = false; rw [c6]; exact inv.grid.main,
        by show (run cw σ.o _).1.main.w = _; rw [c7]; exact inv.grid.width,
        by show (run cw σ.o _).1.main.h = _; rw [c8]; exact inv.grid.height,
        by show (run cw σ.o _).1.main.grid.length = _; rw [c9]; exact inv.grid.glen,
        fun y hy => by
          show ((run cw σ.o _).1.main.row y).length = σ.t.scr.w ∧
            rowWF ((run cw σ.o _).1.main.row y) = true
          rw [c5 y]; exact inv.grid.rows y hy⟩
    · intro y h1 h2
      show contAt ((run cw σ.o _).1.main.row y) _ = false ∧ contAt ((run cw σ.o _).1.main.row y) _ = false
      rw [c5 y]; exact inv.nostr y h1 h2

/-- **The session invariant along any interleaving** of tokens of the inner terminal (announced
    to the mirror) and cursor callbacks (`CursorMoved`, `ShowCursor`, `Focus`, others). -/
theorem session_invariant (cw : Nat → Nat) (R : MRegion) (hsp : cw 32 ≤ 1) :
    ∀ (steps : List SessStep) (σ : Sess), SessInv R σ → SessOK cw σ steps →
    SessInv R (σ.run cw steps) := by
  intro steps
  induction steps with
  | nil => intro σ inv _; exact inv
  | cons st rest ih =>
    intro σ inv hok
    obtain ⟨hI, hmv, hrest⟩ := hok
    exact ih _ (sessInv_step cw R σ st hsp inv hI hrest.head hmv) hrest

/-- **the cursor clause**: after a `CursorMoved(x, y)` (e.g. the inner cursor `x = t.scr.cx`,
    `y = t.scr.cy`, as `C10.cursor_last` says the last announcement is) in a session satisfying
    the invariant, the outer cursor stands at `(x, y)` and is visible when the mirror shows the
    cursor (`cursorVisible`: show flag, focus, position inside the region), and is hidden
    otherwise; the rows are untouched. -/
theorem session_cursor (cw : Nat → Nat) (R : MRegion) (σ : Sess) (x y : Nat) (inv : SessInv R σ)
    (hI : InnerOK cw σ.t) (hx : x < σ.t.scr.w) (hy : y < σ.t.scr.h) :
    let σ' := σ.step cw (.cur (.moved x y))
    σ'.m.cx = x ∧ σ'.m.cy = y ∧
    (cursorVisible σ'.m → σ'.o.main.cx = x ∧ σ'.o.main.cy = y ∧ σ'.o.vflags = σ.o.vflags.set 1 true) ∧
    (¬ cursorVisible σ'.m → σ'.o.vflags = σ.o.vflags.set 1 false) ∧
    (∀ y', σ'.o.main.row y' = σ.o.main.row y') := by
  intro σ'
  obtain ⟨_, _, _, c4, c5, _⟩ := cursorOp_spec cw σ.m σ.t.scr σ.o (.moved x y) inv.att inv.grid.main
    (by rw [inv.grid.width]; exact hx) (by rw [inv.grid.height]; exact hy)
    (by rw [inv.grid.width]; exact hI.wmax) (by rw [inv.grid.height]; exact hI.hmax)
  obtain ⟨d1, d2⟩ := c4 (by intro h; cases h)
  refine ⟨rfl, rfl, fun hv => ?_, fun hv => ?_, c5⟩
  · have : σ'.o = _ := d1 hv
    rw [this]; exact ⟨rfl, rfl, rfl⟩
  · have : σ'.o = _ := d2 hv
    rw [this]; rfl

/-! ## Part 9 — `InnerOK` is an invariant of the model terminal: the unconditional capstone -/

/-- text `t` of width `w` is the encoding of ONE printable scalar value of that width -/
def TxtOK (cw : Nat → Nat) (t : Bytes) (w : Nat) : Prop :=
  ∃ cp, validScalar cp ∧ 32 ≤ cp ∧ cp ≠ 127 ∧ t = encodeRune cp ∧ w = max (cw cp) 1

/-- the cell-wise part of `RowOK`: a valid style, and a character cell holds one printable
    scalar value with its width -/
def CellOK (cw : Nat → Nat) (c : Cell) : Prop :=
  Style.valid c.sty ∧ ∀ t w, c.g = .ch t w → TxtOK cw t w

/-- what a token must satisfy: a text token carries the encoding of its (printable, valid) code
    point — what the tokeniser produces (`next_tokOK`); every other token is arbitrary -/
def TokOK : Tok → Prop
  | .text stored cp => validScalar cp ∧ 32 ≤ cp ∧ cp ≠ 127 ∧ stored = encodeRune cp
  | _ => True

namespace Lemmas

theorem cellOK_blank {cw : Nat → Nat} (hsp : cw 32 ≤ 1) {st : Style} (hv : Style.valid st) :
    CellOK cw (blank st) :=
  ⟨hv, fun t w h => by
    simp only [blank, Glyph.ch.injEq] at h
    exact ⟨32, by decide, by decide, by decide, by rw [← h.1, encodeRune_32], by omega⟩⟩

theorem cellOK_charCells {cw : Nat → Nat} {t : Bytes} {w : Nat} {st : Style} (hv : Style.valid st)
    (ht : TxtOK cw t w) : ∀ c ∈ charCells t w st, CellOK cw c := by
  intro c hc
  simp only [charCells, List.mem_cons, List.mem_replicate] at hc
  rcases hc with rfl | ⟨_, rfl⟩
  · exact ⟨hv, fun t' w' h => by cases h; exact ht⟩
  · exact ⟨hv, fun t' w' h => by cases h⟩

theorem txtOK_replacement {cw : Nat → Nat} (hrep : cw 0xFFFD ≤ 1) : TxtOK cw replacementChar 1 :=
  ⟨0xFFFD, by decide, by decide, by decide, by decide, by omega⟩

/-! ### where the cells of a written row come from -/

theorem mem_blankRange {r : Row} {a n : Nat} {st : Style} {c : Cell} (h : c ∈ blankRange r a n st) :
    c ∈ r ∨ c = blank st := by
  unfold blankRange at h
  rw [List.mem_mapIdx] at h
  obtain ⟨i, hi, rfl⟩ := h
  split
  · exact Or.inr rfl
  · exact Or.inl (List.getElem_mem _)

theorem mem_blankCharAt {r : Row} {x : Nat} {st : Style} {c : Cell} (h : c ∈ blankCharAt r x st) :
    c ∈ r ∨ c = blank st := by
  unfold blankCharAt at h
  simp only at h
  split at h
  · exact Or.inl h
  · exact mem_blankRange h

theorem mem_blankStraddlers {r : Row} {a b : Nat} {st : Style} {c : Cell}
    (h : c ∈ blankStraddlers r a b st) : c ∈ r ∨ c = blank st := by
  rw [TM.C03.Lemmas.blankStraddlers_eq] at h
  rcases TM.C03.Lemmas.fixAt_mem _ _ _ _ h with h | h
  · exact TM.C03.Lemmas.fixAt_mem _ _ _ _ h
  · exact Or.inr h

theorem mem_setRange' {r : Row} {a : Nat} {cells : List Cell} {c : Cell}
    (h : c ∈ setRange r a cells) : c ∈ r ∨ c ∈ cells := by
  unfold setRange at h
  rw [List.mem_mapIdx] at h
  obtain ⟨i, hi, rfl⟩ := h
  split
  · next hc =>
    right
    rw [List.getD_eq_getElem?_getD, List.getElem?_eq_getElem (by omega)]
    exact List.getElem_mem _
  · exact Or.inl (List.getElem_mem _)

theorem mem_put {r : Row} {x w : Nat} {t : Bytes} {st : Style} {c : Cell}
    (h : c ∈ r.put x t w st) : c ∈ r ∨ c = blank st ∨ c ∈ charCells t w st := by
  unfold Row.put at h
  rcases mem_setRange' h with h | h
  · rcases mem_blankStraddlers h with h | h
    · exact Or.inl h
    · exact Or.inr (Or.inl h)
  · exact Or.inr (Or.inr h)

theorem mem_erase {r : Row} {a b : Nat} {st : Style} {c : Cell} (h : c ∈ r.erase a b st) :
    c ∈ r ∨ c = blank st := by
  unfold Row.erase at h
  simp only at h
  split at h
  · exact Or.inl h
  · rcases mem_blankRange h with h | h
    · exact mem_blankStraddlers h
    · exact Or.inr h

theorem mem_dch {r : Row} {x n : Nat} {st : Style} {c : Cell} (h : c ∈ r.dch x n st) :
    c ∈ r ∨ c = blank st := by
  unfold Row.dch at h
  simp only at h
  split at h
  · exact Or.inl h
  · simp only [List.mem_append, List.mem_replicate] at h
    rcases h with (h | h) | h
    · exact mem_blankStraddlers (List.mem_of_mem_take h)
    · exact mem_blankStraddlers (List.mem_of_mem_drop h)
    · exact Or.inr h.2

theorem mem_fixTail {r : Row} {st : Style} {c : Cell} (h : c ∈ fixTail r st) :
    c ∈ r ∨ c = blank st := by
  unfold fixTail at h
  split at h
  · split at h
    · simp only [List.mem_append, List.mem_singleton] at h
      rcases h with h | h
      · rw [List.dropLast_eq_take] at h; exact Or.inl (List.mem_of_mem_take h)
      · exact Or.inr h
    · exact Or.inl h
  · exact Or.inl h

theorem mem_cutRow {r : Row} {W : Nat} {st : Style} {c : Cell} (h : c ∈ cutRow r W st) :
    c ∈ r ∨ c = blank st := by
  unfold cutRow at h
  have h := List.mem_of_mem_take h
  split at h
  · exact mem_blankCharAt h
  · exact Or.inl h

theorem mem_putKeep {r : Row} {x w : Nat} {t : Bytes} {st : Style} {c : Cell}
    (h : c ∈ r.putKeep x t w st) : c ∈ r ∨ c = blank st ∨ c ∈ charCells t w st := by
  unfold Row.putKeep at h
  simp only at h
  rcases mem_cutRow h with h | h
  · have h1 : ∀ c, c ∈ (if contAt r (x + w) then blankCharAt r (x + w) st else r) →
        c ∈ r ∨ c = blank st := by
      intro c hc
      split at hc
      · exact mem_blankCharAt hc
      · exact Or.inl hc
    simp only [List.mem_append] at h
    rcases h with (h | h) | h
    · exact Or.inl (List.mem_of_mem_take h)
    · exact Or.inr (Or.inr h)
    · split at h
      · simp only [List.mem_append, List.mem_replicate] at h
        rcases h with h | h
        · exact Or.inr (Or.inl h.2)
        · exact Or.inl (List.mem_of_mem_drop h)
      · rcases h1 c (List.mem_of_mem_drop h) with h | h
        · exact Or.inl h
        · exact Or.inr (Or.inl h)
  · exact Or.inr (Or.inl h)

end Lemmas
open Lemmas

/-! ### screens -/

/-- the cell-wise invariant of a screen: every cell `CellOK`, the current style valid -/
def CA (cw : Nat → Nat) (s : Scr) : Prop :=
  (∀ r ∈ s.grid, ∀ c ∈ r, CellOK cw c) ∧ Style.valid s.sty

namespace Lemmas
section
variable {cw : Nat → Nat} (hsp : cw 32 ≤ 1)

theorem ca_of_eq {s s' : Scr} (hg : s'.grid = s.grid) (hs : s'.sty = s.sty) (h : CA cw s) : CA cw s' :=
  ⟨by rw [hg]; exact h.1, by rw [hs]; exact h.2⟩

include hsp in
theorem ca_blankRow {s : Scr} (h : CA cw s) (w : Nat) : ∀ c ∈ blankRow w s.sty, CellOK cw c := by
  intro c hc
  simp only [blankRow, List.mem_replicate] at hc
  rw [hc.2]; exact cellOK_blank hsp h.2

theorem ca_row {s : Scr} (h : CA cw s) (y : Nat) : ∀ c ∈ s.row y, CellOK cw c := by
  intro c hc
  unfold Scr.row at hc
  rw [List.getD_eq_getElem?_getD] at hc
  cases e : s.grid[y]? with
  | none => rw [e] at hc; simp at hc
  | some r => rw [e] at hc; exact h.1 r (List.mem_of_getElem? e) c hc

theorem ca_setRow {s : Scr} (h : CA cw s) (y : Nat) {r' : Row} (hr : ∀ c ∈ r', CellOK cw c) :
    CA cw (s.setRow y r') := by
  refine ⟨?_, h.2⟩
  intro r hm
  rcases List.mem_or_eq_of_mem_set hm with hm | rfl
  · exact h.1 r hm
  · exact hr

include hsp in
theorem ca_scroll {s : Scr} (h : CA cw s) (a b : Nat) (d : Int) : CA cw (s.scroll a b d) := by
  unfold Scr.scroll
  simp only
  split
  · exact h
  · refine ⟨?_, h.2⟩
    intro r hm
    simp only [List.mem_append] at hm
    have hb : ∀ r, r ∈ List.replicate (min d.natAbs (b - a + 1)) (blankRow s.w s.sty) →
        ∀ c ∈ r, CellOK cw c := by
      intro r hr
      rw [(List.mem_replicate.1 hr).2]; exact ca_blankRow hsp h _
    rcases hm with (hm | hm) | hm
    · exact h.1 r (List.mem_of_mem_take hm)
    · split at hm
      · simp only [List.mem_append] at hm
        rcases hm with hm | hm
        · exact hb r hm
        · exact h.1 r (List.mem_of_mem_drop (List.mem_of_mem_take (List.mem_of_mem_take hm)))
      · simp only [List.mem_append] at hm
        rcases hm with hm | hm
        · exact h.1 r (List.mem_of_mem_drop (List.mem_of_mem_take (List.mem_of_mem_drop hm)))
        · exact hb r hm
    · exact h.1 r (List.mem_of_mem_drop hm)

include hsp in
theorem ca_lineDown {s : Scr} (h : CA cw s) : CA cw s.lineDown := by
  unfold Scr.lineDown
  split
  · exact ca_scroll hsp h _ _ _
  · split
    · exact ca_of_eq rfl rfl h
    · exact h

include hsp in
theorem ca_lineUp {s : Scr} (h : CA cw s) : CA cw s.lineUp := by
  unfold Scr.lineUp
  split
  · exact ca_scroll hsp h _ _ _
  · split
    · exact ca_of_eq rfl rfl h
    · exact h

include hsp in
theorem ca_eraseRegion {s : Scr} (h : CA cw s) (x1 y1 x2 y2 : Nat) :
    CA cw (s.eraseRegion x1 y1 x2 y2) := by
  refine ⟨?_, h.2⟩
  intro r hm
  unfold Scr.eraseRegion at hm
  simp only at hm
  rw [List.mem_mapIdx] at hm
  obtain ⟨y, hy, rfl⟩ := hm
  have hold := h.1 _ (List.getElem_mem hy)
  split
  · intro c hc
    rcases mem_erase hc with hc | hc
    · exact hold c hc
    · rw [hc]; exact cellOK_blank hsp h.2
  · exact hold

include hsp in
theorem ca_eraseRegionI {s : Scr} (h : CA cw s) (x1 y1 x2 y2 : Int) :
    CA cw (s.eraseRegionI x1 y1 x2 y2) := by
  unfold Scr.eraseRegionI; exact ca_eraseRegion hsp h _ _ _ _

include hsp in
theorem ca_dch {s : Scr} (h : CA cw s) (n : Nat) : CA cw (s.dch n) := by
  unfold Scr.dch
  apply ca_setRow h
  intro c hc
  rcases mem_dch hc with hc | hc
  · exact ca_row h _ c hc
  · rw [hc]; exact cellOK_blank hsp h.2

theorem ca_setMargins {s : Scr} (h : CA cw s) (a b : Int) : CA cw (s.setMargins a b) := by
  unfold Scr.setMargins
  split
  · exact h
  · simp only
    split
    · exact h
    · exact ca_of_eq rfl rfl h

include hsp in
theorem ca_putPre {s : Scr} (h : CA cw s) (w : Nat) : CA cw (TM.C02.Lemmas.putPre s w) := by
  unfold TM.C02.Lemmas.putPre
  split
  · split
    · exact ca_lineDown hsp (ca_of_eq (s := s) rfl rfl h)
    · exact ca_of_eq rfl rfl h
  · exact h

include hsp in
theorem ca_putFinish {s : Scr} (h : CA cw s) (x : Nat) : CA cw (TM.C02.Lemmas.putFinish s x) := by
  unfold TM.C02.Lemmas.putFinish
  split
  · exact ca_of_eq rfl rfl h
  · split
    · exact ca_lineDown hsp (ca_of_eq (s := s) rfl rfl h)
    · exact ca_of_eq rfl rfl h

include hsp in
/-- a printable character keeps the cell-wise invariant (both policies, with or without
    autowrap, too-wide characters replaced by U+FFFD) -/
theorem ca_put (hrep : cw 0xFFFD ≤ 1) (pol : WidePolicy) {s : Scr} (h : CA cw s) (text0 : Bytes)
    (w0 : Nat) (ht : TxtOK cw text0 (max w0 1)) : CA cw (Scr.put pol s text0 w0) := by
  rw [TM.C02.Lemmas.put_eq]
  simp only
  have htxt : TxtOK cw (if max w0 1 > s.w then replacementChar else text0)
      (if max w0 1 > s.w then 1 else max w0 1) := by
    split
    · exact txtOK_replacement hrep
    · exact ht
  generalize (if max w0 1 > s.w then 1 else max w0 1) = w at htxt
  generalize (if max w0 1 > s.w then replacementChar else text0) = text at htxt
  have h1 := ca_putPre hsp h w
  generalize TM.C02.Lemmas.putPre s w = s1 at h1
  apply ca_putFinish hsp
  apply ca_setRow h1
  intro c hc
  have hres : c ∈ s1.row s1.cy ∨ c = blank s1.sty ∨ c ∈ charCells text w s1.sty := by
    split at hc
    · exact mem_putKeep hc
    · exact mem_put hc
  rcases hres with hc | hc | hc
  · exact ca_row h1 _ c hc
  · rw [hc]; exact cellOK_blank hsp h1.2
  · exact cellOK_charCells h1.2 htxt c hc

end
end Lemmas
open Lemmas

/-! ### terminals: every token keeps the cell-wise invariant -/

/-- both buffers satisfy the cell-wise invariant -/
def TA (cw : Nat → Nat) (t : Term) : Prop := CA cw t.main ∧ CA cw t.alt

namespace Lemmas
section
variable {cw : Nat → Nat} (hsp : cw 32 ≤ 1)

theorem ta_scr {t : Term} (h : TA cw t) : CA cw t.scr := by
  unfold Term.scr; split
  · exact h.2
  · exact h.1

theorem ta_setScr {t : Term} (h : TA cw t) {s' : Scr} (hs : CA cw s') : TA cw (t.setScr s') := by
  unfold Term.setScr; split
  · exact ⟨h.1, hs⟩
  · exact ⟨hs, h.2⟩

theorem ta_withScr {t : Term} (h : TA cw t) {s' : Scr} (hs : CA cw s') : TA cw (t.withScr s').1 :=
  ta_setScr h hs

theorem ta_ite {c : Prop} [Decidable c] {a b : Term × List Ev}
    (ha : c → TA cw a.1) (hb : ¬ c → TA cw b.1) : TA cw (if c then a else b).1 := by
  split
  · exact ha ‹_›
  · exact hb ‹_›

theorem ta_setKbd {t : Term} (h : TA cw t) (k : Kbd) : TA cw (t.setKbd k) := by
  unfold Term.setKbd; split <;> exact h

theorem ta_switchScreen {t : Term} (h : TA cw t) (v : Bool) : TA cw (t.switchScreen v).1 := by
  unfold Term.switchScreen; split <;> exact h

theorem ca_setCursor {s : Scr} (h : CA cw s) (x y : Int) : CA cw (s.setCursor x y) :=
  ca_of_eq rfl rfl h
theorem ca_saveCursor {s : Scr} (h : CA cw s) : CA cw s.saveCursor := ca_of_eq rfl rfl h
theorem ca_restoreCursor {s : Scr} (h : CA cw s) : CA cw s.restoreCursor := ca_of_eq rfl rfl h
theorem ca_cx {s : Scr} (h : CA cw s) (x : Nat) : CA cw { s with cx := x } := ca_of_eq rfl rfl h
theorem ca_wrap {s : Scr} (h : CA cw s) (v : Bool) : CA cw { s with wrap := v } := ca_of_eq rfl rfl h
theorem ca_sty {s : Scr} (h : CA cw s) {st : Style} (hv : Style.valid st) :
    CA cw { s with sty := st } := ⟨h.1, hv⟩

theorem ta_decMode {t : Term} (h : TA cw t) (p : Int) (v : Bool) : TA cw (t.decMode p v).1 := by
  unfold Term.decMode
  repeat' first
    | exact h
    | exact ta_switchScreen h _
    | exact ta_setScr h (ca_wrap (ta_scr h) _)
    | (apply ta_ite <;> intro _)

theorem ta_decModes (v : Bool) (ps : List Int) : ∀ {t : Term}, TA cw t → TA cw (t.decModes v ps).1 := by
  induction ps with
  | nil => intro t h; exact h
  | cons p ps ih =>
    intro t h
    simp only [Term.decModes]
    exact ih (ta_decMode h p v)

section Dispatch
attribute [local irreducible] Scr.eraseRegionI Scr.scroll Scr.setCursor Scr.dch Scr.setMargins
  Scr.saveCursor Scr.restoreCursor Scr.lineDown Scr.lineUp Scr.put Term.setScr

include hsp in
theorem ta_csiPlain {t : Term} (h : TA cw t) (ps : List Int) (fin : UInt8) :
    TA cw (t.csiPlain ps fin).1 := by
  have hs := ta_scr h
  unfold Term.csiPlain
  simp only
  repeat' first
    | (apply ta_ite <;> intro _)
    | exact h
    | exact ta_withScr h (ca_setCursor hs _ _)
    | exact ta_withScr h (ca_restoreCursor hs)
    | exact ta_setScr h (ca_sty hs (applySGR_valid hs.2 _))
    | exact ta_setScr h (ca_saveCursor hs)
    | exact ta_setScr h (ca_eraseRegionI hsp hs _ _ _ _)
    | exact ta_setScr h (ca_eraseRegionI hsp (ca_eraseRegionI hsp hs _ _ _ _) _ _ _ _)
    | exact ta_setScr h (ca_scroll hsp hs _ _ _)
    | exact ta_setScr h (ca_dch hsp hs _)
    | exact ta_setScr h (ca_setMargins hs _ _)
    | exact ta_setScr h (ca_setCursor (ca_eraseRegionI hsp hs _ _ _ _) _ _)

include hsp in
theorem ta_csi {t : Term} (h : TA cw t) (pfx : UInt8) (ps : List Int) (fin : UInt8) :
    TA cw (t.csi pfx ps fin).1 := by
  unfold Term.csi
  repeat' first
    | exact ta_csiPlain hsp h _ _
    | exact ta_decModes _ _ h
    | exact h
    | exact ta_setKbd h _
    | (apply ta_ite <;> intro _)
    | split

include hsp in
/-- **every token keeps the cell-wise invariant** (valid styles, one printable scalar value per
    character cell with its width) on both buffers -/
theorem ta_apply (hrep : cw 0xFFFD ≤ 1) {t : Term} (h : TA cw t) (tok : Tok) (htok : TokOK tok) :
    TA cw (t.apply cw tok).1 := by
  have hs := ta_scr h
  cases tok with
  | text stored cp =>
    simp only [Term.apply]
    obtain ⟨a1, a2, a3, a4⟩ := htok
    exact ta_setScr h (ca_put hsp hrep t.pol hs stored (cw cp) ⟨cp, a1, a2, a3, a4, rfl⟩)
  | ctl b =>
    simp only [Term.apply]
    repeat' first
      | (apply ta_ite <;> intro _)
      | exact h
      | exact ta_withScr h (ca_cx hs _)
      | exact ta_withScr h (ca_setCursor hs _ _)
      | exact ta_withScr h (ca_lineDown hsp (ca_cx hs _))
      | exact ta_withScr h (ca_lineDown hsp hs)
  | esc inter fin =>
    simp only [Term.apply]
    repeat' first
      | (apply ta_ite <;> intro _)
      | exact h
      | exact ta_withScr h (ca_lineDown hsp hs)
      | exact ta_withScr h (ca_lineUp hsp hs)
  | csi pfx ps clean fin =>
    simp only [Term.apply]
    split
    · exact ta_csi hsp h _ _ _
    · exact h
  | osc num payload wf =>
    simp only [Term.apply]
    repeat' first
      | (apply ta_ite <;> intro _)
      | exact h
  | dcs => exact h

end Dispatch
end
end Lemmas
open Lemmas

/-! ### continuation cells carry the style of the cell before them: a `C02.RowInv` -/

/-- `RowOK.contSty` -/
def CS (r : Row) : Prop := ∀ i st, r[i + 1]? = some ⟨.cont, st⟩ → ∃ g, r[i]? = some ⟨g, st⟩

namespace Lemmas

theorem cs_blankRange {r : Row} (h : CS r) (a n : Nat) (st : Style) (hend : contAt r (a + n) = false) :
    CS (blankRange r a n st) := by
  intro i st' hi
  have hil : i + 1 < r.length := by
    have := TM.C03.Lemmas.getElem?_lt hi; rwa [TM.C03.Lemmas.length_blankRange] at this
  rw [TM.C03.Lemmas.getElem?_blankRange hil] at hi
  split at hi
  · simp [blank] at hi
  · next hout =>
    obtain ⟨g, hg⟩ := h i st' hi
    rw [TM.C03.Lemmas.getElem?_blankRange (by omega)]
    split
    · next hin =>
      exfalso
      have : i + 1 = a + n := by omega
      rw [this] at hi
      rw [contAt_cont hi] at hend; cases hend
    · exact ⟨g, hg⟩

theorem cs_fixAt {r : Row} (hwf : rowWF r = true) (h : CS r) (c : Nat) (st : Style) :
    CS (TM.C03.Lemmas.fixAt r c st) := by
  cases hc : contAt r c with
  | false => rw [TM.C03.Lemmas.fixAt_of_not_cont hc]; exact h
  | true =>
    rw [TM.C03.Lemmas.fixAt_of_cont hc]
    obtain ⟨t, w, s, hch, _, _, _, hw⟩ := TM.C03.Lemmas.wf_head hwf (TM.C03.Lemmas.contAt_lt hc)
    obtain ⟨_, _, _, hend⟩ := TM.C03.Lemmas.wf_ch hwf hch
    rw [hw]
    exact cs_blankRange h _ _ _ hend

theorem cs_blankStraddlers {r : Row} (hwf : rowWF r = true) (h : CS r) (a b : Nat) (st : Style) :
    CS (blankStraddlers r a b st) := by
  rw [TM.C03.Lemmas.blankStraddlers_eq]
  exact cs_fixAt (TM.C03.Lemmas.fixAt_wf hwf a st) (cs_fixAt hwf h a st) b st

theorem cs_setRange {r : Row} (h : CS r) (x : Nat) (t : Bytes) (w : Nat) (st : Style) (hw : 1 ≤ w)
    (hend : contAt r (x + w) = false) : CS (setRange r x (charCells t w st)) := by
  intro i st' hi
  have hil : i + 1 < r.length := by
    have := TM.C03.Lemmas.getElem?_lt hi; rwa [TM.C03.Lemmas.length_setRange] at this
  rw [TM.C03.Lemmas.getElem?_setRange hil, length_charCells _ _ _ hw] at hi
  rw [TM.C03.Lemmas.getElem?_setRange (by omega), length_charCells _ _ _ hw]
  split at hi
  · next hin =>
    rw [getElem?_charCells _ _ _ _ (by omega)] at hi
    split at hi
    · simp at hi
    · next hne =>
      simp only [Option.some.injEq, Cell.mk.injEq, true_and] at hi
      subst hi
      rw [if_pos (by omega), getElem?_charCells _ _ _ _ (by omega)]
      split <;> exact ⟨_, rfl⟩
  · next hout =>
    obtain ⟨g, hg⟩ := h i st' hi
    split
    · next hin =>
      exfalso
      have : i + 1 = x + w := by omega
      rw [this] at hi
      rw [contAt_cont hi] at hend; cases hend
    · exact ⟨g, hg⟩

theorem cs_put {r : Row} (hwf : rowWF r = true) (h : CS r) (x : Nat) (t : Bytes) (w : Nat)
    (st : Style) (hw : 1 ≤ w) : CS (r.put x t w st) := by
  unfold Row.put
  exact cs_setRange (cs_blankStraddlers hwf h _ _ _) x t w st hw
    (TM.C03.Lemmas.contAt_blankStraddlers_right hwf _ _ _)

theorem cs_erase {r : Row} (hwf : rowWF r = true) (h : CS r) (a b : Nat) (st : Style) :
    CS (r.erase a b st) := by
  unfold Row.erase
  simp only
  split
  · exact h
  · next hab =>
    apply cs_blankRange (cs_blankStraddlers hwf h _ _ _)
    rw [show a + (min b r.length - a) = min b r.length by omega]
    exact TM.C03.Lemmas.contAt_blankStraddlers_right hwf _ _ _

theorem cs_take {r : Row} (h : CS r) (n : Nat) : CS (r.take n) := by
  intro i st hi
  rw [List.getElem?_take] at hi
  split at hi
  · obtain ⟨g, hg⟩ := h i st hi
    exact ⟨g, by rw [List.getElem?_take, if_pos (by omega)]; exact hg⟩
  · cases hi

theorem cs_drop {r : Row} (h : CS r) (n : Nat) : CS (r.drop n) := by
  intro i st hi
  rw [List.getElem?_drop] at hi ⊢
  exact h (n + i) st hi

theorem cs_append {a b : Row} (ha : CS a) (hb : CS b) (h0 : contAt b 0 = false) : CS (a ++ b) := by
  intro i st hi
  by_cases h1 : i + 1 < a.length
  · rw [List.getElem?_append_left h1] at hi
    rw [List.getElem?_append_left (by omega)]
    exact ha i st hi
  · rw [List.getElem?_append_right (by omega)] at hi
    by_cases h2 : i + 1 = a.length
    · exfalso
      rw [h2, Nat.sub_self] at hi
      rw [contAt_cont hi] at h0; cases h0
    · rw [List.getElem?_append_right (by omega)]
      rw [show i + 1 - a.length = (i - a.length) + 1 by omega] at hi
      exact hb _ st hi

theorem cs_blanks (n : Nat) (st : Style) : CS (List.replicate n (blank st)) := by
  intro i st' hi
  rw [List.getElem?_replicate] at hi
  split at hi
  · simp [blank] at hi
  · cases hi

theorem cs_charCells (t : Bytes) (w : Nat) (st : Style) : CS (charCells t w st) := by
  intro i st' hi
  unfold charCells at hi ⊢
  rw [List.getElem?_cons_succ, List.getElem?_replicate] at hi
  split at hi
  · simp only [Option.some.injEq, Cell.mk.injEq, true_and] at hi
    subst hi
    cases i with
    | zero => exact ⟨_, rfl⟩
    | succ i =>
      rw [List.getElem?_cons_succ, List.getElem?_replicate, if_pos (by omega)]
      exact ⟨_, rfl⟩
  · cases hi

theorem contAt_blanks0 (n : Nat) (st : Style) : contAt (List.replicate n (blank st)) 0 = false := by
  unfold contAt
  rw [List.getElem?_replicate]
  split <;> simp_all [blank]

theorem cs_dch {r : Row} (hwf : rowWF r = true) (h : CS r) (x n : Nat) (st : Style) :
    CS (r.dch x n st) := by
  unfold Row.dch
  simp only
  split
  · exact h
  · have h1 := cs_blankStraddlers hwf h x (x + min n (r.length - x)) st
    apply cs_append
    · apply cs_append (cs_take h1 _) (cs_drop h1 _)
      rw [TM.C03.Lemmas.contAt_drop, Nat.add_zero]
      exact TM.C03.Lemmas.contAt_blankStraddlers_right hwf _ _ _
    · exact cs_blanks _ _
    · exact contAt_blanks0 _ _

theorem cs_fixTail {r : Row} (h : CS r) (st : Style) : CS (fixTail r st) := by
  unfold fixTail
  split
  · split
    · apply cs_append
      · rw [List.dropLast_eq_take]; exact cs_take h _
      · intro i st' hi; simp at hi
      · unfold contAt; simp [blank]
    · exact h
  · exact h

theorem contAt_charCells0 (t : Bytes) (w : Nat) (st : Style) : contAt (charCells t w st) 0 = false := by
  unfold contAt charCells; simp

theorem cs_putKeep {r : Row} (hwf : rowWF r = true) (h : CS r) {x : Nat} (hc : contAt r x = true)
    (t : Bytes) {w : Nat} (hw : 1 ≤ w) (st : Style) : CS (r.putKeep x t w st) := by
  rw [TM.C03.Lemmas.putKeep_eq hwf hc t w st]
  apply cs_take
  apply cs_fixAt (TM.C03.Lemmas.splice_wf hwf hc t st hw)
  have h1 : CS (TM.C03.Lemmas.fixAt r (x + w) st) := cs_fixAt hwf h _ _
  have h2 : contAt (TM.C03.Lemmas.fixAt r (x + w) st) (x + w) = false :=
    TM.C03.Lemmas.contAt_fixAt_self hwf _ _
  unfold TM.C03.Lemmas.splice
  apply cs_append
  · exact cs_append (cs_take h _) (cs_charCells t w st) (contAt_charCells0 t w st)
  · exact cs_drop h1 _
  · rw [TM.C03.Lemmas.contAt_drop, Nat.add_zero]; exact h2

theorem cs_fitRow {r : Row} (hwf : rowWF r = true) (h : CS r) (w : Nat) (st : Style) :
    CS (fitRow r w st) := by
  unfold fitRow
  split
  · show CS ((TM.C03.Lemmas.fixAt r w st).take w)
    exact cs_take (cs_fixAt hwf h _ _) _
  · exact cs_append h (cs_blanks _ _) (contAt_blanks0 _ _)

/-- well-formed rows (characters of any width) whose continuation cells carry the style of the
    cell before them: preserved by every row operation, for every style and text -/
theorem rowInv_cs (pol : WidePolicy) :
    TM.C02.Lemmas.RowInv pol TM.C02.Lemmas.Top
      (fun r => TM.C02.Lemmas.okRow TM.C02.Lemmas.Top r ∧ CS r) where
  one := (TM.C02.Lemmas.rowInv_top pol).one
  blank := fun w st => ⟨(TM.C02.Lemmas.rowInv_top pol).blank w st, cs_blanks w st⟩
  erase := fun h a b st => ⟨(TM.C02.Lemmas.rowInv_top pol).erase h.1 a b st, cs_erase h.1.1 h.2 a b st⟩
  dch := fun h x n st => ⟨(TM.C02.Lemmas.rowInv_top pol).dch h.1 x n st, cs_dch h.1.1 h.2 x n st⟩
  put := fun h t st hw hxw hB =>
    ⟨(TM.C02.Lemmas.rowInv_top pol).put h.1 t st hw hxw hB, cs_put h.1.1 h.2 _ t _ st hw⟩
  putKeep := fun hp _ _ _ h t st hc hw hxw hB => by
    obtain ⟨a, b⟩ := (TM.C02.Lemmas.rowInv_top pol).putKeep hp h.1 t st hc hw hxw hB
    exact ⟨⟨a, cs_putKeep h.1.1 h.2 hc t hw st⟩, b⟩
  fit := fun h w st => ⟨(TM.C02.Lemmas.rowInv_top pol).fit h.1 w st, cs_fitRow h.1.1 h.2 w st⟩

end Lemmas
open Lemmas

/-! ### the inductive invariant of the inner terminal -/

/-- the invariant of the model terminal that implies `InnerOK` and is preserved by every token:
    the C02 invariant (geometry, well-formed rows) with
    `contSty` on every row of both buffers, the cell-wise invariant `TA` (valid styles — also the
    current ones —, one printable scalar value per character cell), the size within range -/
structure InnerOK' (cw : Nat → Nat) (t : Term) : Prop where
  rows : TM.C02.Lemmas.TOk (fun r => TM.C02.Lemmas.okRow TM.C02.Lemmas.Top r ∧ CS r) t
  cells : TA cw t
  wmax : t.main.w ≤ paramMax
  hmax : t.main.h ≤ paramMax

namespace Lemmas

theorem tok_mono {P Q : Row → Prop} {t : Term} (h : TM.C02.Lemmas.TOk P t) (hpq : ∀ r, P r → Q r) :
    TM.C02.Lemmas.TOk Q t :=
  ⟨⟨h.1.1, fun r hr => hpq r (h.1.2 r hr)⟩, ⟨h.2.1.1, fun r hr => hpq r (h.2.1.2 r hr)⟩, h.2.2⟩

end Lemmas
open Lemmas

theorem InnerOK'.wf {cw : Nat → Nat} {t : Term} (h : InnerOK' cw t) : t.wf :=
  (TM.C02.Lemmas.wf_iff t).2 (tok_mono h.rows (fun _ hr => hr.1))

/-- `InnerOK'` implies `InnerOK` -/
theorem InnerOK'.toInnerOK {cw : Nat → Nat} {t : Term} (h : InnerOK' cw t) : InnerOK cw t := by
  obtain ⟨hs, hw, hh⟩ := TM.C02.Lemmas.scr_ok h.rows
  have hinv := TM.C02.wf_inv h.wf
  refine ⟨hinv.1, hinv.2, h.rows.2.2, ?_, by rw [hw]; exact h.wmax, by rw [hh]; exact h.hmax⟩
  intro y hy
  have hm := TM.C02.Lemmas.row_mem hs hy
  have hr := hs.2 _ hm
  have hc := (ta_scr h.cells).1 _ hm
  exact ⟨hr.1.1, hr.2, fun c hcm => (hc c hcm).1, fun c hcm t' w' hg => (hc c hcm).2 t' w' hg⟩

/-- **`InnerOK'` is preserved by every token the tokeniser can produce**, for every width function
    that gives the space and U+FFFD at most one cell (nothing else is assumed about widths:
    characters of 3 or more cells are allowed under both policies). Tokens are
    rune-mode tokens (`Scr.merge`, the grapheme-mode writer, is not reachable from `Term.apply`). -/
theorem innerOK_apply (cw : Nat → Nat) (t : Term) (tok : Tok) (h : InnerOK' cw t)
    (htok : TokOK tok) (hsp : cw 32 ≤ 1) (hrep : cw 0xFFFD ≤ 1) :
    InnerOK' cw (Term.apply cw t tok).1 ∧ (Term.apply cw t tok).1.pol = t.pol := by
  obtain ⟨g1, g2, g3, g4, _⟩ := TM.C02.Lemmas.good_apply (rowInv_cs t.pol) cw
    (fun _ => trivial) h.rows tok
  refine ⟨⟨g1, ta_apply hsp hrep h.cells tok htok, by rw [g2]; exact h.wmax,
    by rw [g3]; exact h.hmax⟩, g4⟩

/-- a fresh terminal satisfies `InnerOK'` -/
theorem innerOK_init (cw : Nat → Nat) (pol : WidePolicy) (w h : Nat) (hw : 1 ≤ w) (hh : 1 ≤ h)
    (hW : w ≤ paramMax) (hH : h ≤ paramMax) (hsp : cw 32 ≤ 1) : InnerOK' cw (Term.init pol w h) := by
  have hca : CA cw (Scr.init w h) := by
    refine ⟨?_, valid_default⟩
    intro r hr c hc
    simp only [Scr.init, List.mem_replicate] at hr
    rw [hr.2] at hc
    simp only [blankRow, List.mem_replicate] at hc
    rw [hc.2]; exact cellOK_blank hsp valid_default
  exact ⟨⟨TM.C02.Lemmas.sok_init (rowInv_cs pol) w h hw hh,
    TM.C02.Lemmas.sok_init (rowInv_cs pol) w h hw hh, rfl, rfl⟩, ⟨hca, hca⟩, hW, hH⟩

/-- along any list of `TokOK` tokens -/
theorem innerAlong_of (cw : Nat → Nat) (hsp : cw 32 ≤ 1) (hrep : cw 0xFFFD ≤ 1) :
    ∀ (toks : List Tok) (t : Term), InnerOK' cw t → (∀ tok ∈ toks, TokOK tok) →
    InnerAlong cw t toks := by
  intro toks
  induction toks with
  | nil => intro t h _; exact h.toInnerOK
  | cons tok toks ih =>
    intro t h htoks
    obtain ⟨h', _⟩ := innerOK_apply cw t tok h (htoks tok (by simp)) hsp hrep
    exact ⟨h.toInnerOK, ih _ h' (fun tk htk => htoks tk (by simp [htk]))⟩

/-! ### the tokeniser produces `TokOK` tokens (UTF-8: decode then encode gives the bytes back) -/

namespace Lemmas

theorem ofNat_of_toNat (b : UInt8) (n : Nat) (h : n = b.toNat) : UInt8.ofNat n = b := by
  subst h; exact UInt8.ofNat_toNat

theorem enc1 (b0 : UInt8) (h : b0.toNat < 0x80) : encodeRune b0.toNat = [b0] := by
  unfold encodeRune
  simp only
  rw [if_pos h, ofNat_of_toNat b0 _ rfl]

theorem enc2 (b0 b1 : UInt8) (h0 : 0xC2 ≤ b0.toNat ∧ b0.toNat < 0xE0)
    (h1 : 0x80 ≤ b1.toNat ∧ b1.toNat ≤ 0xBF) :
    encodeRune ((b0.toNat % 32) * 64 + b1.toNat % 64) = [b0, b1] ∧
      0x80 ≤ (b0.toNat % 32) * 64 + b1.toNat % 64 ∧ (b0.toNat % 32) * 64 + b1.toNat % 64 < 0x800 := by
  generalize hcp : (b0.toNat % 32) * 64 + b1.toNat % 64 = cp
  have r1 : 0x80 ≤ cp := by omega
  have r2 : cp < 0x800 := by omega
  refine ⟨?_, r1, r2⟩
  unfold encodeRune
  simp only
  rw [if_neg (by omega), if_pos r2, ofNat_of_toNat b0 _ (by omega), ofNat_of_toNat b1 _ (by omega)]

theorem enc3 (b0 b1 b2 : UInt8) (h0 : 0xE0 ≤ b0.toNat ∧ b0.toNat < 0xF0)
    (h1 : 0x80 ≤ b1.toNat ∧ b1.toNat ≤ 0xBF) (hE0 : b0.toNat = 0xE0 → 0xA0 ≤ b1.toNat)
    (hED : b0.toNat = 0xED → b1.toNat ≤ 0x9F) (h2 : 0x80 ≤ b2.toNat ∧ b2.toNat ≤ 0xBF) :
    encodeRune ((b0.toNat % 16) * 4096 + (b1.toNat % 64) * 64 + b2.toNat % 64) = [b0, b1, b2] ∧
      0x800 ≤ (b0.toNat % 16) * 4096 + (b1.toNat % 64) * 64 + b2.toNat % 64 ∧
      (b0.toNat % 16) * 4096 + (b1.toNat % 64) * 64 + b2.toNat % 64 < 0x10000 ∧
      ¬ (0xD800 ≤ (b0.toNat % 16) * 4096 + (b1.toNat % 64) * 64 + b2.toNat % 64 ∧
        (b0.toNat % 16) * 4096 + (b1.toNat % 64) * 64 + b2.toNat % 64 < 0xE000) := by
  generalize hcp : (b0.toNat % 16) * 4096 + (b1.toNat % 64) * 64 + b2.toNat % 64 = cp
  have r1 : 0x800 ≤ cp := by omega
  have r2 : cp < 0x10000 := by omega
  have r3 : ¬ (0xD800 ≤ cp ∧ cp < 0xE000) := by omega
  refine ⟨?_, r1, r2, r3⟩
  unfold encodeRune
  simp only
  rw [if_neg (by omega), if_neg (by omega), if_neg r3, if_pos r2, ofNat_of_toNat b0 _ (by omega),
    ofNat_of_toNat b1 _ (by omega), ofNat_of_toNat b2 _ (by omega)]

theorem enc4 (b0 b1 b2 b3 : UInt8) (h0 : 0xF0 ≤ b0.toNat ∧ b0.toNat < 0xF5)
    (h1 : 0x80 ≤ b1.toNat ∧ b1.toNat ≤ 0xBF) (hF0 : b0.toNat = 0xF0 → 0x90 ≤ b1.toNat)
    (hF4 : b0.toNat = 0xF4 → b1.toNat ≤ 0x8F) (h2 : 0x80 ≤ b2.toNat ∧ b2.toNat ≤ 0xBF)
    (h3 : 0x80 ≤ b3.toNat ∧ b3.toNat ≤ 0xBF) :
    encodeRune ((b0.toNat % 8) * 262144 + (b1.toNat % 64) * 4096 + (b2.toNat % 64) * 64 +
      b3.toNat % 64) = [b0, b1, b2, b3] ∧
      0x10000 ≤ (b0.toNat % 8) * 262144 + (b1.toNat % 64) * 4096 + (b2.toNat % 64) * 64 +
        b3.toNat % 64 ∧
      (b0.toNat % 8) * 262144 + (b1.toNat % 64) * 4096 + (b2.toNat % 64) * 64 + b3.toNat % 64 <
        0x110000 := by
  generalize hcp : (b0.toNat % 8) * 262144 + (b1.toNat % 64) * 4096 + (b2.toNat % 64) * 64 +
    b3.toNat % 64 = cp
  have r1 : 0x10000 ≤ cp := by omega
  have r2 : cp < 0x110000 := by omega
  refine ⟨?_, r1, r2⟩
  unfold encodeRune
  simp only
  rw [if_neg (by omega), if_neg (by omega), if_neg (by omega), if_neg (by omega), if_pos r2,
    ofNat_of_toNat b0 _ (by omega), ofNat_of_toNat b1 _ (by omega),
    ofNat_of_toNat b2 _ (by omega), ofNat_of_toNat b3 _ (by omega)]

/-- what `next` stores for a character is the encoding of the code point it reports -/
def StoredOK (bs : Bytes) : Prop :=
  validScalar (decodeRune bs).1 ∧ 32 ≤ (decodeRune bs).1 ∧ (decodeRune bs).1 ≠ 127 ∧
    (if (decodeRune bs).1 = 0xFFFD ∧ (decodeRune bs).2 = 1 then replacementChar
      else bs.take (decodeRune bs).2) = encodeRune (decodeRune bs).1

theorem storedOK_bad {bs : Bytes} (h : decodeRune bs = (0xFFFD, 1)) : StoredOK bs := by
  unfold StoredOK
  rw [h]
  refine ⟨by decide, by decide, by decide, ?_⟩
  rw [if_pos ⟨rfl, rfl⟩]; decide

theorem secondOk_elim {l b : UInt8} (h : secondOk l b = true) :
    (0x80 ≤ b.toNat ∧ b.toNat ≤ 0xBF) ∧ (l.toNat = 0xE0 → 0xA0 ≤ b.toNat) ∧
    (l.toNat = 0xED → b.toNat ≤ 0x9F) ∧ (l.toNat = 0xF0 → 0x90 ≤ b.toNat) ∧
    (l.toNat = 0xF4 → b.toNat ≤ 0x8F) := by
  rw [secondOk_iff] at h
  repeat' split at h
  all_goals omega

theorem storedOK (b0 : UInt8) (rest : Bytes) (hp : isPrintableByte b0 = true) :
    StoredOK (b0 :: rest) := by
  have hpr : 32 ≤ b0.toNat ∧ b0.toNat ≠ 127 := by
    simp only [isPrintableByte, Bool.and_eq_true, decide_eq_true_eq, bne_iff_ne, ne_eq,
      ge_iff_le, UInt8.le_iff_toNat_le, ← UInt8.toNat_inj] at hp
    exact hp
  have hl := leadLen_eq b0
  by_cases c1 : b0.toNat < 0x80
  · -- one byte
    have hd : decodeRune (b0 :: rest) = (b0.toNat, 1) := decodeRune_1 b0 rest c1
    unfold StoredOK
    rw [hd]
    refine ⟨Or.inl (by omega), hpr.1, hpr.2, ?_⟩
    simp only
    rw [if_neg (by omega), enc1 b0 c1]; rfl
  · rw [if_neg c1] at hl
    by_cases c2 : b0.toNat < 0xC2
    · rw [if_pos c2] at hl
      exact storedOK_bad (by simp [decodeRune, hl])
    · rw [if_neg c2] at hl
      by_cases c3 : b0.toNat < 0xE0
      · -- two bytes
        rw [if_pos c3] at hl
        cases rest with
        | nil => exact storedOK_bad (by simp [decodeRune, hl])
        | cons b1 r1 =>
          cases hs : secondOk b0 b1 with
          | false => exact storedOK_bad (by simp [decodeRune, hl, hs])
          | true =>
            obtain ⟨s1, _⟩ := secondOk_elim hs
            obtain ⟨e, q1, q2⟩ := enc2 b0 b1 ⟨by omega, c3⟩ s1
            have hd : decodeRune (b0 :: b1 :: r1) = ((b0.toNat % 32) * 64 + b1.toNat % 64, 2) := by
              simp [decodeRune, hl, hs]
            unfold StoredOK
            rw [hd]
            refine ⟨Or.inl (by omega), by omega, by omega, ?_⟩
            simp only
            rw [if_neg (by omega), e]; rfl
      · rw [if_neg c3] at hl
        by_cases c4 : b0.toNat < 0xF0
        · -- three bytes
          rw [if_pos c4] at hl
          match rest with
          | [] => exact storedOK_bad (by simp [decodeRune, hl])
          | [b1] => exact storedOK_bad (by simp [decodeRune, hl])
          | b1 :: b2 :: r2 =>
            cases hs : (secondOk b0 b1 && isCont b2) with
            | false => exact storedOK_bad (by simp [decodeRune, hl, hs])
            | true =>
              rw [Bool.and_eq_true] at hs
              obtain ⟨s1, s2, s3, _, _⟩ := secondOk_elim hs.1
              have s4 := (isCont_iff b2).1 hs.2
              obtain ⟨e, q1, q2, q3⟩ := enc3 b0 b1 b2 ⟨by omega, c4⟩ s1 s2 s3 s4
              have hd : decodeRune (b0 :: b1 :: b2 :: r2) =
                  ((b0.toNat % 16) * 4096 + (b1.toNat % 64) * 64 + b2.toNat % 64, 3) := by
                simp [decodeRune, hl, hs.1, hs.2]
              unfold StoredOK
              rw [hd]
              refine ⟨by unfold validScalar; omega, by omega, by omega, ?_⟩
              simp only
              rw [if_neg (by omega), e]; rfl
        · rw [if_neg c4] at hl
          by_cases c5 : b0.toNat < 0xF5
          · -- four bytes
            rw [if_pos c5] at hl
            match rest with
            | [] => exact storedOK_bad (by simp [decodeRune, hl])
            | [b1] => exact storedOK_bad (by simp [decodeRune, hl])
            | [b1, b2] => exact storedOK_bad (by simp [decodeRune, hl])
            | b1 :: b2 :: b3 :: r3 =>
              cases hs : (secondOk b0 b1 && isCont b2 && isCont b3) with
              | false => exact storedOK_bad (by simp [decodeRune, hl, hs])
              | true =>
                rw [Bool.and_eq_true, Bool.and_eq_true] at hs
                obtain ⟨s1, _, _, s2, s3⟩ := secondOk_elim hs.1.1
                have s4 := (isCont_iff b2).1 hs.1.2
                have s5 := (isCont_iff b3).1 hs.2
                obtain ⟨e, q1, q2⟩ := enc4 b0 b1 b2 b3 ⟨by omega, c5⟩ s1 s2 s3 s4 s5
                have hd : decodeRune (b0 :: b1 :: b2 :: b3 :: r3) =
                    ((b0.toNat % 8) * 262144 + (b1.toNat % 64) * 4096 + (b2.toNat % 64) * 64 +
                      b3.toNat % 64, 4) := by
                  simp [decodeRune, hl, hs.1.1, hs.1.2, hs.2]
                unfold StoredOK
                rw [hd]
                refine ⟨by unfold validScalar; omega, by omega, by omega, ?_⟩
                simp only
                rw [if_neg (by omega), e]; rfl
          · rw [if_neg c5] at hl
            exact storedOK_bad (by simp [decodeRune, hl])

theorem parseCSI_body_tokOK (body : Bytes) (pre : UInt8) (n1 : Nat) (t : Tok) (n : Nat)
    (h : (match csiParams body {} n1 with
      | none => Step.need
      | some (p, body2, n2) =>
        match csiSkipParams body2 true n2 with
        | none => .need
        | some (clean, body3, n3) =>
          match csiInter body3 clean n3 with
          | none => .need
          | some (clean', fin, n4) => .tok (.csi pre p.finish clean' fin) n4) = .tok t n) :
    TokOK t := by
  split at h
  · cases h
  · split at h
    · cases h
    · split at h
      · cases h
      · simp only [Step.tok.injEq] at h
        obtain ⟨rfl, _⟩ := h
        trivial

theorem parseCSI_tokOK (bs : Bytes) (n0 : Nat) (t : Tok) (n : Nat)
    (h : parseCSI bs n0 = .tok t n) : TokOK t := by
  cases bs with
  | nil => simp [parseCSI] at h
  | cons b rest =>
    simp only [parseCSI] at h
    by_cases hp : (b = 0x3f || b = 0x3e || b = 0x3c || b = 0x3d) = true
    · simp only [hp, if_true] at h
      exact parseCSI_body_tokOK _ _ _ _ _ h
    · simp only [hp] at h
      exact parseCSI_body_tokOK _ _ _ _ _ h

theorem parseOSC_tokOK (bs : Bytes) (n0 : Nat) (t : Tok) (n : Nat)
    (h : parseOSC bs n0 = .tok t n) : TokOK t := by
  unfold parseOSC at h
  repeat' split at h
  all_goals first
    | (simp only [Step.tok.injEq] at h; obtain ⟨rfl, _⟩ := h; trivial)
    | cases h

theorem parseDCS_tokOK (bs : Bytes) (n0 : Nat) (t : Tok) (n : Nat)
    (h : parseDCS bs n0 = .tok t n) : TokOK t := by
  unfold parseDCS at h
  split at h
  · cases h
  · simp only [Step.tok.injEq] at h
    obtain ⟨rfl, _⟩ := h
    trivial

theorem parseEsc_tokOK (bs : Bytes) (tok : Tok) (n : Nat) (h : parseEsc bs = .tok tok n) :
    TokOK tok := by
  cases bs with
  | nil => simp [parseEsc] at h
  | cons b rest =>
    simp only [parseEsc] at h
    split at h
    · exact parseCSI_tokOK _ _ _ _ h
    · split at h
      · exact parseOSC_tokOK _ _ _ _ h
      · split at h
        · exact parseDCS_tokOK _ _ _ _ h
        · split at h
          · cases h
          · simp only [Step.tok.injEq] at h
            obtain ⟨rfl, _⟩ := h
            trivial

end Lemmas
open Lemmas

/-- **every token the tokeniser yields satisfies `TokOK`**: a text token carries the UTF-8
    encoding of the (valid, printable) code point it reports — for a valid character the bytes
    read (decode then encode is the identity on well-formed UTF-8: no overlong forms, no
    surrogates, nothing above U+10FFFF), for an invalid byte U+FFFD with its encoding -/
theorem next_tokOK (bs : Bytes) (tok : Tok) (n : Nat) (h : next bs = .tok tok n) : TokOK tok := by
  unfold next at h
  split at h
  · cases h
  · next b rest =>
    split at h
    · next hp =>
      split at h
      · have hs := storedOK b rest hp
        unfold StoredOK at hs
        simp only at h
        cases h
        exact hs
      · cases h
    · split at h
      · exact parseEsc_tokOK _ _ _ h
      · cases h; trivial

namespace Lemmas

theorem toksFuel_tokOK : ∀ (fuel : Nat) (bs : Bytes), ∀ tok ∈ TM.C10.toksFuel fuel bs, TokOK tok := by
  intro fuel
  induction fuel with
  | zero => intro bs tok h; simp [TM.C10.toksFuel] at h
  | succ fuel ih =>
    intro bs tok h
    unfold TM.C10.toksFuel at h
    cases hn : next bs with
    | need => rw [hn] at h; simp at h
    | tok tk n =>
      rw [hn] at h
      simp only [List.mem_cons] at h
      rcases h with rfl | h
      · exact next_tokOK bs _ n hn
      · exact ih _ tok h

end Lemmas
open Lemmas

/-- **The unconditional capstone.** For every byte string `bs`, every size
    `1 ≤ w, h ≤ paramMax`, either policy of the inner and of the outer terminal, every region `R`
    that is not empty after clamping, every width function that gives the space and U+FFFD at most
    one cell (no other assumption on widths: characters of 3 or more cells are allowed, also when
    the inner terminal is a span buffer):
    the inner terminal `t0 = Term.init pol w h` reads `bs`; a mirror is attached to `R` on a FRESH
    outer terminal of the same size and is told, after every token, every damage region the model
    terminal announces for it; the outer terminal reads everything the mirror writes. Then the
    outer terminal shows the inner terminal's final active screen `(run cw t0 bs).1.scr` inside
    `R` (and fits it, and has no character straddling an edge of `R`). No hypothesis about
    intermediate states remains: `InnerAlong` is discharged by `innerOK_init`, `innerOK_apply`
    and `next_tokOK`. -/
theorem mirror_follows_stream (cw : Nat → Nat) (pol polO : WidePolicy) (w h : Nat) (R : MRegion)
    (m : Mirror) (bs : Bytes) (hw : 1 ≤ w) (hh : 1 ≤ h) (hW : w ≤ paramMax) (hH : h ≤ paramMax)
    (hne : (R.clamp w h).isEmpty = false) (hsp : cw 32 ≤ 1) (hrep : cw 0xFFFD ≤ 1)
    (hcx : m.cx < w) (hcy : m.cy < h) :
    let t0 := Term.init pol w h
    let m' := (m.step t0.scr (.attach R)).1
    let o0 := (run cw (Term.init polO w h) (m.step t0.scr (.attach R)).2).1
    let o' := mirrorFollow cw m' t0 o0 (TM.C10.toksOf bs)
    SyncedRegion o' (run cw t0 bs).1.scr R ∧ OuterGrid o' (run cw t0 bs).1.scr ∧
      NoStraddle o' (run cw t0 bs).1.scr R := by
  intro t0 m' o0 o'
  have hrun : (run cw t0 bs).1 = TM.C10.stateAfter cw t0 (TM.C10.toksOf bs) := by
    unfold run TM.C10.toksOf; exact TM.C10.runFuel_state cw _ t0 bs []
  rw [hrun]
  have hal : InnerAlong cw t0 (TM.C10.toksOf bs) :=
    innerAlong_of cw hsp hrep _ t0 (innerOK_init cw pol w h hw hh hW hH hsp)
      (toksFuel_tokOK _ bs)
  exact attach_then_follow cw polO m t0 R (TM.C10.toksOf bs) hne hal hsp hcx hcy

/-! ## non-vacuity -/

namespace Examples
open TM.C11.Examples

def A : Cell := ⟨.ch [0x41] 1, Style.default⟩
def B : Cell := ⟨.ch [0x42] 1, fancy⟩
def Wd : Cell := ⟨.ch [0xE4, 0xB8, 0x96] 2, boldRedOn200⟩
def Wc : Cell := ⟨.cont, boldRedOn200⟩
def C : Cell := ⟨.ch [0x43] 1, Style.default⟩
def D : Cell := ⟨.ch [0x44] 1, Style.default⟩

/-- `A B 世 世 C D`: a wide character at columns 2–3 -/
def row6 : Row := [A, B, Wd, Wc, C, D]

/-- the window `[3,6)` cuts the wide character: its second cell shows as a blank in ITS style -/
example : subCells row6 3 6 = [blank boldRedOn200, C, D] := by decide
/-- the window `[1,3)` cuts it on the right -/
example : subCells row6 1 3 = [B, blank boldRedOn200] := by decide
/-- the window `[2,4)` holds it entirely -/
example : subCells row6 2 4 = [Wd, Wc] := by decide
example : subCells row6 0 6 = row6 := by decide
example : subCells row6 3 3 = [] := by decide
example : cupXY 3 1 = [0x1b, 0x5b, 0x32, 0x3b, 0x34, 0x48] := by decide


theorem rowOK6 : RowOK cw row6 where
  wf := by decide
  contSty := by
    intro i st h
    rcases i with _ | _ | _ | _ | _ | i
    · simp [row6, A, B] at h
    · simp [row6, B, Wd] at h
    · simp only [row6] at h ⊢
      simp [Wc] at h
      exact ⟨_, by rw [← h]; rfl⟩
    · simp [row6, C] at h
    · simp [row6, D] at h
    · simp [row6] at h
  valid := by decide
  text := by
    intro c hc t w hg
    simp only [row6, List.mem_cons, List.not_mem_nil, or_false] at hc
    rcases hc with rfl | rfl | rfl | rfl | rfl | rfl
    · cases hg; exact ⟨0x41, by decide, by decide, by decide, by decide, by decide⟩
    · cases hg; exact ⟨0x42, by decide, by decide, by decide, by decide, by decide⟩
    · cases hg; exact ⟨0x4E16, by decide, by decide, by decide, by decide, by decide⟩
    · cases hg
    · cases hg; exact ⟨0x43, by decide, by decide, by decide, by decide, by decide⟩
    · cases hg; exact ⟨0x44, by decide, by decide, by decide, by decide, by decide⟩

/-- the hypotheses of `mirror_row_fresh` hold for this row on a 6 × 3 outer terminal, row 1,
    window `[3,6)` (cut wide character, window ending in the last column), both policies -/
example (pol : WidePolicy) :
    (run cw (Term.init pol 6 3) (cupXY 3 1 ++ renderCells none (subCells row6 3 6))).1.main.row 1 =
      blankRow 3 Style.default ++ [blank boldRedOn200, C, D] ++ blankRow 0 Style.default :=
  mirror_row_fresh cw pol 6 3 3 6 1 row6 (by decide) (by decide) (by decide) (by decide) (by decide)
    rfl rowOK6 (by decide)

/-- window `[1,4)` in the middle of the row -/
example (pol : WidePolicy) :
    (run cw (Term.init pol 6 3) (cupXY 1 2 ++ renderCells none (subCells row6 1 4))).1.main.row 2 =
      [blank Style.default, B, Wd, Wc, blank Style.default, blank Style.default] :=
  mirror_row_fresh cw pol 6 3 1 4 2 row6 (by decide) (by decide) (by decide) (by decide) (by decide)
    rfl rowOK6 (by decide)

/-- a 6 × 2 inner screen: `row6` and a blank row -/
def scr6 : Scr := { Scr.init 6 2 with grid := [row6, blankRow 6 Style.default] }

theorem scr6_rows : ∀ y, y < scr6.h → (scr6.row y).length = scr6.w ∧ RowOK cw (scr6.row y) := by
  intro y hy
  have : y = 0 ∨ y = 1 := by have : scr6.h = 2 := rfl; omega
  rcases this with rfl | rfl
  · exact ⟨rfl, rowOK6⟩
  · exact ⟨rfl, rowOK_blankRow cw 6 Style.default (by decide) (by decide)⟩

/-- the painting of the region `[3,9) × [0,5)` (clamped to `[3,6) × [0,2)`): what is written -/
example : renderRegion scr6 ⟨3, 0, 9, 5⟩ =
    [0x1b, 0x5b, 0x73] ++ [0x1b, 0x5b, 0x3f, 0x37, 0x6c] ++
    ([0x1b, 0x5b, 0x31, 0x3b, 0x34, 0x48] ++ boldRedOn200.ansiEscape ++ [0x20] ++
      Style.default.ansiEscape ++ [0x43, 0x44]) ++
    ([0x1b, 0x5b, 0x32, 0x3b, 0x34, 0x48] ++ Style.default.ansiEscape ++ [0x20, 0x20, 0x20]) ++
    [0x1b, 0x5b, 0x30, 0x6d] ++ [0x1b, 0x5b, 0x3f, 0x37, 0x68] ++ [0x1b, 0x5b, 0x75] := by decide

/-- … and the hypotheses of `mirror_region_fresh` hold for it -/
example (pol : WidePolicy) :
    (run cw (Term.init pol 6 2) (renderRegion scr6 ⟨3, 0, 9, 5⟩)).1.main.row 0 =
      blankRow 3 Style.default ++ [blank boldRedOn200, C, D] ++ blankRow 0 Style.default :=
  (mirror_region_fresh cw pol scr6 ⟨3, 0, 9, 5⟩ (by decide) scr6_rows (by decide) (by decide)
    (by decide)).1 0 (by decide) (by decide)

/-- the mirror: attach paints and places the cursor; a cursor outside the region is hidden;
    detached, nothing is written -/
example :
    (({} : Mirror).step scr6 (.attach ⟨3, 0, 6, 2⟩)).2 =
      renderRegion scr6 ⟨3, 0, 6, 2⟩ ++ ansiCursorHide ∧
    (({ attached := true, region := ⟨3, 0, 6, 2⟩ } : Mirror).step scr6 (.cursorMoved 4 1)).2 =
      [0x1b, 0x5b, 0x32, 0x3b, 0x35, 0x48] ++ ansiCursorShow ∧
    (({ attached := true, region := ⟨3, 0, 6, 2⟩ } : Mirror).step scr6 (.regionChanged ⟨0, 0, 3, 2⟩)).2 = [] ∧
    (({} : Mirror).step scr6 (.cursorMoved 4 1)).2 = [] := by decide

/-- the hypotheses of `attach_fresh` hold: cursor announced at `(4,1)`, inside the region -/
example (pol : WidePolicy) :
    (run cw (Term.init pol scr6.w scr6.h)
      (({ cx := 4, cy := 1 } : Mirror).step scr6 (.attach ⟨3, 0, 9, 5⟩)).2).1.main.cx = 4 := by
  have := (attach_fresh cw pol { cx := 4, cy := 1 } scr6 ⟨3, 0, 9, 5⟩ (by decide) scr6_rows
    (by decide) (by decide) (by decide) (by decide) (by decide)).2.1 (by decide)
  rw [this]

/-! ### Part 6 -/

/-- a NON-fresh outer terminal (grid policy): one row `A B 世 世 C D`, cursor and style anywhere -/
def outer6 (pol : WidePolicy) : Term :=
  { Term.init pol 6 1 with main := { Scr.init 6 1 with grid := [row6], cx := 5, sty := fancy } }

theorem outer6_ok (pol : WidePolicy) : OuterOK (outer6 pol) 6 0 :=
  ⟨rfl, rfl, rfl, Nat.zero_lt_one, Nat.zero_lt_one⟩

/-- the inner row now reads `D C 世 世 B A` -/
def row6' : Row := [D, C, Wd, Wc, B, A]

theorem rowOK6' : RowOK cw row6' where
  wf := by decide
  contSty := by
    intro i st h
    rcases i with _ | _ | _ | _ | _ | i
    · simp [row6', D, C] at h
    · simp [row6', C, Wd] at h
    · simp only [row6'] at h ⊢
      simp [Wc] at h
      exact ⟨_, by rw [← h]; rfl⟩
    · simp [row6', B] at h
    · simp [row6', A] at h
    · simp [row6'] at h
  valid := by decide
  text := by
    intro c hc t w hg
    simp only [row6', List.mem_cons, List.not_mem_nil, or_false] at hc
    rcases hc with rfl | rfl | rfl | rfl | rfl | rfl
    · cases hg; exact ⟨0x44, by decide, by decide, by decide, by decide, by decide⟩
    · cases hg; exact ⟨0x43, by decide, by decide, by decide, by decide, by decide⟩
    · cases hg; exact ⟨0x4E16, by decide, by decide, by decide, by decide, by decide⟩
    · cases hg
    · cases hg; exact ⟨0x42, by decide, by decide, by decide, by decide, by decide⟩
    · cases hg; exact ⟨0x41, by decide, by decide, by decide, by decide, by decide⟩

/-- grid policy, window `[3,5)`: column 3 is the continuation cell of the OUTER `世`, and the
    window also cuts the INNER `世`. The outer `世` is blanked whole — its first cell, LEFT of the
    window, becomes a blank in the style of the first written cell (`boldRedOn200`, the style of
    the cut inner character) — and the window shows `blank, B`. -/
example : repaintedRow (TM.C03.Lemmas.fixAt row6 3 (styAt (subCells row6' 3 5) 0)) 3 5 (subCells row6' 3 5) =
    [A, B, blank boldRedOn200, blank boldRedOn200, B, D] := by decide

/-- … and the hypotheses of `repaint_row_state` hold for it -/
example :
    (run cw (outer6 .blank) (cupXY 3 0 ++ renderCells none (subCells row6' 3 5))).1 =
      stO (outer6 .blank) ((outer6 .blank).main.grid.set 0
        (repaintedRow (TM.C03.Lemmas.fixAt row6 3 (styAt (subCells row6' 3 5) 0)) 3 5 (subCells row6' 3 5)))
        (min 5 (6 - 1)) 0 (segSty fancy (subCells row6' 3 5)) :=
  (repaint_row_state cw (outer6 .blank) 6 3 5 0 row6' (outer6_ok _) rfl (by decide) (by decide)
    (by decide) (by decide) (by decide) rfl rowOK6' (by decide) (Or.inl rfl)).1

/-- the span policy (`.keep`) really is different when the window starts on a continuation cell
    of the outer row: the written characters are inserted AFTER the kept wide character, so
    repainting `[1,4)` of `世 世 _ _` with three blanks leaves `世` standing, while the grid policy
    blanks it. (Hence the hypothesis `contAt (o.main.row y) x = false` for `.keep`.) -/
example :
    let wide : Row := [Wd, Wc, blank Style.default, blank Style.default]
    let S : Scr := { Scr.init 4 1 with grid := [wide], cx := 1 }
    (((S.put .keep [0x20] 1).put .keep [0x20] 1).put .keep [0x20] 1).row 0 = wide ∧
    (((S.put .blank [0x20] 1).put .blank [0x20] 1).put .blank [0x20] 1).row 0 =
      blankRow 4 Style.default := by decide

/-- `repaint_syncs`: the outer row shows `row6` (window `[0,6)`); the inner row changes in
    `[4,6)` only (`C D` → `B A`), the mirror repaints `[4,6)`: the outer row then shows the new
    inner row. Both policies. -/
example (pol : WidePolicy) :
    Synced ((run cw (outer6 pol) (cupXY 4 0 ++ renderCells none (subCells row6' 4 6))).1.main.row 0)
      (row6.take 4 ++ [B, A]) 0 6 := by
  have hnew : row6.take 4 ++ [B, A] = [A, B, Wd, Wc, B, A] := rfl
  have hsub : subCells row6' 4 6 = subCells [A, B, Wd, Wc, B, A] 4 6 := by decide
  rw [hsub, hnew]
  refine repaint_syncs cw (outer6 pol) 6 0 6 4 6 0 row6 [A, B, Wd, Wc, B, A] (outer6_ok pol) rfl
    (show rowWF row6 = true by decide) ?_ (by decide) (by decide) (by decide) (by decide)
    (show contAt row6 4 = false by decide) (show contAt row6 6 = false by decide) rfl ?_ ?_
    (by decide) (by decide) (by decide) (by decide) (by decide)
  · intro i _ h2
    rw [subCells_full row6 6 rfl (by decide)]; rfl
  · refine ⟨by decide, ?_, by decide, ?_⟩
    · intro i st h
      rcases i with _ | _ | _ | _ | _ | i
      · simp [A, B] at h
      · simp [B, Wd] at h
      · simp [Wc] at h
        exact ⟨_, by rw [← h]; rfl⟩
      · simp [B] at h
      · simp [A] at h
      · simp at h
    · intro c hc t w hg
      simp only [List.mem_cons, List.not_mem_nil, or_false] at hc
      rcases hc with rfl | rfl | rfl | rfl | rfl | rfl
      · cases hg; exact ⟨0x41, by decide, by decide, by decide, by decide, by decide⟩
      · cases hg; exact ⟨0x42, by decide, by decide, by decide, by decide, by decide⟩
      · cases hg; exact ⟨0x4E16, by decide, by decide, by decide, by decide, by decide⟩
      · cases hg
      · cases hg; exact ⟨0x42, by decide, by decide, by decide, by decide, by decide⟩
      · cases hg; exact ⟨0x41, by decide, by decide, by decide, by decide, by decide⟩
  · intro i h
    rcases i with _ | _ | _ | _ | _ | _ | i
    · rfl
    · rfl
    · rfl
    · rfl
    · omega
    · omega
    · rfl

/-! ### Part 7 -/

/-- the inner screen before and after: `A B 世 世 C D` → `D C 世 世 B A` -/
def sOld6 : Scr := { Scr.init 6 1 with grid := [row6] }
def sNew6 : Scr := { Scr.init 6 1 with grid := [row6'] }
def mAtt : Mirror := { attached := true, region := ⟨0, 0, 6, 1⟩, cx := 2, cy := 0 }

theorem outer6_grid (pol : WidePolicy) : OuterGrid (outer6 pol) sNew6 :=
  ⟨rfl, rfl, rfl, rfl, fun y hy => by
    have : y = 0 := by have : sNew6.h = 1 := rfl; omega
    subst this
    exact ⟨rfl, (show rowWF row6 = true by decide)⟩⟩

/-- the hypotheses of `regionChanged_keeps_sync` hold: the whole row is announced and repainted
    over the NON-fresh outer terminal `outer6` (either policy), and the outer terminal then shows
    the new inner screen inside the region -/
example (pol : WidePolicy) :
    SyncedRegion (run cw (outer6 pol) (mAtt.step sNew6 (.regionChanged ⟨0, 0, 6, 1⟩)).2).1 sNew6
      ⟨0, 0, 6, 1⟩ := by
  refine (regionChanged_keeps_sync cw mAtt (outer6 pol) sOld6 sNew6 ⟨0, 0, 6, 1⟩ rfl rfl rfl
    (outer6_grid pol) ?_ ?_ (by decide) ?_ ?_ (by decide) (by decide) (by decide) (by decide)
    (by decide)).2.1
  · intro y h1 h2 i _ _
    have : y = 0 := by
      have e : ((⟨0, 0, 6, 1⟩ : MRegion).clamp sOld6.w sOld6.h).y2 = 1 := by decide
      have : y < 1 := by rw [← e]; exact h2
      omega
    subst this
    show row6[i]? = (subCells row6 0 6)[i - 0]?
    rw [subCells_full row6 6 rfl (by decide)]; rfl
  · intro y x h
    rcases y with _ | y
    · have hx : 6 ≤ x := by
        unfold inRect at h
        simp only [Nat.zero_le, true_and, Nat.lt_add_one, and_true, Nat.not_lt] at h
        exact h
      show row6'[x]? = row6[x]?
      rw [List.getElem?_eq_none (show row6'.length ≤ x from hx),
        List.getElem?_eq_none (show row6.length ≤ x from hx)]
    · rfl
  · intro y h1 h2
    have e : (((⟨0, 0, 6, 1⟩ : MRegion).inter mAtt.region).clamp sNew6.w sNew6.h).y2 = 1 := by decide
    have : y = 0 := by
      have : y < 1 := by rw [← e]; exact h2
      omega
    subst this
    exact ⟨rfl, rowOK6'⟩
  · intro y h1 h2
    have e : (((⟨0, 0, 6, 1⟩ : MRegion).inter mAtt.region).clamp sNew6.w sNew6.h).y2 = 1 := by decide
    have : y = 0 := by
      have : y < 1 := by rw [← e]; exact h2
      omega
    subst this
    exact ⟨(show contAt row6 0 = false by decide), (show contAt row6 6 = false by decide),
      by decide, by decide⟩

/-! ### Part 8 -/

/-- a fresh 6 × 2 inner terminal, and the same after a line feed -/
def tIn (pol : WidePolicy) : Term := Term.init pol 6 2

theorem innerOK_blank (t : Term) (hm : t.main.inv = true) (ha : t.alt.inv = true)
    (hsz : t.main.w = t.alt.w ∧ t.main.h = t.alt.h) (hW : t.scr.w ≤ paramMax)
    (hH : t.scr.h ≤ paramMax)
    (hb : ∀ y, y < t.scr.h → t.scr.row y = blankRow t.scr.w Style.default) : InnerOK cw t :=
  ⟨hm, ha, hsz, fun y hy => by
    rw [hb y hy]; exact rowOK_blankRow cw _ _ (by decide) (by decide), hW, hH⟩

theorem tIn_ok (pol : WidePolicy) : InnerOK cw (tIn pol) :=
  innerOK_blank _ (by cases pol <;> decide) (by cases pol <;> decide) ⟨rfl, rfl⟩
    (by cases pol <;> decide) (by cases pol <;> decide) (fun y hy => by
    have : y = 0 ∨ y = 1 := by have : (tIn pol).scr.h = 2 := rfl; omega
    rcases this with rfl | rfl <;> rfl)

theorem tIn_lf_ok (pol : WidePolicy) : InnerOK cw (Term.apply cw (tIn pol) (.ctl 10)).1 :=
  innerOK_blank _ (by cases pol <;> decide) (by cases pol <;> decide) ⟨rfl, rfl⟩
    (by cases pol <;> decide) (by cases pol <;> decide) (fun y hy => by
    have : y = 0 ∨ y = 1 := by
      have : (Term.apply cw (tIn pol) (.ctl 10)).1.scr.h = 2 := rfl
      omega
    rcases this with rfl | rfl <;> rfl)

/-- the hypotheses of `attach_then_follow` hold: attach to `[1,5) × [0,2)` on a fresh outer
    terminal, then a line feed and a bell -/
example (pol : WidePolicy) :
    SyncedRegion
      (mirrorFollow cw (({} : Mirror).step (tIn pol).scr (.attach ⟨1, 0, 5, 2⟩)).1 (tIn pol)
        (run cw (Term.init pol 6 2) (({} : Mirror).step (tIn pol).scr (.attach ⟨1, 0, 5, 2⟩)).2).1
        [.ctl 10, .ctl 7])
      (TM.C10.stateAfter cw (tIn pol) [.ctl 10, .ctl 7]).scr ⟨1, 0, 5, 2⟩ :=
  (attach_then_follow cw pol {} (tIn pol) ⟨1, 0, 5, 2⟩ [.ctl 10, .ctl 7] (by cases pol <;> decide)
    ⟨tIn_ok pol, tIn_lf_ok pol, tIn_lf_ok pol⟩ (by decide) (by cases pol <;> decide)
    (by cases pol <;> decide)).1

/-! ### Part 9 -/

/-- what the tokeniser yields for `世` and for an invalid byte -/
example : next [0xE4, 0xB8, 0x96, 0x41] = .tok (.text [0xE4, 0xB8, 0x96] 0x4E16) 3 ∧
    next [0xFF, 0x41] = .tok (.text replacementChar 0xFFFD) 1 := by decide

/-- the hypotheses of `mirror_follows_stream` hold: a span-buffer inner terminal reads
    `A 世 ESC[2;1H B <invalid byte> LF`, the mirror shows `[1,5) × [0,2)` on a grid-buffer outer
    terminal -/
example :
    let bs : Bytes := [0x41, 0xE4, 0xB8, 0x96, 0x1b, 0x5b, 0x32, 0x3b, 0x31, 0x48, 0x42, 0xFF, 0x0a]
    let t0 := Term.init .keep 6 2
    SyncedRegion
      (mirrorFollow cw (({} : Mirror).step t0.scr (.attach ⟨1, 0, 5, 2⟩)).1 t0
        (run cw (Term.init .blank 6 2) (({} : Mirror).step t0.scr (.attach ⟨1, 0, 5, 2⟩)).2).1
        (TM.C10.toksOf bs))
      (run cw t0 bs).1.scr ⟨1, 0, 5, 2⟩ :=
  (mirror_follows_stream cw .keep .blank 6 2 ⟨1, 0, 5, 2⟩ {} _ (by decide) (by decide) (by decide)
    (by decide) (by decide) (by decide) (by decide) (by decide) (by decide)).1

end Examples

end TM.C11M

#print axioms TM.C11M.detached_silent
#print axioms TM.C11M.detach_emits_show_cursor
#print axioms TM.C11M.other_silent
#print axioms TM.C11M.cursor_spec
#print axioms TM.C11M.region_outside_silent
#print axioms TM.C11M.subCells_length
#print axioms TM.C11M.subCells_getElem?
#print axioms TM.C11M.cutCell_inside
#print axioms TM.C11M.cutCell_cut
#print axioms TM.C11M.subCells_full
#print axioms TM.C11M.subCells_rowOK
#print axioms TM.C11M.rowOK_blankRow
#print axioms TM.C11M.mirror_row_state
#print axioms TM.C11M.mirror_row_fresh
#print axioms TM.C11M.mirror_row_fresh_others
#print axioms TM.C11M.mirror_row_fresh_cursor
#print axioms TM.C11M.mirror_region_state
#print axioms TM.C11M.mirror_region_fresh
#print axioms TM.C11M.mirror_region_empty
#print axioms TM.C11M.attach_fresh
#print axioms TM.C11M.repaint_row_state
#print axioms TM.C11M.repaint_row
#print axioms TM.C11M.repaint_row_right_clean
#print axioms TM.C11M.repaint_syncs
#print axioms TM.C11M.repaint_region_state
#print axioms TM.C11M.repaint_region
#print axioms TM.C11M.regionChanged_keeps_sync
#print axioms TM.C11M.regionChanged_empty_keeps_sync
#print axioms TM.C11M.attach_establishes_sync
#print axioms TM.C11M.mirror_invariant_run
#print axioms TM.C11M.regionChanged_keeps_sync'
#print axioms TM.C11M.regionChanged_fullwidth
#print axioms TM.C11M.feedDamage_spec
#print axioms TM.C11M.mirror_follows_token
#print axioms TM.C11M.mirror_follows_run
#print axioms TM.C11M.attach_nostraddle
#print axioms TM.C11M.attach_then_follow
#print axioms TM.C11M.cursorOp_spec
#print axioms TM.C11M.session_invariant
#print axioms TM.C11M.session_cursor
#print axioms TM.C11M.innerOK_apply
#print axioms TM.C11M.next_tokOK
#print axioms TM.C11M.innerOK_init
#print axioms TM.C11M.mirror_follows_stream
