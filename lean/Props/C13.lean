import TM.Mouse
/-!
# C13 — mouse reports: tracking-mode filter and the X10 / UTF-8 / SGR encodings

"Given the tracking mode (off, press, press/release, button-motion, any-motion) and encoding (X10,
UTF-8, SGR) the application selected, a mouse event either writes nothing, when the mode excludes
it, or exactly one report in the selected encoding. That report decodes to the same button,
modifiers, press/release/motion/wheel kind and 1-based coordinates (X10 bytes are single bytes with
out-of-range coordinates clamped), and a failed write is returned as an error rather than a panic."

Model: `TM/Mouse.lean` (`mouseFilter`, `btnByte`, `clampX10`, `mouseEncode`, `mouseReport`
transcribe `SendMouseRaw` of `terminal.go`; `decodeX10`, `decodeUTF8`, `decodeSGR` are decoders
written from the xterm protocol, independent of the encoder).

Domain of the quantified statements (`EvOK`): `btn < 4` (0,1,2 = buttons, 3 = none / release
marker), `mods` any set of the five flag bits 4 shift, 8 meta, 16 control, 32 motion, 64 wheel, i.e.
`mods % 4 = 0 ∧ mods < 128`; coordinates `x`, `y` are arbitrary natural numbers (no bound), the
tracking mode and the encoding are arbitrary integers. Where a theorem needs less than `EvOK` it
says so.

What is proved (all for ALL coordinates unless stated):
* `report_none_iff`, `filter_spec`, `mode_*`: which events each tracking mode reports;
  `nothing_or_one_report`: the result is nothing or exactly one encoded report;
  `report_is_whole`: that output is one report and nothing more (followed by any further bytes it
  is rejected by the decoder of the selected encoding);
* `x10_report`: six single bytes `ESC [ M Cb Cx Cy`, none wraps around 255, coordinates above 223
  are clamped to 223, and the report decodes to exactly that;
* `sgr_report`: `ESC [ < Cb ; x ; y M|m` decodes to the same `Cb`, press/release, `x`, `y` for all
  `x`, `y` (decimal round trip `takeDigits`/`digitsVal`/`itoa`);
* `utf8_report`: decodes to the same `Cb`, `x`, `y` whenever `32 + x` and `32 + y` are Unicode
  scalar values (below 0xD800 or in 0xE000..0x10FFFF; this covers xterm's limit 2015 and far
  beyond); `utf8_out_of_range` shows the condition is necessary (Go's `string(rune)` maps a
  surrogate or a value above 0x10FFFF to U+FFFD, read back as coordinate 65501);
* `cb_recovery`, `cb_release_recovery`, `cb_flags`, `legacyCb_recovery`: the button, the modifier set and each single
  flag (shift, meta, control, motion, wheel) are recovered from the decoded `Cb`;
* `report_roundtrip`: the combined statement over the three encodings;
* `distinct_events_distinct_reports` (SGR), `x10_press_injective`, `utf8_press_injective`:
  different events give different reports.

Not covered here: the last clause of the property ("a failed write is returned as an error rather
than a panic") is about the Go write path (`t.Write` / `fmt.Fprintf` returning `err`); it has no
counterpart in the pure model and is checked on the implementation by the harness (the mouse
special check in `harness/special.go`: `mouse-panic`, `mouse-write-error-panic`,
`mouse-write-error-lost`), not by these theorems.
-/
namespace TM.C13
open TM

/-- The events the property quantifies over: four button values, any set of the five flag bits. -/
def EvOK (e : MouseEv) : Prop := e.btn < 4 ∧ e.mods % 4 = 0 ∧ e.mods < 128

instance (e : MouseEv) : Decidable (EvOK e) :=
  inferInstanceAs (Decidable (e.btn < 4 ∧ e.mods % 4 = 0 ∧ e.mods < 128))

/-- A Unicode scalar value: exactly the code points `utf8.EncodeRune` encodes faithfully. -/
def validScalar (n : Nat) : Prop := n < 0xD800 ∨ (0xE000 ≤ n ∧ n < 0x110000)

instance (n : Nat) : Decidable (validScalar n) :=
  inferInstanceAs (Decidable (n < 0xD800 ∨ (0xE000 ≤ n ∧ n < 0x110000)))

/-- The motion flag (bit 32) of an event. -/
def isMotion (e : MouseEv) : Bool := e.mods.testBit 5

/-- The button byte of the legacy encodings (X10, UTF-8): a release is marked by setting the two
button bits to 3. -/
def legacyCb (e : MouseEv) : Nat := if e.press then btnByte e else btnByte e ||| 3

namespace Lemmas

/-! ### decimal round trip (`strconv.Itoa` against `takeDigits` / `digitsVal`) -/

theorem digit_val (d : Nat) (h : d < 10) : (UInt8.ofNat (48 + d)).toNat - 48 = d := by
  have : d = 0 ∨ d = 1 ∨ d = 2 ∨ d = 3 ∨ d = 4 ∨ d = 5 ∨ d = 6 ∨ d = 7 ∨ d = 8 ∨ d = 9 := by omega
  rcases this with h | h | h | h | h | h | h | h | h | h <;> subst h <;> decide

theorem digit_isDigit (d : Nat) (h : d < 10) : isDigit (UInt8.ofNat (48 + d)) = true := by
  have : d = 0 ∨ d = 1 ∨ d = 2 ∨ d = 3 ∨ d = 4 ∨ d = 5 ∨ d = 6 ∨ d = 7 ∨ d = 8 ∨ d = 9 := by omega
  rcases this with h | h | h | h | h | h | h | h | h | h <;> subst h <;> decide

theorem foldl_natDigitsAux (fuel n : Nat) (acc : Bytes) (h : n < fuel) :
    (natDigitsAux fuel n acc).foldl (fun a d => a * 10 + (d.toNat - 48)) 0
      = acc.foldl (fun a d => a * 10 + (d.toNat - 48)) n := by
  induction fuel generalizing n acc with
  | zero => omega
  | succ fuel ih =>
    simp only [natDigitsAux]
    have hd := digit_val (n % 10) (Nat.mod_lt _ (by decide))
    split
    · next h0 =>
      simp only [List.foldl_cons, hd]
      congr 1; omega
    · next h0 =>
      rw [ih _ _ (by omega)]
      simp only [List.foldl_cons, hd]
      congr 1; omega

theorem natDigitsAux_digits (fuel n : Nat) (acc : Bytes) (hacc : ∀ b ∈ acc, isDigit b = true) :
    ∀ b ∈ natDigitsAux fuel n acc, isDigit b = true := by
  induction fuel generalizing n acc with
  | zero => simpa [natDigitsAux] using hacc
  | succ fuel ih =>
    simp only [natDigitsAux]
    have hd := digit_isDigit (n % 10) (Nat.mod_lt _ (by decide))
    have hacc' : ∀ b ∈ UInt8.ofNat (48 + n % 10) :: acc, isDigit b = true := by
      intro b hb
      rcases List.mem_cons.mp hb with rfl | hb
      · exact hd
      · exact hacc b hb
    split
    · exact hacc'
    · exact ih _ _ hacc'

theorem natDigitsAux_ne_nil (fuel n : Nat) (acc : Bytes) (h : acc ≠ [] ∨ 0 < fuel) :
    natDigitsAux fuel n acc ≠ [] := by
  induction fuel generalizing n acc with
  | zero =>
    rcases h with h | h
    · simpa [natDigitsAux] using h
    · omega
  | succ fuel ih =>
    simp only [natDigitsAux]
    split
    · simp
    · exact ih _ _ (Or.inl (by simp))

/-- `strconv.Itoa` never produces the empty string -/
theorem itoa_ne_nil (n : Nat) : itoa n ≠ [] :=
  natDigitsAux_ne_nil (n + 1) n [] (Or.inr (by omega))

/-- `strconv.Itoa` produces ASCII digits only -/
theorem itoa_digits (n : Nat) : ∀ b ∈ itoa n, isDigit b = true :=
  natDigitsAux_digits (n + 1) n [] (by simp)

/-- reading the decimal digits back gives the number -/
theorem digitsVal_itoa (n : Nat) : digitsVal (itoa n) = n := by
  simpa [digitsVal, itoa] using foldl_natDigitsAux (n + 1) n [] (by omega)

/-- `takeDigits` splits a digit string off whatever follows, provided that does not start with a
digit -/
theorem takeDigits_append (ds rest : Bytes) (hds : ∀ b ∈ ds, isDigit b = true)
    (hrest : ∀ b r, rest = b :: r → isDigit b = false) :
    takeDigits (ds ++ rest) = (ds, rest) := by
  induction ds with
  | nil =>
    cases rest with
    | nil => simp [takeDigits]
    | cons b r => simp [takeDigits, hrest b r rfl]
  | cons d ds ih =>
    have hd : isDigit d = true := hds d (by simp)
    have := ih (fun b hb => hds b (by simp [hb]))
    simp [takeDigits, hd, this]

theorem takeDigits_itoa_append (n : Nat) (rest : Bytes)
    (hrest : ∀ b r, rest = b :: r → isDigit b = false) :
    takeDigits (itoa n ++ rest) = (itoa n, rest) :=
  takeDigits_append _ _ (itoa_digits n) hrest



/-! ### UTF-8 round trip (`utf8.EncodeRune` against `utf8.DecodeRune`) -/

theorem leadLen_eq (b : UInt8) : leadLen b =
    if b.toNat < 0x80 then 1 else if b.toNat < 0xC2 then 0 else if b.toNat < 0xE0 then 2
    else if b.toNat < 0xF0 then 3 else if b.toNat < 0xF5 then 4 else 0 := by
  simp [leadLen, UInt8.lt_iff_toNat_lt]

theorem isCont_iff (b : UInt8) : isCont b = true ↔ 0x80 ≤ b.toNat ∧ b.toNat ≤ 0xBF := by
  simp [isCont, UInt8.le_iff_toNat_le]

theorem secondOk_iff (l b : UInt8) : secondOk l b = true ↔
    (if l.toNat = 0xE0 then 0xA0 else if l.toNat = 0xF0 then 0x90 else 0x80) ≤ b.toNat ∧
    b.toNat ≤ (if l.toNat = 0xED then 0x9F else if l.toNat = 0xF4 then 0x8F else 0xBF) := by
  simp only [secondOk, secondLo, secondHi, Bool.and_eq_true, decide_eq_true_eq, ← UInt8.toNat_inj,
    UInt8.le_iff_toNat_le, UInt8.toNat_ofNat]
  repeat' split
  all_goals simp at *
  all_goals omega

/-- one-byte character (ASCII) -/
theorem decodeRune_1 (b0 : UInt8) (rest : Bytes) (h : b0.toNat < 0x80) :
    decodeRune (b0 :: rest) = (b0.toNat, 1) := by
  have hl : leadLen b0 = 1 := by rw [leadLen_eq]; simp [h]
  simp [decodeRune, hl]

/-- two-byte character -/
theorem decodeRune_2 (b0 b1 : UInt8) (rest : Bytes) (h0 : 0xC2 ≤ b0.toNat ∧ b0.toNat < 0xE0)
    (h1 : 0x80 ≤ b1.toNat ∧ b1.toNat ≤ 0xBF) :
    decodeRune (b0 :: b1 :: rest) = ((b0.toNat % 32) * 64 + b1.toNat % 64, 2) := by
  have hl : leadLen b0 = 2 := by
    rw [leadLen_eq]; repeat' split
    all_goals omega
  have hs : secondOk b0 b1 = true := by
    rw [secondOk_iff]; repeat' split
    all_goals omega
  simp [decodeRune, hl, hs]

/-- three-byte character; the second byte is restricted after `E0` (no overlong forms) and after
`ED` (no surrogates) -/
theorem decodeRune_3 (b0 b1 b2 : UInt8) (rest : Bytes) (h0 : 0xE0 ≤ b0.toNat ∧ b0.toNat < 0xF0)
    (h1 : 0x80 ≤ b1.toNat ∧ b1.toNat ≤ 0xBF) (hE0 : b0.toNat = 0xE0 → 0xA0 ≤ b1.toNat)
    (hED : b0.toNat = 0xED → b1.toNat ≤ 0x9F) (h2 : 0x80 ≤ b2.toNat ∧ b2.toNat ≤ 0xBF) :
    decodeRune (b0 :: b1 :: b2 :: rest)
      = ((b0.toNat % 16) * 4096 + (b1.toNat % 64) * 64 + b2.toNat % 64, 3) := by
  have hl : leadLen b0 = 3 := by
    rw [leadLen_eq]; repeat' split
    all_goals omega
  have hs : secondOk b0 b1 = true := by
    rw [secondOk_iff]; repeat' split
    all_goals omega
  have hc : isCont b2 = true := (isCont_iff b2).2 h2
  simp [decodeRune, hl, hs, hc]

/-- four-byte character; the second byte is restricted after `F0` (no overlong forms) and after
`F4` (nothing above U+10FFFF) -/
theorem decodeRune_4 (b0 b1 b2 b3 : UInt8) (rest : Bytes) (h0 : 0xF0 ≤ b0.toNat ∧ b0.toNat < 0xF5)
    (h1 : 0x80 ≤ b1.toNat ∧ b1.toNat ≤ 0xBF) (hF0 : b0.toNat = 0xF0 → 0x90 ≤ b1.toNat)
    (hF4 : b0.toNat = 0xF4 → b1.toNat ≤ 0x8F) (h2 : 0x80 ≤ b2.toNat ∧ b2.toNat ≤ 0xBF)
    (h3 : 0x80 ≤ b3.toNat ∧ b3.toNat ≤ 0xBF) :
    decodeRune (b0 :: b1 :: b2 :: b3 :: rest)
      = ((b0.toNat % 8) * 262144 + (b1.toNat % 64) * 4096 + (b2.toNat % 64) * 64 + b3.toNat % 64, 4) := by
  have hl : leadLen b0 = 4 := by
    rw [leadLen_eq]; repeat' split
    all_goals omega
  have hs : secondOk b0 b1 = true := by
    rw [secondOk_iff]; repeat' split
    all_goals omega
  have hc2 : isCont b2 = true := (isCont_iff b2).2 h2
  have hc3 : isCont b3 = true := (isCont_iff b3).2 h3
  simp [decodeRune, hl, hs, hc2, hc3]

theorem toNat_ofNat_lt (k : Nat) (h : k < 256) : (UInt8.ofNat k).toNat = k := by
  rw [UInt8.toNat_ofNat']; omega

theorem decodeRune_encodeRune (n : Nat) (rest : Bytes) (h : validScalar n) :
    decodeRune (encodeRune n ++ rest) = (n, (encodeRune n).length) := by
  unfold validScalar at h
  unfold encodeRune
  simp only
  split
  · next h1 =>
    have hb := toNat_ofNat_lt n (by omega)
    rw [List.singleton_append, decodeRune_1 _ _ (by omega), hb]; rfl
  · split
    · next h1 h2 =>
      have hb0 := toNat_ofNat_lt (0xC0 + n / 64) (by omega)
      have hb1 := toNat_ofNat_lt (0x80 + n % 64) (by omega)
      rw [List.cons_append, List.singleton_append, decodeRune_2 _ _ _ (by omega) (by omega), hb0, hb1]
      simp only [List.length_cons, List.length_nil, Prod.mk.injEq, and_true]
      omega
    · split
      · omega
      · split
        · next h1 h2 h3 h4 =>
          have hb0 := toNat_ofNat_lt (0xE0 + n / 4096) (by omega)
          have hb1 := toNat_ofNat_lt (0x80 + n / 64 % 64) (by omega)
          have hb2 := toNat_ofNat_lt (0x80 + n % 64) (by omega)
          simp only [List.cons_append, List.nil_append]
          rw [decodeRune_3 _ _ _ _ (by omega) (by omega) (by omega) (by omega) (by omega), hb0, hb1, hb2]
          simp only [List.length_cons, List.length_nil, Prod.mk.injEq, and_true]
          omega
        · split
          · next h1 h2 h3 h4 h5 =>
            have hb0 := toNat_ofNat_lt (0xF0 + n / 262144) (by omega)
            have hb1 := toNat_ofNat_lt (0x80 + n / 4096 % 64) (by omega)
            have hb2 := toNat_ofNat_lt (0x80 + n / 64 % 64) (by omega)
            have hb3 := toNat_ofNat_lt (0x80 + n % 64) (by omega)
            simp only [List.cons_append, List.nil_append]
            rw [decodeRune_4 _ _ _ _ _ (by omega) (by omega) (by omega) (by omega) (by omega) (by omega),
              hb0, hb1, hb2, hb3]
            simp only [List.length_cons, List.length_nil, Prod.mk.injEq, and_true]
            omega
          · omega


/-! ### the three decoders on a report built from its parts -/

theorem decodeSGR_build (a b c : Nat) (p : Bool) :
    decodeSGR (0x1b :: 0x5b :: 0x3c ::
      (itoa a ++ 0x3b :: (itoa b ++ 0x3b :: (itoa c ++ [if p then 0x4d else 0x6d]))))
      = some { cb := a, release := !p, x := b, y := c } := by
  have h3 : takeDigits (itoa c ++ [if p then 0x4d else 0x6d])
      = (itoa c, [if p then 0x4d else 0x6d]) := by
    apply takeDigits_itoa_append
    intro b r h
    cases p <;> simp at h <;> rw [← h.1] <;> decide
  have h2 : ∀ r, takeDigits (itoa b ++ 0x3b :: r) = (itoa b, 0x3b :: r) := by
    intro r
    apply takeDigits_itoa_append
    intro b r h
    simp at h; rw [← h.1]; decide
  have h1 : ∀ r, takeDigits (itoa a ++ 0x3b :: r) = (itoa a, 0x3b :: r) := by
    intro r
    apply takeDigits_itoa_append
    intro b r h
    simp at h; rw [← h.1]; decide
  unfold decodeSGR
  simp only [h1, h2, h3]
  cases p <;> simp [itoa_ne_nil, digitsVal_itoa]

theorem encodeRune_length_pos (n : Nat) : 0 < (encodeRune n).length := by
  unfold encodeRune
  simp only
  repeat' split
  all_goals simp

theorem decodeUTF8_build (a b c : Nat) (ha : validScalar a) (hb : validScalar b)
    (hc : validScalar c) (ha32 : 32 ≤ a) (hb32 : 32 ≤ b) (hc32 : 32 ≤ c) :
    decodeUTF8 (0x1b :: 0x5b :: 0x4d :: (encodeRune a ++ (encodeRune b ++ encodeRune c)))
      = some { cb := a - 32, release := decide ((a - 32) % 4 = 3), x := b - 32, y := c - 32 } := by
  have h3 : decodeRune (encodeRune c) = (c, (encodeRune c).length) := by
    simpa using decodeRune_encodeRune c [] hc
  unfold decodeUTF8
  simp only [decodeRune_encodeRune a _ ha, List.drop_left, decodeRune_encodeRune b _ hb, h3,
    List.drop_length]
  simp [encodeRune_length_pos, ha32, hb32, hc32]

theorem decodeX10_build (b x y : Nat) (hb : b ≤ 223) (hx : x ≤ 223) (hy : y ≤ 223) :
    decodeX10 [0x1b, 0x5b, 0x4d, UInt8.ofNat (32 + b), UInt8.ofNat (32 + x), UInt8.ofNat (32 + y)]
      = some { cb := b, release := decide (b % 4 = 3), x := x, y := y } := by
  have h1 := toNat_ofNat_lt (32 + b) (by omega)
  have h2 := toNat_ofNat_lt (32 + x) (by omega)
  have h3 := toNat_ofNat_lt (32 + y) (by omega)
  simp only [decodeX10, h1, h2, h3]
  simp

/-! ### a report followed by more bytes is not a report -/

theorem decodeSGR_build_extra (a b c : Nat) (p : Bool) (extra : Bytes) (hne : extra ≠ []) :
    decodeSGR (0x1b :: 0x5b :: 0x3c ::
      (itoa a ++ 0x3b :: (itoa b ++ 0x3b :: (itoa c ++ (if p then 0x4d else 0x6d) :: extra))))
      = none := by
  have h3 : takeDigits (itoa c ++ (if p then 0x4d else 0x6d) :: extra)
      = (itoa c, (if p then 0x4d else 0x6d) :: extra) := by
    apply takeDigits_itoa_append
    intro b r h
    cases p <;> simp at h <;> rw [← h.1] <;> decide
  have h2 : ∀ r, takeDigits (itoa b ++ 0x3b :: r) = (itoa b, 0x3b :: r) := by
    intro r
    apply takeDigits_itoa_append
    intro b r h
    simp at h; rw [← h.1]; decide
  have h1 : ∀ r, takeDigits (itoa a ++ 0x3b :: r) = (itoa a, 0x3b :: r) := by
    intro r
    apply takeDigits_itoa_append
    intro b r h
    simp at h; rw [← h.1]; decide
  unfold decodeSGR
  simp only [h1, h2, h3]
  cases extra with
  | nil => exact absurd rfl hne
  | cons x xs => cases p <;> simp

theorem decodeUTF8_build_extra (a b c : Nat) (ha : validScalar a) (hb : validScalar b)
    (hc : validScalar c) (extra : Bytes) (hne : extra ≠ []) :
    decodeUTF8 (0x1b :: 0x5b :: 0x4d :: (encodeRune a ++ (encodeRune b ++ (encodeRune c ++ extra))))
      = none := by
  unfold decodeUTF8
  simp only [decodeRune_encodeRune a _ ha, List.drop_left, decodeRune_encodeRune b _ hb,
    decodeRune_encodeRune c _ hc]
  simp [hne]

theorem decodeX10_extra (b0 b1 b2 b3 b4 b5 : UInt8) (extra : Bytes) (hne : extra ≠ []) :
    decodeX10 ([b0, b1, b2, b3, b4, b5] ++ extra) = none := by
  cases extra with
  | nil => exact absurd rfl hne
  | cons x xs =>
    unfold decodeX10
    split
    · next h => simp at h
    · rfl
/-! ### bit facts on the finite domain (4 buttons × 32 flag sets) -/

/-- checked by evaluation on all 4 × 32 combinations; this is the whole domain -/
theorem bits_finite : ∀ b < 4, ∀ k < 32,
    (b % 4 ||| 4 * k) = b + 4 * k ∧ ((b % 4 ||| 4 * k) ||| 3) = 3 + 4 * k ∧
    (b + 4 * k) &&& 0x7c = 4 * k ∧
    (b + 4 * k) &&& 4 = (4 * k) &&& 4 ∧ (b + 4 * k) &&& 8 = (4 * k) &&& 8 ∧
    (b + 4 * k) &&& 16 = (4 * k) &&& 16 ∧ (b + 4 * k) &&& 32 = (4 * k) &&& 32 ∧
    (b + 4 * k) &&& 64 = (4 * k) &&& 64 := by decide

theorem bits (b m : Nat) (hb : b < 4) (hm4 : m % 4 = 0) (hm : m < 128) :
    (b % 4 ||| m) = b + m ∧ ((b % 4 ||| m) ||| 3) = 3 + m ∧
    (b + m) &&& 0x7c = m ∧
    (b + m) &&& 4 = m &&& 4 ∧ (b + m) &&& 8 = m &&& 8 ∧
    (b + m) &&& 16 = m &&& 16 ∧ (b + m) &&& 32 = m &&& 32 ∧
    (b + m) &&& 64 = m &&& 64 := by
  have h := bits_finite b hb (m / 4) (by omega)
  have e : 4 * (m / 4) = m := by omega
  rw [e] at h
  exact h

theorem btnByte_eq (e : MouseEv) (h : EvOK e) : btnByte e = e.btn + e.mods :=
  (bits e.btn e.mods h.1 h.2.1 h.2.2).1

theorem btnByte_or3 (e : MouseEv) (h : EvOK e) : btnByte e ||| 3 = 3 + e.mods :=
  (bits e.btn e.mods h.1 h.2.1 h.2.2).2.1

theorem btnByte_lt (e : MouseEv) (hm : e.mods < 128) : btnByte e < 128 := by
  unfold btnByte
  exact Nat.or_lt_two_pow (n := 7) (by omega) hm

theorem legacyCb_lt (e : MouseEv) (hm : e.mods < 128) : legacyCb e < 128 := by
  unfold legacyCb
  split
  · exact btnByte_lt e hm
  · exact Nat.or_lt_two_pow (n := 7) (btnByte_lt e hm) (by omega)

/-- the motion test of `SendMouseRaw` (`mods&MMotion != 0`) is bit 5 of the flag set -/
theorem and_motion (m : Nat) : (m &&& mMotion = 0) ↔ m.testBit 5 = false := by
  have t : ∀ i, Nat.testBit 32 i = decide (5 = i) := fun i => Nat.testBit_two_pow (n := 5) (m := i)
  unfold mMotion
  constructor
  · intro h
    have h5 := Nat.testBit_and m 32 5
    rw [h, t] at h5
    simpa using h5.symm
  · intro h
    apply Nat.eq_of_testBit_eq
    intro i
    rw [Nat.testBit_and, t, Nat.zero_testBit]
    by_cases hi : 5 = i
    · subst hi; simp [h]
    · simp [hi]

theorem decide_eq_beq3 (n : Nat) : decide (n = 3) = (n == 3) := by
  by_cases h : n = 3 <;> simp [h]

theorem clampX10_eq (v : Nat) : clampX10 v = min v 223 := by
  unfold clampX10
  split <;> omega

end Lemmas

open Lemmas

/-! ## 1. the tracking-mode filter -/

/-- Nothing is written exactly when the selected tracking mode excludes the event. -/
theorem report_none_iff (mode enc : Int) (e : MouseEv) :
    mouseReport mode enc e = none ↔ mouseFilter mode e = false := by
  unfold mouseReport
  split <;> simp_all

/-- "Either nothing or exactly one report in the selected encoding": the output is `none`, or it
is the single report `mouseEncode enc e` (never two reports, never a partial one: each of the
decoders below accepts it only as a whole). -/
theorem nothing_or_one_report (mode enc : Int) (e : MouseEv) :
    (mouseReport mode enc e = none ∧ mouseFilter mode e = false) ∨
    (∃ b, mouseReport mode enc e = some b ∧ b = mouseEncode enc e ∧ mouseFilter mode e = true) := by
  unfold mouseReport
  cases h : mouseFilter mode e <;> simp

/-- Which events each tracking mode reports (any encoding, any event, no domain restriction):
mode 0 nothing; mode 1 (`?9`) presses that are not motion; mode 2 (`?1000`) everything but motion;
mode 3 (`?1002`) everything but motion with no button held; any other mode (4 = `?1003`)
everything. -/
theorem filter_spec (mode enc : Int) (e : MouseEv) :
    (mouseReport mode enc e).isSome = true ↔
      (mode = 1 ∧ e.press = true ∧ isMotion e = false) ∨
      (mode = 2 ∧ isMotion e = false) ∨
      (mode = 3 ∧ ¬ (isMotion e = true ∧ e.btn % 4 = 3)) ∨
      (mode ≠ 0 ∧ mode ≠ 1 ∧ mode ≠ 2 ∧ mode ≠ 3) := by
  have hm := and_motion e.mods
  unfold mouseReport mouseFilter isMotion
  by_cases h0 : mode = 0
  · subst h0; simp
  by_cases h1 : mode = 1
  · subst h1; simp [hm]
  by_cases h2 : mode = 2
  · subst h2; simp [hm]
  by_cases h3 : mode = 3
  · subst h3
    cases ht : e.mods.testBit 5 <;> simp [hm, ht]
  simp [h0, h1, h2, h3]

/-- mode 0: mouse tracking off, nothing is ever written -/
theorem mode_off (enc : Int) (e : MouseEv) : mouseReport 0 enc e = none := by
  simp [mouseReport, mouseFilter]

/-- mode 1 (`?9`, press only): exactly the presses that are not motion events -/
theorem mode_press (enc : Int) (e : MouseEv) :
    mouseReport 1 enc e =
      if e.press = true ∧ isMotion e = false then some (mouseEncode enc e) else none := by
  have hm := and_motion e.mods
  cases hp : e.press <;> cases ht : e.mods.testBit 5 <;>
    simp [mouseReport, mouseFilter, isMotion, hm, hp, ht]

/-- mode 2 (`?1000`, press and release): everything except motion events -/
theorem mode_press_release (enc : Int) (e : MouseEv) :
    mouseReport 2 enc e = if isMotion e = false then some (mouseEncode enc e) else none := by
  have hm := and_motion e.mods
  cases ht : e.mods.testBit 5 <;> simp [mouseReport, mouseFilter, isMotion, hm, ht]

/-- mode 3 (`?1002`, button-motion): everything except motion while no button is held
(`btn = 3`) -/
theorem mode_button_motion (enc : Int) (e : MouseEv) (hb : e.btn < 4) :
    mouseReport 3 enc e =
      if isMotion e = true ∧ e.btn = 3 then none else some (mouseEncode enc e) := by
  have hm := and_motion e.mods
  have hb' : e.btn % 4 = e.btn := Nat.mod_eq_of_lt hb
  cases ht : e.mods.testBit 5 <;> simp [mouseReport, mouseFilter, isMotion, hm, ht, hb']

/-- mode 4 (`?1003`, any-motion) and every other mode value: every event is reported -/
theorem mode_any_motion (mode enc : Int) (e : MouseEv)
    (h : mode ≠ 0 ∧ mode ≠ 1 ∧ mode ≠ 2 ∧ mode ≠ 3) :
    mouseReport mode enc e = some (mouseEncode enc e) := by
  simp [mouseReport, mouseFilter, h.1, h.2.1, h.2.2.1, h.2.2.2]

/-! ## 5. button / modifier / kind recovery from the decoded button byte

(placed before the encodings because the combined theorem uses it) -/

/-- From the button byte of a press (and of every SGR report) the button and the flag set come
back: low two bits = button, bits 2..6 = flags. -/
theorem cb_recovery (e : MouseEv) (h : EvOK e) :
    btnByte e % 4 = e.btn ∧ btnByte e &&& 0x7c = e.mods ∧ btnByte e / 4 * 4 = e.mods := by
  have hb := bits e.btn e.mods h.1 h.2.1 h.2.2
  rw [btnByte_eq e h]
  refine ⟨?_, hb.2.2.1, ?_⟩ <;> have := h.1 <;> have := h.2.1 <;> omega

/-- The button byte of an X10 / UTF-8 release: the low two bits are 3 (the release marker; which
button was released is not transmitted by these encodings), the flags are kept. -/
theorem cb_release_recovery (e : MouseEv) (h : EvOK e) :
    (btnByte e ||| 3) % 4 = 3 ∧ (btnByte e ||| 3) &&& 0x7c = e.mods ∧
    (btnByte e ||| 3) / 4 * 4 = e.mods := by
  have hb := bits 3 e.mods (by omega) h.2.1 h.2.2
  rw [btnByte_or3 e h]
  refine ⟨?_, hb.2.2.1, ?_⟩ <;> have := h.2.1 <;> omega

/-- Each single flag — 4 shift, 8 meta, 16 control, 32 motion, 64 wheel — is the same bit of the
button byte, marked as a release or not: the press/release/motion/wheel kind is preserved. -/
theorem cb_flags (e : MouseEv) (h : EvOK e) (f : Nat) (hf : f ∈ [4, 8, 16, 32, 64]) :
    btnByte e &&& f = e.mods &&& f ∧ (btnByte e ||| 3) &&& f = e.mods &&& f := by
  have hb := bits e.btn e.mods h.1 h.2.1 h.2.2
  have h3 := bits 3 e.mods (by omega) h.2.1 h.2.2
  rw [btnByte_or3 e h, btnByte_eq e h]
  simp only [List.mem_cons, List.not_mem_nil, or_false] at hf
  rcases hf with rfl | rfl | rfl | rfl | rfl
  · exact ⟨hb.2.2.2.1, h3.2.2.2.1⟩
  · exact ⟨hb.2.2.2.2.1, h3.2.2.2.2.1⟩
  · exact ⟨hb.2.2.2.2.2.1, h3.2.2.2.2.2.1⟩
  · exact ⟨hb.2.2.2.2.2.2.1, h3.2.2.2.2.2.2.1⟩
  · exact ⟨hb.2.2.2.2.2.2.2, h3.2.2.2.2.2.2.2⟩

/-- The legacy (X10 / UTF-8) button byte: button (or 3 for a release), flags, and the release
flag a decoder derives from it (`Cb % 4 = 3`: a release, or a buttonless event such as plain
motion). -/
theorem legacyCb_recovery (e : MouseEv) (h : EvOK e) :
    legacyCb e % 4 = (if e.press then e.btn else 3) ∧ legacyCb e &&& 0x7c = e.mods ∧
    legacyCb e / 4 * 4 = e.mods ∧
    decide (legacyCb e % 4 = 3) = (!e.press || e.btn == 3) := by
  have h1 := cb_recovery e h
  have h2 := cb_release_recovery e h
  unfold legacyCb
  cases hp : e.press
  · simp [h2.1, h2.2.1, h2.2.2]
  · by_cases hb3 : e.btn = 3 <;> simp [h1.1, h1.2.1, h1.2.2, hb3]

/-! ## 2. X10 -/

/-- X10 encoding: the report is the six bytes `ESC [ M (32+Cb) (32+x') (32+y')` where `x'`, `y'`
are the coordinates clamped to 223; no value exceeds 255, so each is a single byte holding exactly
that value (no wrap-around, no UTF-8 expansion); the xterm decoder reads back `Cb`, `x'`, `y'`.
Only `mods < 128` is needed. For `x, y ≤ 223` the coordinates are exact (`min x 223 = x`). -/
theorem x10_report (e : MouseEv) (hm : e.mods < 128) :
    (mouseEncode 0 e).length = 6 ∧
    (mouseEncode 0 e).map UInt8.toNat
      = [0x1b, 0x5b, 0x4d, 32 + legacyCb e, 32 + min e.x 223, 32 + min e.y 223] ∧
    32 + legacyCb e ≤ 255 ∧ 32 + clampX10 e.x ≤ 255 ∧ 32 + clampX10 e.y ≤ 255 ∧
    decodeX10 (mouseEncode 0 e)
      = some { cb := legacyCb e, release := decide (legacyCb e % 4 = 3),
               x := min e.x 223, y := min e.y 223 } := by
  have hcb := legacyCb_lt e hm
  have hx : min e.x 223 ≤ 223 := Nat.min_le_right _ _
  have hy : min e.y 223 ≤ 223 := Nat.min_le_right _ _
  have henc : mouseEncode 0 e = [0x1b, 0x5b, 0x4d, UInt8.ofNat (32 + legacyCb e),
      UInt8.ofNat (32 + min e.x 223), UInt8.ofNat (32 + min e.y 223)] := by
    simp [mouseEncode, legacyCb, clampX10_eq]
  have h1 := toNat_ofNat_lt (32 + legacyCb e) (by omega)
  have h2 := toNat_ofNat_lt (32 + min e.x 223) (by omega)
  have h3 := toNat_ofNat_lt (32 + min e.y 223) (by omega)
  refine ⟨by rw [henc]; rfl, ?_, by omega, by rw [clampX10_eq]; omega, by rw [clampX10_eq]; omega, ?_⟩
  · rw [henc]
    simp only [List.map_cons, List.map_nil, h1, h2, h3]
    rfl
  · rw [henc]
    exact decodeX10_build _ _ _ (by omega) hx hy

/-! ## 3. SGR -/

/-- SGR encoding (`?1006`; the model, like the Go `switch`, uses it for every encoding value other
than 0 and 1): `ESC [ < Cb ; x ; y M|m` decodes to the same button byte, press/release and
coordinates, for ALL events and ALL coordinates (no hypothesis). -/
theorem sgr_report (enc : Int) (henc : enc ≠ 0 ∧ enc ≠ 1) (e : MouseEv) :
    decodeSGR (mouseEncode enc e)
      = some { cb := btnByte e, release := !e.press, x := e.x, y := e.y } := by
  have h : mouseEncode enc e = 0x1b :: 0x5b :: 0x3c :: (itoa (btnByte e) ++ 0x3b ::
      (itoa e.x ++ 0x3b :: (itoa e.y ++ [if e.press then 0x4d else 0x6d]))) := by
    simp [mouseEncode, henc.1, henc.2]
  rw [h, decodeSGR_build]

/-! ## 4. UTF-8 -/

/-- UTF-8 extended encoding (`?1005`): whenever `32 + x` and `32 + y` are Unicode scalar values
(everything below 0xD800, and 0xE000..0x10FFFF) the three characters after `ESC [ M` decode to
`Cb`, `x`, `y` exactly. Only `mods < 128` is needed. -/
theorem utf8_report (e : MouseEv) (hm : e.mods < 128)
    (hx : validScalar (32 + e.x)) (hy : validScalar (32 + e.y)) :
    decodeUTF8 (mouseEncode 1 e)
      = some { cb := legacyCb e, release := decide (legacyCb e % 4 = 3), x := e.x, y := e.y } := by
  have hcb := legacyCb_lt e hm
  have h : mouseEncode 1 e = 0x1b :: 0x5b :: 0x4d :: (encodeRune (32 + legacyCb e) ++
      (encodeRune (32 + e.x) ++ encodeRune (32 + e.y))) := by
    simp [mouseEncode, legacyCb]
  have hv : validScalar (32 + legacyCb e) := Or.inl (by omega)
  rw [h, decodeUTF8_build _ _ _ hv hx hy (by omega) (by omega) (by omega)]
  simp

/-- xterm limits UTF-8 coordinates to 2015 (two-byte characters); that range is covered. -/
theorem utf8_report_xterm_range (e : MouseEv) (hm : e.mods < 128) (hx : e.x ≤ 2015)
    (hy : e.y ≤ 2015) :
    decodeUTF8 (mouseEncode 1 e)
      = some { cb := legacyCb e, release := decide (legacyCb e % 4 = 3), x := e.x, y := e.y } :=
  utf8_report e hm (Or.inl (by omega)) (Or.inl (by omega))

/-- Outside that range the report is still one well-formed report, but the coordinate is lost:
Go's `string(rune(v))` yields U+FFFD for a surrogate or a value above 0x10FFFF, which decodes to
`0xFFFD - 32 = 65501`. So the hypothesis of `utf8_report` is necessary
(first such coordinate: `0xD800 - 32 = 55264`). -/
theorem utf8_out_of_range (e : MouseEv) (hm : e.mods < 128)
    (hx : ¬ validScalar (32 + e.x)) (hy : validScalar (32 + e.y)) :
    decodeUTF8 (mouseEncode 1 e)
      = some { cb := legacyCb e, release := decide (legacyCb e % 4 = 3), x := 65501, y := e.y } := by
  have he : encodeRune (32 + e.x) = encodeRune 65533 := by
    unfold validScalar at hx
    have e1 : encodeRune 65533 = [0xEF, 0xBF, 0xBD] := by decide
    rw [e1]
    unfold encodeRune
    simp only
    repeat' split
    all_goals first | rfl | omega
  have hcb := legacyCb_lt e hm
  have h : mouseEncode 1 e = 0x1b :: 0x5b :: 0x4d :: (encodeRune (32 + legacyCb e) ++
      (encodeRune 65533 ++ encodeRune (32 + e.y))) := by
    simp [mouseEncode, legacyCb, he]
  have hv : validScalar (32 + legacyCb e) := Or.inl (by omega)
  rw [h, decodeUTF8_build _ _ _ hv (by decide) hy (by omega) (by decide) (by omega)]
  simp

/-! ## combined statement -/

/-- the decoder an application uses for the encoding it selected -/
def decodeBy (enc : Int) (b : Bytes) : Option MouseDecoded :=
  if enc = 0 then decodeX10 b else if enc = 1 then decodeUTF8 b else decodeSGR b

/-- C13, combined: for every tracking mode, every encoding and every event of the domain (all
coordinates; for UTF-8 those that are encodable), `SendMouseRaw` writes nothing — exactly when the
mode excludes the event — or one report `b` which the decoder of the selected encoding accepts as a
whole and from which it recovers the flag set (modifiers, motion, wheel), the button (3 = release
marker for an X10 / UTF-8 release), the press/release kind and the coordinates (clamped to 223 in
X10). -/
theorem report_roundtrip (mode enc : Int) (e : MouseEv) (h : EvOK e)
    (hu : enc = 1 → validScalar (32 + e.x) ∧ validScalar (32 + e.y)) :
    (mouseReport mode enc e = none ∧ mouseFilter mode e = false) ∨
    ∃ b d, mouseReport mode enc e = some b ∧ mouseFilter mode e = true ∧
      decodeBy enc b = some d ∧
      d.cb &&& 0x7c = e.mods ∧
      d.cb % 4 = (if enc = 0 ∨ enc = 1 then (if e.press then e.btn else 3) else e.btn) ∧
      d.release = (if enc = 0 ∨ enc = 1 then (!e.press || e.btn == 3) else !e.press) ∧
      d.x = (if enc = 0 then min e.x 223 else e.x) ∧
      d.y = (if enc = 0 then min e.y 223 else e.y) := by
  rcases nothing_or_one_report mode enc e with hn | ⟨b, hb, hbe, hf⟩
  · exact Or.inl hn
  · right
    have hl := legacyCb_recovery e h
    have hc := cb_recovery e h
    subst hbe
    by_cases h0 : enc = 0
    · subst h0
      have hd : decodeBy 0 (mouseEncode 0 e) = _ := (x10_report e h.2.2).2.2.2.2.2
      refine ⟨_, _, hb, hf, hd, ?_⟩
      simp [hl.1, hl.2.1, decide_eq_beq3]
    · by_cases h1 : enc = 1
      · subst h1
        have hd : decodeBy 1 (mouseEncode 1 e) = _ := utf8_report e h.2.2 (hu rfl).1 (hu rfl).2
        refine ⟨_, _, hb, hf, hd, ?_⟩
        simp [hl.1, hl.2.1, decide_eq_beq3]
      · have hd : decodeBy enc (mouseEncode enc e) = decodeSGR (mouseEncode enc e) := by
          simp only [decodeBy, h0, h1, if_false]
        rw [sgr_report enc ⟨h0, h1⟩ e] at hd
        refine ⟨_, _, hb, hf, hd, ?_⟩
        simp [h0, h1, hc.1, hc.2.1]

/-- "Exactly one report": the bytes written are one report and nothing more. Followed by any
further bytes they are rejected by the decoder of the selected encoding, so the output is not two
reports, nor one report plus stray bytes. (With `report_roundtrip`: the output itself is accepted.)
-/
theorem report_is_whole (enc : Int) (e : MouseEv) (hm : e.mods < 128)
    (hu : enc = 1 → validScalar (32 + e.x) ∧ validScalar (32 + e.y))
    (extra : Bytes) (hne : extra ≠ []) :
    decodeBy enc (mouseEncode enc e ++ extra) = none := by
  by_cases h0 : enc = 0
  · subst h0
    simp only [decodeBy, mouseEncode, ↓reduceIte]
    exact decodeX10_extra _ _ _ _ _ _ extra hne
  · by_cases h1 : enc = 1
    · subst h1
      have hcb := legacyCb_lt e hm
      have h : mouseEncode 1 e ++ extra = 0x1b :: 0x5b :: 0x4d :: (encodeRune (32 + legacyCb e) ++
          (encodeRune (32 + e.x) ++ (encodeRune (32 + e.y) ++ extra))) := by
        simp [mouseEncode, legacyCb]
      have hv : validScalar (32 + legacyCb e) := Or.inl (by omega)
      simp only [decodeBy, h0, ↓reduceIte]
      rw [h]
      exact decodeUTF8_build_extra _ _ _ hv (hu rfl).1 (hu rfl).2 extra hne
    · have h : mouseEncode enc e ++ extra = 0x1b :: 0x5b :: 0x3c :: (itoa (btnByte e) ++ 0x3b ::
          (itoa e.x ++ 0x3b :: (itoa e.y ++ (if e.press then 0x4d else 0x6d) :: extra))) := by
        simp [mouseEncode, h0, h1]
      simp only [decodeBy, h0, h1, ↓reduceIte]
      rw [h]
      exact decodeSGR_build_extra _ _ _ _ extra hne

/-! ## 6. different events, different reports -/

/-- SGR: the report determines the event (on the domain; all coordinates). -/
theorem distinct_events_distinct_reports (enc : Int) (henc : enc ≠ 0 ∧ enc ≠ 1)
    (e₁ e₂ : MouseEv) (h₁ : EvOK e₁) (h₂ : EvOK e₂)
    (h : mouseEncode enc e₁ = mouseEncode enc e₂) : e₁ = e₂ := by
  have d := congrArg decodeSGR h
  rw [sgr_report enc henc, sgr_report enc henc] at d
  simp only [Option.some.injEq, MouseDecoded.mk.injEq] at d
  obtain ⟨hcb, hp, hx, hy⟩ := d
  rw [btnByte_eq e₁ h₁, btnByte_eq e₂ h₂] at hcb
  obtain ⟨a1, a2, a3⟩ := h₁
  obtain ⟨b1, b2, b3⟩ := h₂
  cases e₁; cases e₂
  simp only [MouseEv.mk.injEq]
  simp only at *
  refine ⟨by omega, by simpa using hp, by omega, hx, hy⟩

/-- X10: two presses with coordinates in range (≤ 223) have different reports unless they are the
same event. (For releases the button is not transmitted, by design of the protocol.) -/
theorem x10_press_injective (e₁ e₂ : MouseEv) (h₁ : EvOK e₁) (h₂ : EvOK e₂)
    (p₁ : e₁.press = true) (p₂ : e₂.press = true)
    (r₁ : e₁.x ≤ 223 ∧ e₁.y ≤ 223) (r₂ : e₂.x ≤ 223 ∧ e₂.y ≤ 223)
    (h : mouseEncode 0 e₁ = mouseEncode 0 e₂) : e₁ = e₂ := by
  have d := congrArg decodeX10 h
  rw [(x10_report e₁ h₁.2.2).2.2.2.2.2, (x10_report e₂ h₂.2.2).2.2.2.2.2] at d
  simp only [Option.some.injEq, MouseDecoded.mk.injEq, legacyCb, p₁, p₂, if_true] at d
  obtain ⟨hcb, -, hx, hy⟩ := d
  rw [btnByte_eq e₁ h₁, btnByte_eq e₂ h₂] at hcb
  obtain ⟨a1, a2, a3⟩ := h₁
  obtain ⟨b1, b2, b3⟩ := h₂
  cases e₁; cases e₂
  simp only [MouseEv.mk.injEq]
  simp only at *
  refine ⟨by omega, by rw [p₁, p₂], by omega, by omega, by omega⟩

/-- UTF-8: two presses with encodable coordinates have different reports unless they are the same
event. -/
theorem utf8_press_injective (e₁ e₂ : MouseEv) (h₁ : EvOK e₁) (h₂ : EvOK e₂)
    (p₁ : e₁.press = true) (p₂ : e₂.press = true)
    (r₁ : validScalar (32 + e₁.x) ∧ validScalar (32 + e₁.y))
    (r₂ : validScalar (32 + e₂.x) ∧ validScalar (32 + e₂.y))
    (h : mouseEncode 1 e₁ = mouseEncode 1 e₂) : e₁ = e₂ := by
  have d := congrArg decodeUTF8 h
  rw [utf8_report e₁ h₁.2.2 r₁.1 r₁.2, utf8_report e₂ h₂.2.2 r₂.1 r₂.2] at d
  simp only [Option.some.injEq, MouseDecoded.mk.injEq, legacyCb, p₁, p₂, if_true] at d
  obtain ⟨hcb, -, hx, hy⟩ := d
  rw [btnByte_eq e₁ h₁, btnByte_eq e₂ h₂] at hcb
  obtain ⟨a1, a2, a3⟩ := h₁
  obtain ⟨b1, b2, b3⟩ := h₂
  cases e₁; cases e₂
  simp only [MouseEv.mk.injEq]
  simp only at *
  refine ⟨by omega, by rw [p₁, p₂], by omega, hx, hy⟩

/-! ## non-vacuity: concrete events at the encoding boundaries -/

section Examples

/-- left press with shift at (95, 96) -/
def ev1 : MouseEv := { btn := 0, press := true, mods := 4, x := 95, y := 96 }
/-- middle-button drag (motion, control) at (223, 224): 224 is the first clamped coordinate -/
def ev2 : MouseEv := { btn := 1, press := true, mods := 48, x := 223, y := 224 }
/-- release of the right button at (2015, 2016): 2015 is the last two-byte UTF-8 coordinate -/
def ev3 : MouseEv := { btn := 2, press := false, mods := 0, x := 2015, y := 2016 }
/-- wheel event with every modifier, far outside any real screen -/
def ev4 : MouseEv := { btn := 1, press := true, mods := 92, x := 100000, y := 1 }
/-- plain motion, no button held -/
def ev5 : MouseEv := { btn := 3, press := true, mods := 32, x := 128, y := 256 }

example : EvOK ev1 ∧ EvOK ev2 ∧ EvOK ev3 ∧ EvOK ev4 ∧ EvOK ev5 := by decide

-- the filter: each mode both reports and suppresses something
example : mouseReport 0 2 ev1 = none := by decide
example : mouseReport 1 0 ev1 = some [0x1b, 0x5b, 0x4d, 0x24, 0x7f, 0x80] := by decide
example : mouseReport 1 0 ev3 = none := by decide                       -- release in press-only mode
example : mouseReport 2 0 ev2 = none := by decide                       -- drag in press/release mode
example : (mouseReport 2 0 ev3).isSome = true := by decide
example : (mouseReport 3 0 ev2).isSome = true := by decide              -- drag in button-motion mode
example : mouseReport 3 0 ev5 = none := by decide                       -- buttonless motion
example : (mouseReport 4 0 ev5).isSome = true := by decide              -- any-motion mode
example : isMotion ev2 = true ∧ isMotion ev5 = true ∧ isMotion ev1 = false := by decide

-- X10: 95 ↦ 0x7f, 96 ↦ 0x80 (one byte, not UTF-8), 223 ↦ 0xff, 224 and 100000 clamp to 0xff
example : mouseEncode 0 ev2 = [0x1b, 0x5b, 0x4d, 0x51, 0xff, 0xff] := by decide
example : decodeX10 (mouseEncode 0 ev2) = some { cb := 49, release := false, x := 223, y := 223 } := by
  decide
example : decodeX10 (mouseEncode 0 ev4) = some { cb := 93, release := false, x := 223, y := 1 } := by
  decide
example : decodeX10 (mouseEncode 0 ev3) = some { cb := 3, release := true, x := 223, y := 223 } := by
  decide

-- UTF-8: 95 one byte, 96 two bytes (32+96 = 128), 2015 two bytes (0x7ff), 2016 three bytes
example : mouseEncode 1 ev1 = [0x1b, 0x5b, 0x4d, 0x24, 0x7f, 0xc2, 0x80] := by decide
example : mouseEncode 1 ev3 = [0x1b, 0x5b, 0x4d, 0x23, 0xdf, 0xbf, 0xe0, 0xa0, 0x80] := by decide
example : decodeUTF8 (mouseEncode 1 ev3) = some { cb := 3, release := true, x := 2015, y := 2016 } := by
  decide
example : validScalar (32 + ev4.x) ∧ validScalar (32 + ev4.y) := by decide
example : decodeUTF8 (mouseEncode 1 ev4) = some { cb := 93, release := false, x := 100000, y := 1 } :=
  utf8_report ev4 (by decide) (by decide) (by decide)
-- the first coordinate the UTF-8 encoding loses (32 + 55264 = 0xD800, a surrogate)
example : ¬ validScalar (32 + 55264) := by decide
example : decodeUTF8 (mouseEncode 1 { ev1 with x := 55264 })
    = some { cb := 4, release := false, x := 65501, y := 96 } := by decide

-- SGR: decimal, button kept on release, no limit
example : mouseEncode 2 ev3 =    -- ESC [ < 2 ; 2015 ; 2016 m
    [0x1b, 0x5b, 0x3c, 0x32, 0x3b, 0x32, 0x30, 0x31, 0x35, 0x3b, 0x32, 0x30, 0x31, 0x36, 0x6d] := by
  decide
example : decodeSGR (mouseEncode 2 { ev1 with x := 100000, y := 0 })
    = some { cb := 4, release := false, x := 100000, y := 0 } := by decide
example : decodeSGR (mouseEncode 2 ev3) = some { cb := 2, release := true, x := 2015, y := 2016 } :=
  sgr_report 2 (by decide) ev3
example : decodeSGR (mouseEncode 2 ev4) = some { cb := 93, release := false, x := 100000, y := 1 } :=
  sgr_report 2 (by decide) ev4
-- flags come back from the button byte: 93 = button 1 + shift + meta + control + wheel
example : 93 % 4 = 1 ∧ 93 &&& 0x7c = 92 ∧ 93 &&& 64 = 64 ∧ 93 &&& 32 = 0 := by decide

-- the combined theorem applies to them (hypotheses satisfiable, both outcomes occur)
example : mouseFilter 3 ev5 = false ∧ mouseFilter 3 ev2 = true := by decide

end Examples

/-! ## axioms -/

#print axioms TM.C13.report_none_iff
#print axioms TM.C13.nothing_or_one_report
#print axioms TM.C13.filter_spec
#print axioms TM.C13.mode_off
#print axioms TM.C13.mode_press
#print axioms TM.C13.mode_press_release
#print axioms TM.C13.mode_button_motion
#print axioms TM.C13.mode_any_motion
#print axioms TM.C13.cb_recovery
#print axioms TM.C13.cb_release_recovery
#print axioms TM.C13.cb_flags
#print axioms TM.C13.legacyCb_recovery
#print axioms TM.C13.x10_report
#print axioms TM.C13.sgr_report
#print axioms TM.C13.utf8_report
#print axioms TM.C13.utf8_report_xterm_range
#print axioms TM.C13.utf8_out_of_range
#print axioms TM.C13.report_roundtrip
#print axioms TM.C13.report_is_whole
#print axioms TM.C13.distinct_events_distinct_reports
#print axioms TM.C13.x10_press_injective
#print axioms TM.C13.utf8_press_injective

end TM.C13
