import TM.Term
/-!
# C06 — scrolling: SU, SD, IL, DL, the implicit scroll of LF / FF / IND / RI / autowrap, DECSTBM

Model: `TM.Scr.scroll`, `TM.Scr.lineDown`, `TM.Scr.lineUp`, `TM.Scr.setMargins` (`TM/Screen.lean`)
and the rows `L M S T r` of `TM.Term.csiPlain`, `.ctl 10`, `.ctl 12`, `.esc [] 0x44`,
`.esc [] 0x4d` of `TM.Term.apply` (`TM/Term.lean`).

All row statements are pointwise on the grid: `g[y]?` is row `y` (`none` past the last row),
so "row `y` after = row `y'` before" carries text and attributes of every cell of the row.
Counts are arbitrary `Int`s (the parser only produces `0 … 2^31-1`), sizes and margins arbitrary.
The only well-formedness facts used are the three conjuncts of `Scr.inv` collected in `RegionOK`
(`grid.length = h`, `top ≤ bot`, `bot < h`); section 5 shows every operation keeps all of `Scr.inv`.

Sections: 1 `Scr.scroll` (frame, rows, big count, zero, invalid range, cell level) ·
3 `Scr.setMargins` · 4 `lineDown` / `lineUp` · 2 the tokens (`CSI n S/T/L/M`, `CSI t;b r`, LF, FF,
IND, RI, autowrap in `Scr.put`) · 5 invariant · non-vacuity examples · `#print axioms`.
Lemmas named `*_dispatch`, `put_shape`, `put_autowrap` and everything in `Lemmas` are helpers.
-/
namespace TM.C06
open TM

/-! ## helper lemmas on lists -/
namespace Lemmas

theorem splice_getElem? {α} (g mid : List α) (a n : Nat) (hm : mid.length = n)
    (ha : a + n ≤ g.length) (y : Nat) :
    (g.take a ++ mid ++ g.drop (a + n))[y]? =
      if y < a then g[y]? else if y < a + n then mid[y - a]? else g[y]? := by
  have h1 : (g.take a).length = a := by simp; omega
  by_cases c1 : y < a
  · simp [c1, List.getElem?_append, h1]
  · by_cases c2 : y < a + n
    · simp [c1, c2, List.getElem?_append, h1, hm]
      omega
    · have c3 : ¬ y - a < n := by omega
      have c4 : a + n + (y - a - n) = y := by omega
      simp [c1, c2, c3, c4, List.getElem?_append, h1, hm, List.getElem?_drop]

/-- the shifted region, scrolling down -/
theorem regionDown_getElem? {α} (reg : List α) (b : α) (n k : Nat) (hk : k ≤ n)
    (i : Nat) (hi : i < n) :
    (List.replicate k b ++ reg.take (n - k))[i]? = if i < k then some b else reg[i - k]? := by
  by_cases c : i < k
  · simp [c, List.getElem?_append]
  · have : i - k < n - k := by omega
    simp [c, List.getElem?_append, this]

/-- the shifted region, scrolling up -/
theorem regionUp_getElem? {α} (reg : List α) (b : α) (n k : Nat) (hr : reg.length = n) (hk : k ≤ n)
    (i : Nat) (hi : i < n) :
    (reg.drop k ++ List.replicate k b)[i]? = if i + k < n then reg[i + k]? else some b := by
  by_cases c : i + k < n
  · have : i < n - k := by omega
    have h4 : k + i < reg.length := by omega
    rw [if_pos c]
    simp [List.getElem?_append, hr, this, Nat.add_comm i k]
  · have : ¬ i < n - k := by omega
    have h3 : i - (n - k) < k := by omega
    simp [c, List.getElem?_append, hr, this, h3]

theorem region_getElem? {α} (g : List α) (a n i : Nat) (hi : i < n) :
    ((g.drop a).take n)[i]? = g[a + i]? := by
  simp [hi, List.getElem?_drop]

end Lemmas
open Lemmas

/-! ## 1. `Scr.scroll` -/

/-- the conjuncts of `Scr.inv` that the scrolling properties need -/
def RegionOK (s : Scr) : Prop := s.grid.length = s.h ∧ s.top ≤ s.bot ∧ s.bot < s.h

theorem RegionOK_of_inv (s : Scr) (h : s.inv = true) : RegionOK s := by
  simp [Scr.inv] at h
  exact ⟨h.1.1.1.1.1.1.1.2, h.1.2, h.2⟩

/-- an empty or out-of-screen row range: nothing happens (`scroll ys out of order`) -/
theorem scroll_noop (s : Scr) (y1 y2 : Nat) (d : Int) (h : y1 > y2 ∨ y2 ≥ s.h) :
    s.scroll y1 y2 d = s := by
  simp [Scr.scroll, h]

theorem scroll_grid (s : Scr) (y1 y2 : Nat) (d : Int) (h12 : y1 ≤ y2) (h2 : y2 < s.h) :
    (s.scroll y1 y2 d).grid =
      s.grid.take y1 ++
        (if d ≥ 0 then
          List.replicate (min d.natAbs (y2 - y1 + 1)) (blankRow s.w s.sty) ++
            (((s.grid.drop y1).take (y2 - y1 + 1)).take (y2 - y1 + 1 - min d.natAbs (y2 - y1 + 1)))
         else ((s.grid.drop y1).take (y2 - y1 + 1)).drop (min d.natAbs (y2 - y1 + 1)) ++
            List.replicate (min d.natAbs (y2 - y1 + 1)) (blankRow s.w s.sty)) ++
        s.grid.drop (y1 + (y2 - y1 + 1)) := by
  have : ¬ (y1 > y2 ∨ y2 ≥ s.h) := by omega
  have e : y1 + (y2 - y1 + 1) = y2 + 1 := by omega
  simp [Scr.scroll, this, e]

/-- scrolling touches nothing but the grid: cursor, saved cursor, margins, wrap flag, rendition
    and size stay -/
theorem scroll_attrs (s : Scr) (y1 y2 : Nat) (d : Int) :
    (s.scroll y1 y2 d).w = s.w ∧ (s.scroll y1 y2 d).h = s.h ∧
    (s.scroll y1 y2 d).cx = s.cx ∧ (s.scroll y1 y2 d).cy = s.cy ∧
    (s.scroll y1 y2 d).sx = s.sx ∧ (s.scroll y1 y2 d).sy = s.sy ∧
    (s.scroll y1 y2 d).top = s.top ∧ (s.scroll y1 y2 d).bot = s.bot ∧
    (s.scroll y1 y2 d).wrap = s.wrap ∧ (s.scroll y1 y2 d).sty = s.sty := by
  unfold Scr.scroll
  split <;> simp

/-- the number of rows never changes -/
theorem scroll_length (s : Scr) (y1 y2 : Nat) (d : Int) (hlen : s.grid.length = s.h) :
    (s.scroll y1 y2 d).grid.length = s.grid.length := by
  by_cases h : y1 > y2 ∨ y2 ≥ s.h
  · rw [scroll_noop s y1 y2 d h]
  · rw [scroll_grid s y1 y2 d (by omega) (by omega)]
    split <;> simp <;> omega

/-- Pointwise description of the grid after `scroll y1 y2 d`: `k = min |d| (y2-y1+1)` rows are
    vacated at the leading edge and filled with `b`, every other row of the range is the old row
    `k` places away, rows outside the range are the old rows. -/
def shiftedRow (g : List Row) (b : Row) (y1 y2 : Nat) (d : Int) (y : Nat) : Option Row :=
  if y < y1 ∨ y2 < y then g[y]?
  else if 0 ≤ d then
    (if y < y1 + min d.natAbs (y2 - y1 + 1) then some b else g[y - min d.natAbs (y2 - y1 + 1)]?)
  else
    (if y + min d.natAbs (y2 - y1 + 1) ≤ y2 then g[y + min d.natAbs (y2 - y1 + 1)]? else some b)

/-- **every row after a scroll**, any count, any valid range -/
theorem scroll_spec (s : Scr) (y1 y2 : Nat) (d : Int) (hlen : s.grid.length = s.h)
    (h12 : y1 ≤ y2) (h2 : y2 < s.h) (y : Nat) :
    (s.scroll y1 y2 d).grid[y]? = shiftedRow s.grid (blankRow s.w s.sty) y1 y2 d y := by
  rw [scroll_grid s y1 y2 d h12 h2]
  unfold shiftedRow
  have hk : min d.natAbs (y2 - y1 + 1) ≤ y2 - y1 + 1 := Nat.min_le_right _ _
  generalize min d.natAbs (y2 - y1 + 1) = k at hk ⊢
  have hreg : ((s.grid.drop y1).take (y2 - y1 + 1)).length = y2 - y1 + 1 := by
    simp; omega
  rw [splice_getElem? _ _ _ (y2 - y1 + 1) _ (by omega)]
  · by_cases c1 : y < y1
    · simp [c1]
    · by_cases c2 : y2 < y
      · have : ¬ y < y1 + (y2 - y1 + 1) := by omega
        simp [c1, c2, this]
      · have c3 : y < y1 + (y2 - y1 + 1) := by omega
        have c4 : ¬ (y < y1 ∨ y2 < y) := by omega
        have hi : y - y1 < y2 - y1 + 1 := by omega
        rw [if_neg c1, if_pos c3, if_neg c4]
        by_cases hd : 0 ≤ d
        · have hd' : d ≥ 0 := hd
          rw [if_pos hd', if_pos hd, regionDown_getElem? _ _ _ _ hk _ hi]
          by_cases c5 : y < y1 + k
          · have : y - y1 < k := by omega
            simp [c5, this]
          · have : ¬ y - y1 < k := by omega
            have e : y1 + (y - y1 - k) = y - k := by omega
            rw [if_neg c5, if_neg this, region_getElem? _ _ _ _ (by omega), e]
        · have hd' : ¬ d ≥ 0 := hd
          rw [if_neg hd', if_neg hd, regionUp_getElem? _ _ _ _ hreg hk _ hi]
          by_cases c5 : y + k ≤ y2
          · have : y - y1 + k < y2 - y1 + 1 := by omega
            have e : y1 + (y - y1 + k) = y + k := by omega
            rw [if_pos c5, if_pos this, region_getElem? _ _ _ _ this, e]
          · have : ¬ y - y1 + k < y2 - y1 + 1 := by omega
            rw [if_neg c5, if_neg this]
  · split <;> simp <;> omega

/-- **frame**: rows above `y1` and below `y2` are never modified — for every count, every range
    (also an invalid one) -/
theorem scroll_frame (s : Scr) (y1 y2 : Nat) (d : Int) (hlen : s.grid.length = s.h) (y : Nat)
    (hy : y < y1 ∨ y2 < y) : (s.scroll y1 y2 d).grid[y]? = s.grid[y]? := by
  by_cases h : y1 > y2 ∨ y2 ≥ s.h
  · rw [scroll_noop s y1 y2 d h]
  · rw [scroll_spec s y1 y2 d hlen (by omega) (by omega)]
    simp [shiftedRow, hy]

/-- **scroll down** (`d ≥ 0`, SD / IL / RI): the first `k = min d (y2-y1+1)` rows of the range
    are blank in the current rendition, row `y` below them is the old row `y - k` -/
theorem scroll_rows_down (s : Scr) (y1 y2 : Nat) (d : Int) (hlen : s.grid.length = s.h)
    (h2 : y2 < s.h) (hd : 0 ≤ d) (y : Nat) (hy1 : y1 ≤ y) (hy2 : y ≤ y2) :
    (s.scroll y1 y2 d).grid[y]? =
      if y < y1 + min d.toNat (y2 - y1 + 1) then some (blankRow s.w s.sty)
      else s.grid[y - min d.toNat (y2 - y1 + 1)]? := by
  rw [scroll_spec s y1 y2 d hlen (by omega) h2]
  have c : ¬ (y < y1 ∨ y2 < y) := by omega
  have e : d.natAbs = d.toNat := by omega
  simp [shiftedRow, c, hd, e]

/-- **scroll up** (`d < 0`, SU / DL / LF / IND / autowrap): row `y` is the old row `y + k` while
    that is inside the range, the last `k = min |d| (y2-y1+1)` rows are blank in the current
    rendition -/
theorem scroll_rows_up (s : Scr) (y1 y2 : Nat) (d : Int) (hlen : s.grid.length = s.h)
    (h2 : y2 < s.h) (hd : d < 0) (y : Nat) (hy1 : y1 ≤ y) (hy2 : y ≤ y2) :
    (s.scroll y1 y2 d).grid[y]? =
      if y + min (-d).toNat (y2 - y1 + 1) ≤ y2 then s.grid[y + min (-d).toNat (y2 - y1 + 1)]?
      else some (blankRow s.w s.sty) := by
  rw [scroll_spec s y1 y2 d hlen (by omega) h2]
  have c : ¬ (y < y1 ∨ y2 < y) := by omega
  have hd' : ¬ 0 ≤ d := by omega
  have e : d.natAbs = (-d).toNat := by omega
  simp [shiftedRow, c, hd', e]

/-- **a count at least as large as the range clears it** (either direction, however large) -/
theorem scroll_big (s : Scr) (y1 y2 : Nat) (d : Int) (hlen : s.grid.length = s.h)
    (h2 : y2 < s.h) (hd : y2 - y1 + 1 ≤ d.natAbs) (y : Nat) (hy1 : y1 ≤ y) (hy2 : y ≤ y2) :
    (s.scroll y1 y2 d).grid[y]? = some (blankRow s.w s.sty) := by
  rw [scroll_spec s y1 y2 d hlen (by omega) h2]
  have c : ¬ (y < y1 ∨ y2 < y) := by omega
  have e : min d.natAbs (y2 - y1 + 1) = y2 - y1 + 1 := by omega
  have c1 : y < y1 + (y2 - y1 + 1) := by omega
  have c2 : ¬ y + (y2 - y1 + 1) ≤ y2 := by omega
  simp [shiftedRow, c, e, c1, c2]

/-- the count is limited to the height of the range: a larger one acts like the height -/
theorem scroll_clamp (s : Scr) (y1 y2 : Nat) (d : Int) (hd : y2 - y1 + 1 ≤ d.natAbs) :
    s.scroll y1 y2 d =
      s.scroll y1 y2 (if 0 ≤ d then ((y2 - y1 + 1 : Nat) : Int) else -((y2 - y1 + 1 : Nat) : Int)) := by
  unfold Scr.scroll
  by_cases h : y1 > y2 ∨ y2 ≥ s.h
  · simp [h]
  · by_cases c : 0 ≤ d
    · have c' : d ≥ 0 := c
      have e1 : min d.natAbs (y2 - y1 + 1) = y2 - y1 + 1 := by omega
      have c2 : ((y2 - y1 + 1 : Nat) : Int) ≥ 0 := by omega
      simp only [h, if_false, c, if_true, e1, c2, Int.natAbs_natCast, Nat.min_self]
    · have c' : ¬ d ≥ 0 := c
      have e1 : min d.natAbs (y2 - y1 + 1) = y2 - y1 + 1 := by omega
      have c2 : ¬ (-((y2 - y1 + 1 : Nat) : Int)) ≥ 0 := by omega
      simp only [h, if_false, c, e1, c2, Int.natAbs_neg, Int.natAbs_natCast, Nat.min_self]

/-- a count of 0 changes nothing -/
theorem scroll_zero (s : Scr) (y1 y2 : Nat) : s.scroll y1 y2 0 = s := by
  unfold Scr.scroll
  split
  · rfl
  · have e : y2 + 1 = y1 + (y2 - y1 + 1) := by omega
    have : s.grid.take y1 ++ (((s.grid.drop y1).take (y2 - y1 + 1)).take (y2 - y1 + 1) ++
        s.grid.drop (y2 + 1)) = s.grid := by
      rw [List.take_take, Nat.min_self, e, ← List.drop_drop, List.take_append_drop,
        List.take_append_drop]
    simp [this]

/-- `Scr.row` (the accessor the rest of the model uses) follows `grid[·]?` -/
theorem row_congr {s s' : Scr} {y y' : Nat} (h : s'.grid[y]? = s.grid[y']?) : s'.row y = s.row y' := by
  unfold Scr.row
  rw [List.getD_eq_getElem?_getD, List.getD_eq_getElem?_getD, h]

/-- **cell by cell** — text and attributes intact, blanks in the current attributes: inside the
    range, cell `(x, y)` after the scroll is the old cell `(x, y ∓ k)` (glyph bytes, width mark
    and style, because `Cell` is compared whole) and on a vacated row it is a space carrying
    the current style `s.sty` for every column `x < w` (and there is no cell at `x ≥ w`) -/
theorem scroll_cell (s : Scr) (y1 y2 : Nat) (d : Int) (hlen : s.grid.length = s.h)
    (h2 : y2 < s.h) (x y : Nat) (hy1 : y1 ≤ y) (hy2 : y ≤ y2) :
    ((s.scroll y1 y2 d).row y)[x]? =
      if 0 ≤ d then
        (if y < y1 + min d.natAbs (y2 - y1 + 1)
          then (if x < s.w then some ⟨.ch [0x20] 1, s.sty⟩ else none)
          else (s.row (y - min d.natAbs (y2 - y1 + 1)))[x]?)
      else
        (if y + min d.natAbs (y2 - y1 + 1) ≤ y2
          then (s.row (y + min d.natAbs (y2 - y1 + 1)))[x]?
          else (if x < s.w then some ⟨.ch [0x20] 1, s.sty⟩ else none)) := by
  have sp := scroll_spec s y1 y2 d hlen (by omega) h2 y
  have c : ¬ (y < y1 ∨ y2 < y) := by omega
  have bl : (blankRow s.w s.sty)[x]? = if x < s.w then some ⟨.ch [0x20] 1, s.sty⟩ else none := by
    simp [blankRow, blank, List.getElem?_replicate]
  have rb : ∀ s' : Scr, s'.grid[y]? = some (blankRow s.w s.sty) → s'.row y = blankRow s.w s.sty := by
    intro s' h; unfold Scr.row; rw [List.getD_eq_getElem?_getD, h]; rfl
  unfold shiftedRow at sp
  rw [if_neg c] at sp
  by_cases hd : 0 ≤ d
  · rw [if_pos hd] at sp ⊢
    split
    · rename_i c1; rw [if_pos c1] at sp; rw [rb _ sp, bl]
    · rename_i c1; rw [if_neg c1] at sp; rw [row_congr sp]
  · rw [if_neg hd] at sp ⊢
    split
    · rename_i c1; rw [if_pos c1] at sp; rw [row_congr sp]
    · rename_i c1; rw [if_neg c1] at sp; rw [rb _ sp, bl]

/-- scrolling keeps the three facts it relies on -/
theorem scroll_RegionOK (s : Scr) (y1 y2 : Nat) (d : Int) (ok : RegionOK s) :
    RegionOK (s.scroll y1 y2 d) := by
  obtain ⟨a, b, c⟩ := scroll_attrs s y1 y2 d
  unfold RegionOK
  rw [scroll_length s y1 y2 d ok.1, b, c.2.2.2.2.1, c.2.2.2.2.2.1]
  exact ok

/-! ## 3. DECSTBM (`Scr.setMargins`, `CSI t ; b r`) -/

/-- `clampNat v hi` is `v` brought into `[0, hi]` -/
theorem clampNat_spec (v : Int) (hi : Nat) :
    (v ≤ 0 → clampNat v hi = 0) ∧ (0 ≤ v → v ≤ hi → (clampNat v hi : Int) = v) ∧
    ((hi : Int) ≤ v → clampNat v hi = hi) := by
  unfold clampNat; omega

/-- DECSTBM touches nothing but the two margins -/
theorem setMargins_attrs (s : Scr) (t b : Int) :
    (s.setMargins t b).w = s.w ∧ (s.setMargins t b).h = s.h ∧ (s.setMargins t b).grid = s.grid ∧
    (s.setMargins t b).cx = s.cx ∧ (s.setMargins t b).cy = s.cy ∧
    (s.setMargins t b).sx = s.sx ∧ (s.setMargins t b).sy = s.sy ∧
    (s.setMargins t b).wrap = s.wrap ∧ (s.setMargins t b).sty = s.sty := by
  unfold Scr.setMargins
  simp only []
  split
  · simp
  · split <;> simp

/-- whatever is requested (valid, inverted, negative, beyond the screen), the margins afterwards
    satisfy `top ≤ bot < h` -/
theorem setMargins_wf (s : Scr) (t b : Int) (h : s.top ≤ s.bot ∧ s.bot < s.h) :
    (s.setMargins t b).top ≤ (s.setMargins t b).bot ∧ (s.setMargins t b).bot < (s.setMargins t b).h := by
  unfold Scr.setMargins clampNat
  simp only []
  split
  · exact h
  split
  · exact h
  · simp only []; omega

theorem setMargins_RegionOK (s : Scr) (t b : Int) (ok : RegionOK s) : RegionOK (s.setMargins t b) := by
  have a := setMargins_attrs s t b
  have w := setMargins_wf s t b ok.2
  unfold RegionOK
  rw [a.2.2.1]
  rw [a.2.1] at w
  rw [a.2.1]
  exact ⟨ok.1, w⟩

/-- clamping to the screen is monotone: a request that is not inverted as given is not inverted
    after clamping either (so the second test of `Scr.setMargins` never fires) -/
theorem stbm_clamp_mono (t b : Int) (h : Nat) (hle : t ≤ b) :
    ¬ clampNat t (h - 1) > clampNat b (h - 1) := by
  unfold clampNat; omega

/-- "the top lies below the bottom after clamping to the screen", in terms of the request:
    the (non-negative part of the) bottom is above the requested top and above the last row -/
theorem stbm_inverted_iff (t b : Int) (h : Nat) :
    clampNat t (h - 1) > clampNat b (h - 1) ↔ (max b 0 < t ∧ max b 0 < (h : Int) - 1) := by
  unfold clampNat; omega

/-- **an inverted request is ignored**: whenever the top lies below the bottom *as requested*
    (also when both lie beyond the screen, where clamping would make them equal) the screen is
    exactly what it was -/
theorem stbm_inverted_ignored_raw (s : Scr) (t b : Int) (hinv : b < t) : s.setMargins t b = s := by
  simp [Scr.setMargins, hinv]

/-- the same in the form used below: the bottom (its non-negative part) above the top -/
theorem stbm_inverted_ignored (s : Scr) (t b : Int)
    (hinv : max b 0 < t ∧ max b 0 < (s.h : Int) - 1) : s.setMargins t b = s :=
  stbm_inverted_ignored_raw s t b (by omega)

/-- every request that is not inverted installs the two values clamped to `[0, h-1]` -/
theorem stbm_sets (s : Scr) (t b : Int) (hle : t ≤ b) :
    (s.setMargins t b).top = clampNat t (s.h - 1) ∧ (s.setMargins t b).bot = clampNat b (s.h - 1) := by
  have h1 : ¬ t > b := by omega
  have h2 := stbm_clamp_mono t b s.h hle
  simp [Scr.setMargins, h1, h2]

/-- **ignored iff inverted**: the margins change only for requests with `t ≤ b` -/
theorem stbm_ignored_iff (s : Scr) (t b : Int) (hne : (s.top, s.bot) ≠ (clampNat t (s.h - 1), clampNat b (s.h - 1))) :
    s.setMargins t b = s ↔ b < t := by
  constructor
  · intro h
    by_cases hlt : b < t
    · exact hlt
    · have hs := stbm_sets s t b (by omega)
      rw [h] at hs
      exact absurd (Prod.ext hs.1 hs.2) hne
  · exact stbm_inverted_ignored_raw s t b

/-- a valid pair is installed as given -/
theorem stbm_valid (s : Scr) (t b : Nat) (h1 : t ≤ b) (h2 : b < s.h) :
    (s.setMargins t b).top = t ∧ (s.setMargins t b).bot = b := by
  have hle : (t : Int) ≤ b := by omega
  rw [(stbm_sets s t b hle).1, (stbm_sets s t b hle).2]
  unfold clampNat; omega

/-- a bottom beyond the screen means the last row; a top beyond the screen (but not below the
    bottom) gives the one-row region at the last row -/
theorem stbm_out_of_range (s : Scr) (t b : Int) (hb : (s.h : Int) - 1 ≤ b) (hle : t ≤ b) :
    (s.setMargins t b).top = min t.toNat (s.h - 1) ∧ (s.setMargins t b).bot = s.h - 1 := by
  rw [(stbm_sets s t b hle).1, (stbm_sets s t b hle).2]
  unfold clampNat; omega

/-! ## 4. the implicit scroll: `lineDown` (LF, FF, IND, autowrap), `lineUp` (RI) -/

/-- `lineDown` changes the cursor row or the grid, nothing else -/
theorem lineDown_attrs (s : Scr) :
    s.lineDown.w = s.w ∧ s.lineDown.h = s.h ∧ s.lineDown.cx = s.cx ∧
    s.lineDown.sx = s.sx ∧ s.lineDown.sy = s.sy ∧ s.lineDown.top = s.top ∧ s.lineDown.bot = s.bot ∧
    s.lineDown.wrap = s.wrap ∧ s.lineDown.sty = s.sty := by
  unfold Scr.lineDown
  split
  · have := scroll_attrs s s.top s.bot (-1); simp [this]
  · split <;> simp

theorem lineUp_attrs (s : Scr) :
    s.lineUp.w = s.w ∧ s.lineUp.h = s.h ∧ s.lineUp.cx = s.cx ∧
    s.lineUp.sx = s.sx ∧ s.lineUp.sy = s.sy ∧ s.lineUp.top = s.top ∧ s.lineUp.bot = s.bot ∧
    s.lineUp.wrap = s.wrap ∧ s.lineUp.sty = s.sty := by
  unfold Scr.lineUp
  split
  · have := scroll_attrs s s.top s.bot 1; simp [this]
  · split <;> simp

/-- **on the bottom margin** the region scrolls up by one row: row `y` of the region becomes the
    old row `y+1`, the bottom row becomes blank in the current rendition, rows outside the region
    are the old rows, the cursor stays where it is -/
theorem lineDown_scrolls (s : Scr) (ok : RegionOK s) (hc : s.cy = s.bot) (y : Nat) :
    s.lineDown.cy = s.cy ∧
    s.lineDown.grid.length = s.grid.length ∧
    s.lineDown.grid[y]? =
      if y < s.top ∨ s.bot < y then s.grid[y]?
      else if y < s.bot then s.grid[y + 1]? else some (blankRow s.w s.sty) := by
  have e : s.lineDown = s.scroll s.top s.bot (-1) := by simp [Scr.lineDown, hc]
  rw [e]
  refine ⟨(scroll_attrs s _ _ _).2.2.2.1, scroll_length s _ _ _ ok.1, ?_⟩
  by_cases c : y < s.top ∨ s.bot < y
  · rw [if_pos c]; exact scroll_frame s _ _ _ ok.1 y c
  · rw [if_neg c, scroll_rows_up s _ _ _ ok.1 ok.2.2 (by omega) y (by omega) (by omega)]
    have e1 : min (-(-1 : Int)).toNat (s.bot - s.top + 1) = 1 := by omega
    rw [e1]
    by_cases c2 : y < s.bot
    · have : y + 1 ≤ s.bot := by omega
      rw [if_pos c2, if_pos this]
    · have : ¬ y + 1 ≤ s.bot := by omega
      rw [if_neg c2, if_neg this]

/-- **anywhere else** (inside the region above its bottom row, or outside the region) nothing
    scrolls: the grid is untouched and the cursor moves down one row unless it is on the last row
    of the screen -/
theorem lineDown_moves (s : Scr) (hc : s.cy ≠ s.bot) :
    s.lineDown.grid = s.grid ∧ s.lineDown.cy = if s.cy + 1 < s.h then s.cy + 1 else s.cy := by
  unfold Scr.lineDown
  rw [if_neg hc]
  split <;> simp

/-- in every case the rows outside the scrolling region survive a `lineDown` -/
theorem lineDown_frame (s : Scr) (hlen : s.grid.length = s.h) (y : Nat) (hy : y < s.top ∨ s.bot < y) :
    s.lineDown.grid[y]? = s.grid[y]? := by
  by_cases hc : s.cy = s.bot
  · have e : s.lineDown = s.scroll s.top s.bot (-1) := by simp [Scr.lineDown, hc]
    rw [e]; exact scroll_frame s _ _ _ hlen y hy
  · rw [(lineDown_moves s hc).1]

/-- **on the top margin** the region scrolls down by one row: the top row becomes blank in the
    current rendition, row `y` below it becomes the old row `y-1`, rows outside the region are
    the old rows, the cursor stays where it is -/
theorem lineUp_scrolls (s : Scr) (ok : RegionOK s) (hc : s.cy = s.top) (y : Nat) :
    s.lineUp.cy = s.cy ∧
    s.lineUp.grid.length = s.grid.length ∧
    s.lineUp.grid[y]? =
      if y < s.top ∨ s.bot < y then s.grid[y]?
      else if y = s.top then some (blankRow s.w s.sty) else s.grid[y - 1]? := by
  have e : s.lineUp = s.scroll s.top s.bot 1 := by simp [Scr.lineUp, hc]
  rw [e]
  refine ⟨(scroll_attrs s _ _ _).2.2.2.1, scroll_length s _ _ _ ok.1, ?_⟩
  by_cases c : y < s.top ∨ s.bot < y
  · rw [if_pos c]; exact scroll_frame s _ _ _ ok.1 y c
  · rw [if_neg c, scroll_rows_down s _ _ _ ok.1 ok.2.2 (by omega) y (by omega) (by omega)]
    have e1 : min (1 : Int).toNat (s.bot - s.top + 1) = 1 := by omega
    rw [e1]
    by_cases c2 : y = s.top
    · have : y < s.top + 1 := by omega
      rw [if_pos c2, if_pos this]
    · have : ¬ y < s.top + 1 := by omega
      rw [if_neg c2, if_neg this]

theorem lineUp_moves (s : Scr) (hc : s.cy ≠ s.top) :
    s.lineUp.grid = s.grid ∧ s.lineUp.cy = s.cy - 1 := by
  unfold Scr.lineUp
  rw [if_neg hc]
  split
  · simp
  · simp; omega

theorem lineUp_frame (s : Scr) (hlen : s.grid.length = s.h) (y : Nat) (hy : y < s.top ∨ s.bot < y) :
    s.lineUp.grid[y]? = s.grid[y]? := by
  by_cases hc : s.cy = s.top
  · have e : s.lineUp = s.scroll s.top s.bot 1 := by simp [Scr.lineUp, hc]
    rw [e]; exact scroll_frame s _ _ _ hlen y hy
  · rw [(lineUp_moves s hc).1]

/-! ## 2. SU, SD, IL, DL, DECSTBM, LF, FF, IND, RI as tokens

Two readable forms of `scroll_spec` for a non-negative count `n` (what a CSI parameter is). -/

/-- scroll the range up by `n ≥ 0` (the model is called with `-n`) -/
theorem scroll_up_rows (s : Scr) (y1 y2 : Nat) (n : Int) (hn : 0 ≤ n) (hlen : s.grid.length = s.h)
    (h2 : y2 < s.h) (y : Nat) :
    (s.scroll y1 y2 (-n)).grid[y]? =
      if y < y1 ∨ y2 < y then s.grid[y]?
      else if y + min n.toNat (y2 - y1 + 1) ≤ y2 then s.grid[y + min n.toNat (y2 - y1 + 1)]?
      else some (blankRow s.w s.sty) := by
  by_cases c : y < y1 ∨ y2 < y
  · rw [if_pos c]; exact scroll_frame s _ _ _ hlen y c
  · rw [if_neg c]
    by_cases h0 : n = 0
    · subst h0
      have : y + min (0 : Int).toNat (y2 - y1 + 1) = y := by simp
      rw [Int.neg_zero, scroll_zero, this, if_pos (by omega)]
    · rw [scroll_rows_up s y1 y2 (-n) hlen h2 (by omega) y (by omega) (by omega), Int.neg_neg]

/-- scroll the range down by `n ≥ 0` -/
theorem scroll_down_rows (s : Scr) (y1 y2 : Nat) (n : Int) (hn : 0 ≤ n) (hlen : s.grid.length = s.h)
    (h2 : y2 < s.h) (y : Nat) :
    (s.scroll y1 y2 n).grid[y]? =
      if y < y1 ∨ y2 < y then s.grid[y]?
      else if y < y1 + min n.toNat (y2 - y1 + 1) then some (blankRow s.w s.sty)
      else s.grid[y - min n.toNat (y2 - y1 + 1)]? := by
  by_cases c : y < y1 ∨ y2 < y
  · rw [if_pos c]; exact scroll_frame s _ _ _ hlen y c
  · rw [if_neg c, scroll_rows_down s y1 y2 n hlen h2 hn y (by omega) (by omega)]

/-! ### the active buffer of a terminal -/

theorem scr_setScr (t : Term) (s : Scr) : (t.setScr s).scr = s := by
  unfold Term.setScr Term.scr
  cases h : t.onAlt <;> simp

theorem setScr_scr (t : Term) : t.setScr t.scr = t := by
  unfold Term.setScr Term.scr
  cases h : t.onAlt <;> simp
  · cases t; simp_all
  · cases t; simp_all

/-- replacing the active buffer leaves the other buffer and all the rest of the terminal alone -/
theorem setScr_rest (t : Term) (s : Scr) :
    (t.setScr s).onAlt = t.onAlt ∧ (t.setScr s).pol = t.pol ∧
    (t.onAlt = true → (t.setScr s).main = t.main) ∧ (t.onAlt = false → (t.setScr s).alt = t.alt) ∧
    (t.setScr s).vflags = t.vflags ∧ (t.setScr s).vints = t.vints ∧ (t.setScr s).vstrs = t.vstrs ∧
    (t.setScr s).kmain = t.kmain ∧ (t.setScr s).kalt = t.kalt := by
  unfold Term.setScr
  cases h : t.onAlt <;> simp

/-! ### dispatch (helpers: which model function a token reaches) -/

theorem su_dispatch (cw : Nat → Nat) (t : Term) (ps : List Int) :
    Term.apply cw t (.csi 0 ps true 0x53) =
      (t.setScr (t.scr.scroll t.scr.top t.scr.bot (-(p0 ps 1))),
        [.region 0 t.scr.top t.scr.w (t.scr.bot + 1) 2]) := by
  simp [Term.apply, Term.csi, Term.csiPlain]

theorem sd_dispatch (cw : Nat → Nat) (t : Term) (ps : List Int) :
    Term.apply cw t (.csi 0 ps true 0x54) =
      (t.setScr (t.scr.scroll t.scr.top t.scr.bot (p0 ps 1)),
        [.region 0 t.scr.top t.scr.w (t.scr.bot + 1) 2]) := by
  simp [Term.apply, Term.csi, Term.csiPlain]

theorem il_dispatch (cw : Nat → Nat) (t : Term) (ps : List Int) (hin : t.scr.inRegion = true) :
    Term.apply cw t (.csi 0 ps true 0x4c) =
      (t.setScr (t.scr.scroll t.scr.cy t.scr.bot (p0 ps 1)),
        [.region 0 t.scr.cy t.scr.w (t.scr.bot + 1) 2]) := by
  simp [Term.apply, Term.csi, Term.csiPlain, hin]

theorem dl_dispatch (cw : Nat → Nat) (t : Term) (ps : List Int) (hin : t.scr.inRegion = true) :
    Term.apply cw t (.csi 0 ps true 0x4d) =
      (t.setScr (t.scr.scroll t.scr.cy t.scr.bot (-(p0 ps 1))),
        [.region 0 t.scr.cy t.scr.w (t.scr.bot + 1) 2]) := by
  simp [Term.apply, Term.csi, Term.csiPlain, hin]

theorem stbm_dispatch (cw : Nat → Nat) (t : Term) (ps : List Int) :
    Term.apply cw t (.csi 0 ps true 0x72) =
      (t.setScr (t.scr.setMargins (pAt ps 0 1 - 1) (pAt ps 1 t.scr.h - 1)), []) := by
  simp [Term.apply, Term.csi, Term.csiPlain]

theorem inRegion_iff (s : Scr) : s.inRegion = true ↔ s.top ≤ s.cy ∧ s.cy ≤ s.bot := by
  simp [Scr.inRegion]

/-! ### SU / SD -/

/-- **`CSI n S`** (scroll up) with `n ≥ 0`, `k = min n (region height)`: row `y` of the region is
    the old row `y + k` while that is in the region and blank (current rendition) otherwise; rows
    outside `[top, bot]` are the old rows; cursor, margins, rendition and size stay; the damage
    report names the region. -/
theorem su_rows (cw : Nat → Nat) (t : Term) (ps : List Int) (ok : RegionOK t.scr)
    (hn : 0 ≤ p0 ps 1) (y : Nat) :
    let s := t.scr
    let r := Term.apply cw t (.csi 0 ps true 0x53)
    let s' := r.1.scr
    let k := min (p0 ps 1).toNat (s.bot - s.top + 1)
    s'.grid.length = s.grid.length ∧
    s'.grid[y]? = (if y < s.top ∨ s.bot < y then s.grid[y]?
                   else if y + k ≤ s.bot then s.grid[y + k]? else some (blankRow s.w s.sty)) ∧
    s'.cx = s.cx ∧ s'.cy = s.cy ∧ s'.top = s.top ∧ s'.bot = s.bot ∧ s'.sty = s.sty ∧
    s'.w = s.w ∧ s'.h = s.h ∧
    r.2 = [.region 0 s.top s.w (s.bot + 1) 2] := by
  intro s r s' k
  have e : s' = s.scroll s.top s.bot (-(p0 ps 1)) := by
    simp only [s', r, su_dispatch, scr_setScr, s]
  have a := scroll_attrs s s.top s.bot (-(p0 ps 1))
  rw [e]
  refine ⟨scroll_length s _ _ _ ok.1, scroll_up_rows s _ _ _ hn ok.1 ok.2.2 y,
    a.2.2.1, a.2.2.2.1, a.2.2.2.2.2.2.1, a.2.2.2.2.2.2.2.1, a.2.2.2.2.2.2.2.2.2, a.1, a.2.1, ?_⟩
  simp only [r, su_dispatch, s]

/-- **`CSI n T`** (scroll down) with `n ≥ 0`: the first `k = min n (region height)` rows of the
    region are blank, row `y` below them is the old row `y - k`; everything else as for SU -/
theorem sd_rows (cw : Nat → Nat) (t : Term) (ps : List Int) (ok : RegionOK t.scr)
    (hn : 0 ≤ p0 ps 1) (y : Nat) :
    let s := t.scr
    let r := Term.apply cw t (.csi 0 ps true 0x54)
    let s' := r.1.scr
    let k := min (p0 ps 1).toNat (s.bot - s.top + 1)
    s'.grid.length = s.grid.length ∧
    s'.grid[y]? = (if y < s.top ∨ s.bot < y then s.grid[y]?
                   else if y < s.top + k then some (blankRow s.w s.sty) else s.grid[y - k]?) ∧
    s'.cx = s.cx ∧ s'.cy = s.cy ∧ s'.top = s.top ∧ s'.bot = s.bot ∧ s'.sty = s.sty ∧
    s'.w = s.w ∧ s'.h = s.h ∧
    r.2 = [.region 0 s.top s.w (s.bot + 1) 2] := by
  intro s r s' k
  have e : s' = s.scroll s.top s.bot (p0 ps 1) := by
    simp only [s', r, sd_dispatch, scr_setScr, s]
  have a := scroll_attrs s s.top s.bot (p0 ps 1)
  rw [e]
  refine ⟨scroll_length s _ _ _ ok.1, scroll_down_rows s _ _ _ hn ok.1 ok.2.2 y,
    a.2.2.1, a.2.2.2.1, a.2.2.2.2.2.2.1, a.2.2.2.2.2.2.2.1, a.2.2.2.2.2.2.2.2.2, a.1, a.2.1, ?_⟩
  simp only [r, sd_dispatch, s]

/-! ### IL / DL -/

/-- **`CSI n L`** (insert lines) with the cursor inside the region, `n ≥ 0`,
    `k = min n (bot - cy + 1)`: rows `cy … cy+k-1` are blank, row `y` below them (down to `bot`)
    is the old row `y - k`; rows above the cursor row and below the bottom margin are the old
    rows; the cursor does not move. -/
theorem il_rows (cw : Nat → Nat) (t : Term) (ps : List Int) (ok : RegionOK t.scr)
    (hin : t.scr.top ≤ t.scr.cy ∧ t.scr.cy ≤ t.scr.bot) (hn : 0 ≤ p0 ps 1) (y : Nat) :
    let s := t.scr
    let r := Term.apply cw t (.csi 0 ps true 0x4c)
    let s' := r.1.scr
    let k := min (p0 ps 1).toNat (s.bot - s.cy + 1)
    s'.grid.length = s.grid.length ∧
    s'.grid[y]? = (if y < s.cy ∨ s.bot < y then s.grid[y]?
                   else if y < s.cy + k then some (blankRow s.w s.sty) else s.grid[y - k]?) ∧
    s'.cx = s.cx ∧ s'.cy = s.cy ∧ s'.top = s.top ∧ s'.bot = s.bot ∧ s'.sty = s.sty ∧
    s'.w = s.w ∧ s'.h = s.h ∧
    r.2 = [.region 0 s.cy s.w (s.bot + 1) 2] := by
  intro s r s' k
  have hr := (inRegion_iff t.scr).2 hin
  have e : s' = s.scroll s.cy s.bot (p0 ps 1) := by
    simp only [s', r, il_dispatch cw t ps hr, scr_setScr, s]
  have a := scroll_attrs s s.cy s.bot (p0 ps 1)
  rw [e]
  refine ⟨scroll_length s _ _ _ ok.1, scroll_down_rows s _ _ _ hn ok.1 ok.2.2 y,
    a.2.2.1, a.2.2.2.1, a.2.2.2.2.2.2.1, a.2.2.2.2.2.2.2.1, a.2.2.2.2.2.2.2.2.2, a.1, a.2.1, ?_⟩
  simp only [r, il_dispatch cw t ps hr, s]

/-- **`CSI n M`** (delete lines) with the cursor inside the region, `n ≥ 0`,
    `k = min n (bot - cy + 1)`: row `y` from the cursor row down is the old row `y + k` while that
    is not below `bot`, the last `k` rows up to `bot` are blank; rows above the cursor row and
    below the bottom margin are the old rows; the cursor does not move. -/
theorem dl_rows (cw : Nat → Nat) (t : Term) (ps : List Int) (ok : RegionOK t.scr)
    (hin : t.scr.top ≤ t.scr.cy ∧ t.scr.cy ≤ t.scr.bot) (hn : 0 ≤ p0 ps 1) (y : Nat) :
    let s := t.scr
    let r := Term.apply cw t (.csi 0 ps true 0x4d)
    let s' := r.1.scr
    let k := min (p0 ps 1).toNat (s.bot - s.cy + 1)
    s'.grid.length = s.grid.length ∧
    s'.grid[y]? = (if y < s.cy ∨ s.bot < y then s.grid[y]?
                   else if y + k ≤ s.bot then s.grid[y + k]? else some (blankRow s.w s.sty)) ∧
    s'.cx = s.cx ∧ s'.cy = s.cy ∧ s'.top = s.top ∧ s'.bot = s.bot ∧ s'.sty = s.sty ∧
    s'.w = s.w ∧ s'.h = s.h ∧
    r.2 = [.region 0 s.cy s.w (s.bot + 1) 2] := by
  intro s r s' k
  have hr := (inRegion_iff t.scr).2 hin
  have e : s' = s.scroll s.cy s.bot (-(p0 ps 1)) := by
    simp only [s', r, dl_dispatch cw t ps hr, scr_setScr, s]
  have a := scroll_attrs s s.cy s.bot (-(p0 ps 1))
  rw [e]
  refine ⟨scroll_length s _ _ _ ok.1, scroll_up_rows s _ _ _ hn ok.1 ok.2.2 y,
    a.2.2.1, a.2.2.2.1, a.2.2.2.2.2.2.1, a.2.2.2.2.2.2.2.1, a.2.2.2.2.2.2.2.2.2, a.1, a.2.1, ?_⟩
  simp only [r, dl_dispatch cw t ps hr, s]

/-- **IL and DL with the cursor outside the region do nothing at all**: the terminal is exactly
    what it was and nothing is reported, whatever the count -/
theorem il_dl_outside (cw : Nat → Nat) (t : Term) (ps : List Int) (fin : UInt8)
    (hf : fin = 0x4c ∨ fin = 0x4d) (hout : t.scr.cy < t.scr.top ∨ t.scr.bot < t.scr.cy) :
    Term.apply cw t (.csi 0 ps true fin) = (t, []) := by
  have hr : t.scr.inRegion = false := by
    cases h : t.scr.inRegion
    · rfl
    · have := (inRegion_iff t.scr).1 h; omega
  rcases hf with rfl | rfl <;> simp [Term.apply, Term.csi, Term.csiPlain, hr]

/-- **an absent count means 1** for all four (an explicit `0` stays `0`: see `scroll_zero`) -/
theorem count_default (cw : Nat → Nat) (t : Term) (fin : UInt8)
    (hf : fin = 0x4c ∨ fin = 0x4d ∨ fin = 0x53 ∨ fin = 0x54) :
    Term.apply cw t (.csi 0 [] true fin) = Term.apply cw t (.csi 0 [1] true fin) := by
  rcases hf with rfl | rfl | rfl | rfl <;> simp [Term.apply, Term.csi, Term.csiPlain, p0]

/-- an explicit count of `0` scrolls nothing (all four) -/
theorem count_zero (cw : Nat → Nat) (t : Term) (fin : UInt8)
    (hf : fin = 0x4c ∨ fin = 0x4d ∨ fin = 0x53 ∨ fin = 0x54) :
    (Term.apply cw t (.csi 0 [0] true fin)).1 = t := by
  rcases hf with rfl | rfl | rfl | rfl <;>
    simp [Term.apply, Term.csi, Term.csiPlain, p0, scroll_zero] <;>
    first | exact setScr_scr t | (split <;> simp [setScr_scr])

/-- **a count at least the region height clears the region** — SU and SD, any `n`, however
    large (also beyond `2^31`) -/
theorem su_sd_big (cw : Nat → Nat) (t : Term) (ps : List Int) (fin : UInt8)
    (hf : fin = 0x53 ∨ fin = 0x54) (ok : RegionOK t.scr)
    (hn : ((t.scr.bot - t.scr.top + 1 : Nat) : Int) ≤ p0 ps 1) (y : Nat)
    (hy : t.scr.top ≤ y ∧ y ≤ t.scr.bot) :
    (Term.apply cw t (.csi 0 ps true fin)).1.scr.grid[y]? = some (blankRow t.scr.w t.scr.sty) := by
  rcases hf with rfl | rfl
  · rw [su_dispatch, scr_setScr]
    exact scroll_big _ _ _ _ ok.1 ok.2.2 (by omega) y hy.1 hy.2
  · rw [sd_dispatch, scr_setScr]
    exact scroll_big _ _ _ _ ok.1 ok.2.2 (by omega) y hy.1 hy.2

/-- the same for IL and DL: a count at least `bot - cy + 1` blanks every row from the cursor row
    to the bottom margin -/
theorem il_dl_big (cw : Nat → Nat) (t : Term) (ps : List Int) (fin : UInt8)
    (hf : fin = 0x4c ∨ fin = 0x4d) (ok : RegionOK t.scr)
    (hin : t.scr.top ≤ t.scr.cy ∧ t.scr.cy ≤ t.scr.bot)
    (hn : ((t.scr.bot - t.scr.cy + 1 : Nat) : Int) ≤ p0 ps 1) (y : Nat)
    (hy : t.scr.cy ≤ y ∧ y ≤ t.scr.bot) :
    (Term.apply cw t (.csi 0 ps true fin)).1.scr.grid[y]? = some (blankRow t.scr.w t.scr.sty) := by
  have hr := (inRegion_iff t.scr).2 hin
  rcases hf with rfl | rfl
  · rw [il_dispatch cw t ps hr, scr_setScr]
    exact scroll_big _ _ _ _ ok.1 ok.2.2 (by omega) y hy.1 hy.2
  · rw [dl_dispatch cw t ps hr, scr_setScr]
    exact scroll_big _ _ _ _ ok.1 ok.2.2 (by omega) y hy.1 hy.2

/-- none of SU, SD, IL, DL, DECSTBM touches the inactive buffer or any other terminal state, and
    all keep `RegionOK` of the active buffer — for arbitrary parameters -/
theorem scroll_ops_rest (cw : Nat → Nat) (t : Term) (ps : List Int) (fin : UInt8)
    (hf : fin = 0x4c ∨ fin = 0x4d ∨ fin = 0x53 ∨ fin = 0x54 ∨ fin = 0x72) (ok : RegionOK t.scr) :
    let t' := (Term.apply cw t (.csi 0 ps true fin)).1
    RegionOK t'.scr ∧ t'.onAlt = t.onAlt ∧
    (t.onAlt = true → t'.main = t.main) ∧ (t.onAlt = false → t'.alt = t.alt) ∧
    t'.kmain = t.kmain ∧ t'.kalt = t.kalt ∧ t'.vflags = t.vflags ∧ t'.vints = t.vints ∧
    t'.vstrs = t.vstrs := by
  intro t'
  have key : ∃ s, RegionOK s ∧ t' = t.setScr s := by
    have hsu : t' = t.setScr (t.scr.scroll t.scr.top t.scr.bot (-(p0 ps 1))) →
        ∃ s, RegionOK s ∧ t' = t.setScr s := fun h => ⟨_, scroll_RegionOK _ _ _ _ ok, h⟩
    by_cases hr : t.scr.inRegion = true
    · rcases hf with rfl | rfl | rfl | rfl | rfl
      · exact ⟨t.scr.scroll t.scr.cy t.scr.bot (p0 ps 1), scroll_RegionOK _ _ _ _ ok,
          by simp only [t', il_dispatch cw t ps hr]⟩
      · exact ⟨t.scr.scroll t.scr.cy t.scr.bot (-(p0 ps 1)), scroll_RegionOK _ _ _ _ ok,
          by simp only [t', dl_dispatch cw t ps hr]⟩
      · exact hsu (by simp only [t', su_dispatch])
      · exact ⟨t.scr.scroll t.scr.top t.scr.bot (p0 ps 1), scroll_RegionOK _ _ _ _ ok,
          by simp only [t', sd_dispatch]⟩
      · exact ⟨t.scr.setMargins (pAt ps 0 1 - 1) (pAt ps 1 t.scr.h - 1),
          setMargins_RegionOK _ _ _ ok, by simp only [t', stbm_dispatch]⟩
    · have hout : t.scr.cy < t.scr.top ∨ t.scr.bot < t.scr.cy := by
        by_cases c : t.scr.top ≤ t.scr.cy ∧ t.scr.cy ≤ t.scr.bot
        · exact absurd ((inRegion_iff _).2 c) hr
        · omega
      rcases hf with rfl | rfl | rfl | rfl | rfl
      · exact ⟨t.scr, ok, by simp only [t', il_dl_outside cw t ps _ (Or.inl rfl) hout, setScr_scr]⟩
      · exact ⟨t.scr, ok, by simp only [t', il_dl_outside cw t ps _ (Or.inr rfl) hout, setScr_scr]⟩
      · exact hsu (by simp only [t', su_dispatch])
      · exact ⟨t.scr.scroll t.scr.top t.scr.bot (p0 ps 1), scroll_RegionOK _ _ _ _ ok,
          by simp only [t', sd_dispatch]⟩
      · exact ⟨t.scr.setMargins (pAt ps 0 1 - 1) (pAt ps 1 t.scr.h - 1),
          setMargins_RegionOK _ _ _ ok, by simp only [t', stbm_dispatch]⟩
  obtain ⟨s, hs, e⟩ := key
  have r := setScr_rest t s
  rw [e, scr_setScr]
  exact ⟨hs, r.1, r.2.2.1, r.2.2.2.1, r.2.2.2.2.2.2.2.1, r.2.2.2.2.2.2.2.2, r.2.2.2.2.1,
    r.2.2.2.2.2.1, r.2.2.2.2.2.2.1⟩

/-! ### DECSTBM as a token -/

/-- `CSI r`, `CSI t r`, `CSI t ; b r` never report anything and change nothing but the margins
    of the active buffer (grid and cursor in particular: this emulator does not home the cursor) -/
theorem decstbm_frame (cw : Nat → Nat) (t : Term) (ps : List Int) :
    let s := t.scr
    let r := Term.apply cw t (.csi 0 ps true 0x72)
    let s' := r.1.scr
    r.2 = [] ∧ s'.grid = s.grid ∧ s'.cx = s.cx ∧ s'.cy = s.cy ∧ s'.w = s.w ∧ s'.h = s.h ∧
    s'.sty = s.sty := by
  intro s r s'
  have e : s' = s.setMargins (pAt ps 0 1 - 1) (pAt ps 1 s.h - 1) := by
    simp only [s', r, stbm_dispatch, scr_setScr, s]
  have a := setMargins_attrs s (pAt ps 0 1 - 1) (pAt ps 1 s.h - 1)
  rw [e]
  exact ⟨by simp only [r, stbm_dispatch], a.2.2.1, a.2.2.2.1, a.2.2.2.2.1, a.1, a.2.1,
    a.2.2.2.2.2.2.2.2⟩

/-- **defaults 1 and `h`**: `CSI r` selects the whole screen, `CSI a r` the rows from `a` to the
    last one -/
theorem decstbm_default (cw : Nat → Nat) (t : Term) (hpos : 0 < t.scr.h) :
    (Term.apply cw t (.csi 0 [] true 0x72)).1.scr.top = 0 ∧
    (Term.apply cw t (.csi 0 [] true 0x72)).1.scr.bot = t.scr.h - 1 ∧
    ∀ a : Int, 1 ≤ a → a ≤ t.scr.h →
      ((Term.apply cw t (.csi 0 [a] true 0x72)).1.scr.top : Int) = a - 1 ∧
      (Term.apply cw t (.csi 0 [a] true 0x72)).1.scr.bot = t.scr.h - 1 := by
  simp only [stbm_dispatch, scr_setScr]
  have p1 : pAt [] 0 1 = 1 := by simp [pAt]
  have p2 : pAt [] 1 (t.scr.h : Int) = t.scr.h := by simp [pAt]
  refine ⟨?_, ?_, ?_⟩
  · rw [p1, p2]
    have hle : (1 : Int) - 1 ≤ (t.scr.h : Int) - 1 := by omega
    rw [(stbm_sets _ _ _ hle).1]; unfold clampNat; omega
  · rw [p1, p2]
    have hle : (1 : Int) - 1 ≤ (t.scr.h : Int) - 1 := by omega
    rw [(stbm_sets _ _ _ hle).2]; unfold clampNat; omega
  · intro a h1 h2
    have q1 : pAt [a] 0 1 = a := by simp [pAt]
    have q2 : pAt [a] 1 (t.scr.h : Int) = t.scr.h := by simp [pAt]
    rw [q1, q2]
    have hle : a - 1 ≤ (t.scr.h : Int) - 1 := by omega
    rw [(stbm_sets _ _ _ hle).1, (stbm_sets _ _ _ hle).2]; unfold clampNat; omega

/-- **a valid pair** `1 ≤ a ≤ b ≤ h` (1-based, as on the wire) is installed 0-based -/
theorem decstbm_valid (cw : Nat → Nat) (t : Term) (a b : Int) (h1 : 1 ≤ a) (h2 : a ≤ b)
    (h3 : b ≤ t.scr.h) :
    ((Term.apply cw t (.csi 0 [a, b] true 0x72)).1.scr.top : Int) = a - 1 ∧
    ((Term.apply cw t (.csi 0 [a, b] true 0x72)).1.scr.bot : Int) = b - 1 := by
  simp only [stbm_dispatch, scr_setScr]
  have q1 : pAt [a, b] 0 1 = a := by simp [pAt]
  have q2 : pAt [a, b] 1 (t.scr.h : Int) = b := by simp [pAt]
  rw [q1, q2]
  have hle : a - 1 ≤ b - 1 := by omega
  rw [(stbm_sets _ _ _ hle).1, (stbm_sets _ _ _ hle).2]; unfold clampNat; omega

/-- **an inverted pair is ignored**: whenever the requested top lies below the requested
    bottom the terminal is exactly what it was — `CSI 5 ; 3 r` on any screen, and also
    `CSI 30 ; 20 r` on a screen of 5 rows (both beyond the screen) -/
theorem decstbm_inverted (cw : Nat → Nat) (t : Term) (a b : Int) (hinv : b < a) :
    Term.apply cw t (.csi 0 [a, b] true 0x72) = (t, []) := by
  have q1 : pAt [a, b] 0 1 = a := by simp [pAt]
  have q2 : pAt [a, b] 1 (t.scr.h : Int) = b := by simp [pAt]
  rw [stbm_dispatch, q1, q2, stbm_inverted_ignored_raw _ _ _ (by omega), setScr_scr]

/-- a pair reaching beyond the screen is clamped, not rejected: bottom ≥ h means the last row -/
theorem decstbm_out_of_range (cw : Nat → Nat) (t : Term) (a b : Int)
    (h3 : (t.scr.h : Int) ≤ b) (hle : a ≤ b) :
    (Term.apply cw t (.csi 0 [a, b] true 0x72)).1.scr.top = min (a - 1).toNat (t.scr.h - 1) ∧
    (Term.apply cw t (.csi 0 [a, b] true 0x72)).1.scr.bot = t.scr.h - 1 := by
  simp only [stbm_dispatch, scr_setScr]
  have q1 : pAt [a, b] 0 1 = a := by simp [pAt]
  have q2 : pAt [a, b] 1 (t.scr.h : Int) = b := by simp [pAt]
  rw [q1, q2]
  exact stbm_out_of_range _ _ _ (by omega) (by omega)

/-! ### LF, FF, IND, RI as tokens -/

theorem lf_dispatch (cw : Nat → Nat) (t : Term) :
    Term.apply cw t (.ctl 10) = t.withScr ({ t.scr with cx := 0 } : Scr).lineDown := by
  simp [Term.apply]

theorem ind_ff_dispatch (cw : Nat → Nat) (t : Term) (tok : Tok)
    (ht : tok = .ctl 12 ∨ tok = .esc [] 0x44) :
    Term.apply cw t tok = t.withScr t.scr.lineDown := by
  rcases ht with rfl | rfl <;> simp [Term.apply]

theorem ri_dispatch (cw : Nat → Nat) (t : Term) :
    Term.apply cw t (.esc [] 0x4d) = t.withScr t.scr.lineUp := by
  simp [Term.apply]

theorem withScr_scr (t : Term) (s : Scr) :
    (t.withScr s).1.scr = s ∧ (t.withScr s).2 = [.cursor s.cx s.cy] := by
  simp [Term.withScr, scr_setScr]

/-- **LF on the bottom margin**: the region scrolls up one row (row `y` ← old row `y+1`, bottom
    row blank in the current rendition), rows outside the region are the old rows, the cursor goes
    to column 0 of the same row -/
theorem lf_scrolls (cw : Nat → Nat) (t : Term) (ok : RegionOK t.scr) (hc : t.scr.cy = t.scr.bot)
    (y : Nat) :
    let s := t.scr
    let r := Term.apply cw t (.ctl 10)
    let s' := r.1.scr
    s'.cx = 0 ∧ s'.cy = s.cy ∧ s'.grid.length = s.grid.length ∧
    s'.grid[y]? = (if y < s.top ∨ s.bot < y then s.grid[y]?
                   else if y < s.bot then s.grid[y + 1]? else some (blankRow s.w s.sty)) ∧
    s'.top = s.top ∧ s'.bot = s.bot ∧ s'.sty = s.sty ∧ r.2 = [.cursor 0 s.cy] := by
  intro s r s'
  have ok0 : RegionOK ({ s with cx := 0 } : Scr) := ok
  have e : s' = ({ s with cx := 0 } : Scr).lineDown := by
    simp only [s', r, lf_dispatch, withScr_scr, s]
  have a := lineDown_attrs ({ s with cx := 0 } : Scr)
  have b := lineDown_scrolls ({ s with cx := 0 } : Scr) ok0 hc y
  have ev : r.2 = [.cursor s'.cx s'.cy] := by
    simp only [s', r, lf_dispatch, withScr_scr]
  rw [ev, e]
  exact ⟨a.2.2.1, b.1, b.2.1, b.2.2, a.2.2.2.2.2.1, a.2.2.2.2.2.2.1, a.2.2.2.2.2.2.2.2,
    by rw [a.2.2.1, b.1]⟩

/-- **LF anywhere else**: no row changes; the cursor goes to column 0 of the next row, or stays
    on its row when that is the last row of the screen -/
theorem lf_moves (cw : Nat → Nat) (t : Term) (hc : t.scr.cy ≠ t.scr.bot) :
    let s := t.scr
    let r := Term.apply cw t (.ctl 10)
    let s' := r.1.scr
    s'.cx = 0 ∧ s'.cy = (if s.cy + 1 < s.h then s.cy + 1 else s.cy) ∧ s'.grid = s.grid ∧
    s'.top = s.top ∧ s'.bot = s.bot ∧ s'.sty = s.sty ∧ r.2 = [.cursor 0 s'.cy] := by
  intro s r s'
  have e : s' = ({ s with cx := 0 } : Scr).lineDown := by
    simp only [s', r, lf_dispatch, withScr_scr, s]
  have a := lineDown_attrs ({ s with cx := 0 } : Scr)
  have b := lineDown_moves ({ s with cx := 0 } : Scr) hc
  have ev : r.2 = [.cursor s'.cx s'.cy] := by
    simp only [s', r, lf_dispatch, withScr_scr]
  rw [ev, e]
  exact ⟨a.2.2.1, b.2, b.1, a.2.2.2.2.2.1, a.2.2.2.2.2.2.1, a.2.2.2.2.2.2.2.2, by rw [a.2.2.1]⟩

/-- **IND (`ESC D`) and FF on the bottom margin**: as LF, the column is kept -/
theorem ind_ff_scrolls (cw : Nat → Nat) (t : Term) (tok : Tok)
    (ht : tok = .ctl 12 ∨ tok = .esc [] 0x44) (ok : RegionOK t.scr) (hc : t.scr.cy = t.scr.bot)
    (y : Nat) :
    let s := t.scr
    let r := Term.apply cw t tok
    let s' := r.1.scr
    s'.cx = s.cx ∧ s'.cy = s.cy ∧ s'.grid.length = s.grid.length ∧
    s'.grid[y]? = (if y < s.top ∨ s.bot < y then s.grid[y]?
                   else if y < s.bot then s.grid[y + 1]? else some (blankRow s.w s.sty)) ∧
    s'.top = s.top ∧ s'.bot = s.bot ∧ s'.sty = s.sty ∧ r.2 = [.cursor s.cx s.cy] := by
  intro s r s'
  have e : s' = s.lineDown := by
    simp only [s', r, ind_ff_dispatch cw t tok ht, withScr_scr, s]
  have a := lineDown_attrs s
  have b := lineDown_scrolls s ok hc y
  have ev : r.2 = [.cursor s'.cx s'.cy] := by
    simp only [s', r, ind_ff_dispatch cw t tok ht, withScr_scr]
  rw [ev, e]
  exact ⟨a.2.2.1, b.1, b.2.1, b.2.2, a.2.2.2.2.2.1, a.2.2.2.2.2.2.1, a.2.2.2.2.2.2.2.2,
    by rw [a.2.2.1, b.1]⟩

/-- **IND and FF anywhere else**: no row changes, the cursor moves down unless on the last row -/
theorem ind_ff_moves (cw : Nat → Nat) (t : Term) (tok : Tok)
    (ht : tok = .ctl 12 ∨ tok = .esc [] 0x44) (hc : t.scr.cy ≠ t.scr.bot) :
    let s := t.scr
    let r := Term.apply cw t tok
    let s' := r.1.scr
    s'.cx = s.cx ∧ s'.cy = (if s.cy + 1 < s.h then s.cy + 1 else s.cy) ∧ s'.grid = s.grid ∧
    s'.top = s.top ∧ s'.bot = s.bot ∧ s'.sty = s.sty ∧ r.2 = [.cursor s.cx s'.cy] := by
  intro s r s'
  have e : s' = s.lineDown := by
    simp only [s', r, ind_ff_dispatch cw t tok ht, withScr_scr, s]
  have a := lineDown_attrs s
  have b := lineDown_moves s hc
  have ev : r.2 = [.cursor s'.cx s'.cy] := by
    simp only [s', r, ind_ff_dispatch cw t tok ht, withScr_scr]
  rw [ev, e]
  exact ⟨a.2.2.1, b.2, b.1, a.2.2.2.2.2.1, a.2.2.2.2.2.2.1, a.2.2.2.2.2.2.2.2, by rw [a.2.2.1]⟩

/-- **RI (`ESC M`) on the top margin**: the region scrolls down one row (top row blank in the
    current rendition, row `y` ← old row `y-1`), rows outside the region are the old rows, the
    cursor stays -/
theorem ri_scrolls (cw : Nat → Nat) (t : Term) (ok : RegionOK t.scr) (hc : t.scr.cy = t.scr.top)
    (y : Nat) :
    let s := t.scr
    let r := Term.apply cw t (.esc [] 0x4d)
    let s' := r.1.scr
    s'.cx = s.cx ∧ s'.cy = s.cy ∧ s'.grid.length = s.grid.length ∧
    s'.grid[y]? = (if y < s.top ∨ s.bot < y then s.grid[y]?
                   else if y = s.top then some (blankRow s.w s.sty) else s.grid[y - 1]?) ∧
    s'.top = s.top ∧ s'.bot = s.bot ∧ s'.sty = s.sty ∧ r.2 = [.cursor s.cx s.cy] := by
  intro s r s'
  have e : s' = s.lineUp := by
    simp only [s', r, ri_dispatch, withScr_scr, s]
  have a := lineUp_attrs s
  have b := lineUp_scrolls s ok hc y
  have ev : r.2 = [.cursor s'.cx s'.cy] := by
    simp only [s', r, ri_dispatch, withScr_scr]
  rw [ev, e]
  exact ⟨a.2.2.1, b.1, b.2.1, b.2.2, a.2.2.2.2.2.1, a.2.2.2.2.2.2.1, a.2.2.2.2.2.2.2.2,
    by rw [a.2.2.1, b.1]⟩

/-- **RI anywhere else**: no row changes, the cursor moves up unless on row 0 -/
theorem ri_moves (cw : Nat → Nat) (t : Term) (hc : t.scr.cy ≠ t.scr.top) :
    let s := t.scr
    let r := Term.apply cw t (.esc [] 0x4d)
    let s' := r.1.scr
    s'.cx = s.cx ∧ s'.cy = s.cy - 1 ∧ s'.grid = s.grid ∧
    s'.top = s.top ∧ s'.bot = s.bot ∧ s'.sty = s.sty ∧ r.2 = [.cursor s.cx (s.cy - 1)] := by
  intro s r s'
  have e : s' = s.lineUp := by
    simp only [s', r, ri_dispatch, withScr_scr, s]
  have a := lineUp_attrs s
  have b := lineUp_moves s hc
  have ev : r.2 = [.cursor s'.cx s'.cy] := by
    simp only [s', r, ri_dispatch, withScr_scr]
  rw [ev, e]
  exact ⟨a.2.2.1, b.2, b.1, a.2.2.2.2.2.1, a.2.2.2.2.2.2.1, a.2.2.2.2.2.2.2.2,
    by rw [a.2.2.1, b.2]⟩

/-! ### autowrap (`Scr.put` with DECAWM on)

The model wraps eagerly: a character whose last cell lands on the last column is followed at once
by the `lineDown` (*late wrap*), and a wide character that does not fit in the rest of the row is
preceded by one (*early wrap*). Both are the `lineDown` of section 4. -/

/-- late wrap: writing a character that ends exactly on the last column (cursor not on the second
    half of a wide character under the span policy — that case belongs to C03) is "write the
    row, column 0, `lineDown`" -/
theorem put_autowrap (pol : WidePolicy) (s : Scr) (text : Bytes) (w0 : Nat)
    (hw : s.wrap = true) (hfit : s.cx + max w0 1 = s.w)
    (hk : (contAt (s.row s.cy) s.cx && pol == .keep) = false) :
    s.put pol text w0 =
      ({ s.setRow s.cy ((s.row s.cy).put s.cx text (max w0 1) s.sty) with cx := 0 } : Scr).lineDown := by
  have h1 : ¬ max w0 1 > s.w := by omega
  have h2 : ¬ s.cx + max w0 1 > s.w := by omega
  unfold Scr.put
  simp only [h1, if_false, h2, hk]
  simp [Scr.setRow, hfit, hw]

/-- **autowrap on the bottom margin**: the region scrolls up one row carrying the row just
    written (now at `bot - 1` if the region has more than one row), the bottom row is blank in
    the current rendition, rows outside the region are the old rows, the cursor is at column 0 of
    the bottom margin -/
theorem autowrap_scrolls (pol : WidePolicy) (s : Scr) (text : Bytes) (w0 : Nat) (ok : RegionOK s)
    (hw : s.wrap = true) (hfit : s.cx + max w0 1 = s.w)
    (hk : (contAt (s.row s.cy) s.cx && pol == .keep) = false) (hc : s.cy = s.bot) (y : Nat) :
    let s' := s.put pol text w0
    s'.cx = 0 ∧ s'.cy = s.cy ∧ s'.grid.length = s.grid.length ∧
    s'.grid[y]? = (if y < s.top ∨ s.bot < y then s.grid[y]?
                   else if y + 1 < s.bot then s.grid[y + 1]?
                   else if y + 1 = s.bot then some ((s.row s.cy).put s.cx text (max w0 1) s.sty)
                   else some (blankRow s.w s.sty)) ∧
    s'.top = s.top ∧ s'.bot = s.bot ∧ s'.sty = s.sty := by
  intro s'
  have e : s' = _ := put_autowrap pol s text w0 hw hfit hk
  generalize hs2 : ({ s.setRow s.cy ((s.row s.cy).put s.cx text (max w0 1) s.sty) with cx := 0 } : Scr) = s2 at e
  have g2 : s2.grid = s.grid.set s.cy ((s.row s.cy).put s.cx text (max w0 1) s.sty) := by
    rw [← hs2]; rfl
  have f2 : s2.w = s.w ∧ s2.h = s.h ∧ s2.cx = 0 ∧ s2.cy = s.cy ∧ s2.top = s.top ∧ s2.bot = s.bot ∧
      s2.sty = s.sty := by rw [← hs2]; simp [Scr.setRow]
  obtain ⟨fw, fh, fx, fy, ft, fb, fs⟩ := f2
  have ok2 : RegionOK s2 := by
    unfold RegionOK; rw [g2, fh, ft, fb, List.length_set]; exact ok
  have a := lineDown_attrs s2
  have b := lineDown_scrolls s2 ok2 (by rw [fy, fb]; exact hc) y
  rw [e]
  refine ⟨by rw [a.2.2.1, fx], by rw [b.1, fy], by rw [b.2.1, g2, List.length_set], ?_,
    by rw [a.2.2.2.2.2.1, ft], by rw [a.2.2.2.2.2.2.1, fb], by rw [a.2.2.2.2.2.2.2.2, fs]⟩
  rw [b.2.2, ft, fb, fw, fs, g2, List.getElem?_set, List.getElem?_set]
  have hb : s.bot < s.grid.length := by rw [ok.1]; exact ok.2.2
  have h12 : s.top ≤ s.bot := ok.2.1
  by_cases c : y < s.top ∨ s.bot < y
  · have : ¬ s.cy = y := by omega
    simp [c, this]
  · rw [if_neg c, if_neg c]
    by_cases c1 : y + 1 < s.bot
    · have c2 : y < s.bot := by omega
      have c3 : ¬ s.cy = y + 1 := by omega
      simp [c1, c2, c3]
    · by_cases c2 : y + 1 = s.bot
      · have c3 : y < s.bot := by omega
        have c4 : s.cy = y + 1 := by omega
        have c5 : y + 1 < s.grid.length := by omega
        simp [c2, c3, c4]
        omega
      · have c3 : ¬ y < s.bot := by omega
        simp [c1, c2, c3]

/-- **autowrap anywhere else**: only the written row changes, nothing scrolls; the cursor goes to
    column 0 of the next row (or stays on the last row of the screen) -/
theorem autowrap_moves (pol : WidePolicy) (s : Scr) (text : Bytes) (w0 : Nat)
    (hw : s.wrap = true) (hfit : s.cx + max w0 1 = s.w)
    (hk : (contAt (s.row s.cy) s.cx && pol == .keep) = false) (hc : s.cy ≠ s.bot) :
    let s' := s.put pol text w0
    s'.cx = 0 ∧ s'.cy = (if s.cy + 1 < s.h then s.cy + 1 else s.cy) ∧
    s'.grid = s.grid.set s.cy ((s.row s.cy).put s.cx text (max w0 1) s.sty) := by
  intro s'
  have e : s' = _ := put_autowrap pol s text w0 hw hfit hk
  have a := lineDown_attrs ({ s.setRow s.cy ((s.row s.cy).put s.cx text (max w0 1) s.sty) with cx := 0 } : Scr)
  have b := lineDown_moves ({ s.setRow s.cy ((s.row s.cy).put s.cx text (max w0 1) s.sty) with cx := 0 } : Scr) hc
  rw [e]
  exact ⟨a.2.2.1, b.2, b.1⟩

/-- early wrap: a character that fits on the screen but not in the rest of the row is written
    after a `lineDown` from column 0 — so the scroll it may cause is the one of `lineDown_scrolls`
    and happens before the write -/
theorem put_early_wrap (pol : WidePolicy) (s : Scr) (text : Bytes) (w0 : Nat)
    (hw : s.wrap = true) (hfit : max w0 1 ≤ s.w) (hover : s.cx + max w0 1 > s.w) :
    s.put pol text w0 = (({ s with cx := 0 } : Scr).lineDown).put pol text w0 := by
  have a := lineDown_attrs ({ s with cx := 0 } : Scr)
  generalize hs1 : ({ s with cx := 0 } : Scr).lineDown = s1 at a
  have aw : s1.w = s.w := a.1
  have ac : s1.cx = 0 := a.2.2.1
  have h1 : ¬ max w0 1 > s.w := by omega
  have h1' : ¬ max w0 1 > s1.w := by omega
  have h2 : ¬ s1.cx + max w0 1 > s1.w := by omega
  unfold Scr.put
  simp only [h1, if_false, hover, if_true]
  rw [if_pos hw]
  simp only [hs1, h1', h2, if_false]

/-- the three stages of `Scr.put`: optional early wrap, write one row, advance / late wrap -/
theorem put_shape (pol : WidePolicy) (s : Scr) (text0 : Bytes) (w0 : Nat) :
    ∃ (s1 : Scr) (r' : Row) (x : Nat),
      (s1 = s ∨ (s.wrap = true ∧ s1 = ({ s with cx := 0 } : Scr).lineDown) ∨
        (s.wrap = false ∧ ∃ c, s1 = { s with cx := c })) ∧
      s.put pol text0 w0 =
        (if x < (s1.setRow s1.cy r').w then { s1.setRow s1.cy r' with cx := x }
         else if (s1.setRow s1.cy r').wrap then
           ({ s1.setRow s1.cy r' with cx := x - (s1.setRow s1.cy r').w } : Scr).lineDown
         else { s1.setRow s1.cy r' with cx := (s1.setRow s1.cy r').w - 1 }) := by
  unfold Scr.put
  refine ⟨_, _, _, ?_, rfl⟩
  generalize (if max w0 1 > s.w then 1 else max w0 1) = w
  by_cases c : s.cx + w > s.w
  · rw [if_pos c]
    cases hw : s.wrap
    · right; right; exact ⟨rfl, s.w - w, by simp⟩
    · right; left; exact ⟨rfl, by simp⟩
  · rw [if_neg c]; left; rfl

theorem lineDown_length (s : Scr) (hlen : s.grid.length = s.h) :
    s.lineDown.grid.length = s.grid.length := by
  unfold Scr.lineDown
  split
  · exact scroll_length s _ _ _ hlen
  · split <;> rfl

/-- `lineDown` leaves the cursor on its row or moves it to the next one -/
theorem lineDown_cy (s : Scr) : s.lineDown.cy = s.cy ∨ s.lineDown.cy = s.cy + 1 := by
  unfold Scr.lineDown
  split
  · left; exact (scroll_attrs s _ _ _).2.2.2.1
  · split
    · right; rfl
    · left; rfl

/-- **frame for output with autowrap** — every policy, every character width, wrap on or off,
    early or late wrap: a row outside the scrolling region that is neither the cursor row nor the
    one below it (the only rows a character can be written to) is never modified, and the number
    of rows never changes -/
theorem put_frame (pol : WidePolicy) (s : Scr) (text : Bytes) (w0 : Nat)
    (hlen : s.grid.length = s.h) (y : Nat) (hy : y < s.top ∨ s.bot < y)
    (hy1 : y ≠ s.cy) (hy2 : y ≠ s.cy + 1) :
    (s.put pol text w0).grid[y]? = s.grid[y]? ∧
    (s.put pol text w0).grid.length = s.grid.length := by
  obtain ⟨s1, r', x, h1, e⟩ := put_shape pol s text w0
  rw [e]
  have f1 : s1.grid[y]? = s.grid[y]? ∧ s1.grid.length = s.grid.length ∧ s1.h = s.h ∧
      s1.top = s.top ∧ s1.bot = s.bot ∧ (s1.cy = s.cy ∨ s1.cy = s.cy + 1) := by
    rcases h1 with rfl | ⟨_, rfl⟩ | ⟨_, c, rfl⟩
    · exact ⟨rfl, rfl, rfl, rfl, rfl, Or.inl rfl⟩
    · have a := lineDown_attrs ({ s with cx := 0 } : Scr)
      exact ⟨lineDown_frame ({ s with cx := 0 } : Scr) hlen y hy,
        lineDown_length ({ s with cx := 0 } : Scr) hlen, a.2.1, a.2.2.2.2.2.1, a.2.2.2.2.2.2.1,
        lineDown_cy ({ s with cx := 0 } : Scr)⟩
    · exact ⟨rfl, rfl, rfl, rfl, rfl, Or.inl rfl⟩
  obtain ⟨g1, l1, hh1, t1, b1, c1⟩ := f1
  have ne : ¬ s1.cy = y := by omega
  generalize hs2 : s1.setRow s1.cy r' = s2
  have f2 : s2.grid[y]? = s.grid[y]? ∧ s2.grid.length = s.grid.length ∧ s2.h = s.h ∧
      s2.top = s.top ∧ s2.bot = s.bot := by
    rw [← hs2]
    simp only [Scr.setRow, List.getElem?_set, List.length_set, if_neg ne]
    exact ⟨g1, l1, hh1, t1, b1⟩
  obtain ⟨g2, l2, hh2, t2, b2⟩ := f2
  split
  · exact ⟨g2, l2⟩
  · split
    · have hl : ({ s2 with cx := x - s2.w } : Scr).grid.length = ({ s2 with cx := x - s2.w } : Scr).h := by
        show s2.grid.length = s2.h
        rw [l2, hh2, hlen]
      refine ⟨?_, ?_⟩
      · rw [lineDown_frame _ hl y (by show y < s2.top ∨ s2.bot < y; rw [t2, b2]; exact hy)]
        exact g2
      · rw [lineDown_length _ hl]; exact l2
    · exact ⟨g2, l2⟩

/-- **with DECAWM off nothing ever scrolls on output**: every row but the cursor row is the old
    row and the cursor stays on its row -/
theorem put_nowrap_frame (pol : WidePolicy) (s : Scr) (text : Bytes) (w0 : Nat)
    (hw : s.wrap = false) (y : Nat) (hy : y ≠ s.cy) :
    (s.put pol text w0).grid[y]? = s.grid[y]? ∧ (s.put pol text w0).cy = s.cy := by
  have hy' : ¬ s.cy = y := fun h => hy h.symm
  obtain ⟨s1, r', x, h1, e⟩ := put_shape pol s text w0
  rw [e]
  have f1 : s1.grid = s.grid ∧ s1.cy = s.cy ∧ s1.wrap = false := by
    rcases h1 with rfl | ⟨h, _⟩ | ⟨_, c, rfl⟩
    · exact ⟨rfl, rfl, hw⟩
    · rw [hw] at h; exact absurd h (by decide)
    · exact ⟨rfl, rfl, hw⟩
  obtain ⟨g1, c1, w1⟩ := f1
  have hw2 : (s1.setRow s1.cy r').wrap = false := w1
  rw [hw2]
  simp only [Bool.false_eq_true, if_false]
  split <;> simp [Scr.setRow, g1, c1, hy']

/-! ## 5. the full invariant `Scr.inv` is kept

so the vacated rows are well-formed rows of the right width, and every hypothesis used above
(`RegionOK`) holds again after the operation. -/

theorem inv_iff (s : Scr) : s.inv = true ↔
    (s.w ≥ 1 ∧ s.h ≥ 1 ∧ s.grid.length = s.h ∧ (∀ r ∈ s.grid, r.length = s.w ∧ rowWF r = true) ∧
     s.cx < s.w ∧ s.cy < s.h ∧ s.sx < s.w ∧ s.sy < s.h ∧ s.top ≤ s.bot ∧ s.bot < s.h) := by
  simp [Scr.inv, and_assoc]

theorem contAt_blankRow (w : Nat) (st : Style) (x : Nat) : contAt (blankRow w st) x = false := by
  unfold contAt blankRow
  rw [List.getElem?_replicate]
  by_cases c : x < w <;> simp [c, blank]

theorem rowWF_blankRow (w : Nat) (st : Style) : rowWF (blankRow w st) = true := by
  unfold rowWF
  rw [List.all_eq_true]
  intro i hi
  have hi' : i < w := by simpa [blankRow] using hi
  have e : (blankRow w st)[i]? = some (blank st) := by
    simp [blankRow, hi']
  rw [e]
  have hl : (blankRow w st).length = w := by simp [blankRow]
  simp [blank, contAt_blankRow, hl]
  omega

/-- a row of the grid after a scroll is an old row or the blank row -/
theorem scroll_mem (s : Scr) (y1 y2 : Nat) (d : Int) (r : Row)
    (hr : r ∈ (s.scroll y1 y2 d).grid) : r ∈ s.grid ∨ r = blankRow s.w s.sty := by
  by_cases h : y1 > y2 ∨ y2 ≥ s.h
  · rw [scroll_noop _ _ _ _ h] at hr; exact Or.inl hr
  · rw [scroll_grid s y1 y2 d (by omega) (by omega)] at hr
    simp only [List.mem_append] at hr
    rcases hr with (hr | hr) | hr
    · exact Or.inl (List.mem_of_mem_take hr)
    · split at hr
      · rcases List.mem_append.1 hr with h | h
        · exact Or.inr (List.eq_of_mem_replicate h)
        · exact Or.inl (List.mem_of_mem_drop (List.mem_of_mem_take (List.mem_of_mem_take h)))
      · rcases List.mem_append.1 hr with h | h
        · exact Or.inl (List.mem_of_mem_drop (List.mem_of_mem_take (List.mem_of_mem_drop h)))
        · exact Or.inr (List.eq_of_mem_replicate h)
    · exact Or.inl (List.mem_of_mem_drop hr)

/-- **`scroll` keeps the screen invariant** for every range and count -/
theorem scroll_inv (s : Scr) (y1 y2 : Nat) (d : Int) (h : s.inv = true) :
    (s.scroll y1 y2 d).inv = true := by
  rw [inv_iff] at h ⊢
  obtain ⟨hw, hh, hl, hr, h1, h2, h3, h4, h5, h6⟩ := h
  obtain ⟨aw, ah, ax, ay, asx, asy, at', ab, _, _⟩ := scroll_attrs s y1 y2 d
  rw [aw, ah, ax, ay, asx, asy, at', ab, scroll_length s y1 y2 d hl]
  refine ⟨hw, hh, hl, ?_, h1, h2, h3, h4, h5, h6⟩
  intro r hm
  rcases scroll_mem s y1 y2 d r hm with hm | rfl
  · exact hr r hm
  · exact ⟨by simp [blankRow], rowWF_blankRow _ _⟩

theorem lineDown_inv (s : Scr) (h : s.inv = true) : s.lineDown.inv = true := by
  unfold Scr.lineDown
  split
  · exact scroll_inv s _ _ _ h
  · split
    · rw [inv_iff] at h ⊢
      obtain ⟨hw, hh, hl, hr, h1, h2, h3, h4, h5, h6⟩ := h
      exact ⟨hw, hh, hl, hr, h1, by assumption, h3, h4, h5, h6⟩
    · exact h

theorem lineUp_inv (s : Scr) (h : s.inv = true) : s.lineUp.inv = true := by
  unfold Scr.lineUp
  split
  · exact scroll_inv s _ _ _ h
  · split
    · rw [inv_iff] at h ⊢
      obtain ⟨hw, hh, hl, hr, h1, h2, h3, h4, h5, h6⟩ := h
      exact ⟨hw, hh, hl, hr, h1, by show s.cy - 1 < s.h; omega, h3, h4, h5, h6⟩
    · exact h

theorem setMargins_inv (s : Scr) (t b : Int) (h : s.inv = true) : (s.setMargins t b).inv = true := by
  rw [inv_iff] at h ⊢
  obtain ⟨hw, hh, hl, hr, h1, h2, h3, h4, h5, h6⟩ := h
  obtain ⟨aw, ah, ag, ax, ay, asx, asy, _, _⟩ := setMargins_attrs s t b
  have m := setMargins_wf s t b ⟨h5, h6⟩
  rw [ah] at m
  rw [aw, ah, ag, ax, ay, asx, asy]
  exact ⟨hw, hh, hl, hr, h1, h2, h3, h4, m.1, m.2⟩

/-- **every token of this property keeps the invariant of the active buffer**: SU, SD, IL, DL,
    DECSTBM with arbitrary parameter lists, LF, FF, IND, RI -/
theorem tokens_inv (cw : Nat → Nat) (t : Term) (tok : Tok)
    (ht : (∃ ps fin, (fin = 0x4c ∨ fin = 0x4d ∨ fin = 0x53 ∨ fin = 0x54 ∨ fin = 0x72) ∧
              tok = .csi 0 ps true fin) ∨
          tok = .ctl 10 ∨ tok = .ctl 12 ∨ tok = .esc [] 0x44 ∨ tok = .esc [] 0x4d)
    (h : t.scr.inv = true) : (Term.apply cw t tok).1.scr.inv = true := by
  rcases ht with ⟨ps, fin, hf, rfl⟩ | rfl | rfl | rfl | rfl
  · rcases hf with rfl | rfl | rfl | rfl | rfl
    · cases hr : t.scr.inRegion
      · have : Term.apply cw t (.csi 0 ps true 0x4c) = (t, []) := by
          simp [Term.apply, Term.csi, Term.csiPlain, hr]
        rw [this]; exact h
      · rw [il_dispatch cw t ps hr, scr_setScr]; exact scroll_inv _ _ _ _ h
    · cases hr : t.scr.inRegion
      · have : Term.apply cw t (.csi 0 ps true 0x4d) = (t, []) := by
          simp [Term.apply, Term.csi, Term.csiPlain, hr]
        rw [this]; exact h
      · rw [dl_dispatch cw t ps hr, scr_setScr]; exact scroll_inv _ _ _ _ h
    · rw [su_dispatch, scr_setScr]; exact scroll_inv _ _ _ _ h
    · rw [sd_dispatch, scr_setScr]; exact scroll_inv _ _ _ _ h
    · rw [stbm_dispatch, scr_setScr]; exact setMargins_inv _ _ _ h
  · rw [lf_dispatch, (withScr_scr _ _).1]
    apply lineDown_inv
    rw [inv_iff] at h ⊢
    obtain ⟨hw, hh, hl, hr, h1, h2, h3, h4, h5, h6⟩ := h
    exact ⟨hw, hh, hl, hr, hw, h2, h3, h4, h5, h6⟩
  · rw [ind_ff_dispatch cw t _ (Or.inl rfl), (withScr_scr _ _).1]; exact lineDown_inv _ h
  · rw [ind_ff_dispatch cw t _ (Or.inr rfl), (withScr_scr _ _).1]; exact lineDown_inv _ h
  · rw [ri_dispatch, (withScr_scr _ _).1]; exact lineUp_inv _ h

/-! ## non-vacuity: a 3-column, 5-row screen with rows `a`…`e`, margins 1..3 (0-based) -/
namespace Demo

def rowOf (c : UInt8) : Row := List.replicate 3 ⟨.ch [c] 1, Style.default⟩
def bl : Row := blankRow 3 Style.default

/-- cursor on the bottom margin, last column, DECAWM on -/
def demo : Scr :=
  { Scr.init 3 5 with grid := [rowOf 0x61, rowOf 0x62, rowOf 0x63, rowOf 0x64, rowOf 0x65],
                      top := 1, bot := 3, cx := 2, cy := 3, wrap := true }
/-- the same with the cursor above the region -/
def demoOut : Scr := { demo with cy := 0 }
def demoT : Term := { Term.init .blank 3 5 with main := demo }
def demoOutT : Term := { Term.init .keep 3 5 with main := demoOut }
def cw1 : Nat → Nat := fun _ => 1

example : demo.inv = true := by decide
example : demoOut.inv = true := by decide
example : RegionOK demoT.scr := RegionOK_of_inv _ (by decide)

-- the model computes what the theorems say
example : (demo.scroll 1 3 (-1)).grid = [rowOf 0x61, rowOf 0x63, rowOf 0x64, bl, rowOf 0x65] := by decide
example : (demo.scroll 1 3 2).grid = [rowOf 0x61, bl, bl, rowOf 0x62, rowOf 0x65] := by decide
example : (demo.scroll 1 3 3).grid = [rowOf 0x61, bl, bl, bl, rowOf 0x65] := by decide
example : (demo.scroll 1 3 (-2147483647)).grid = [rowOf 0x61, bl, bl, bl, rowOf 0x65] := by decide
example : demo.scroll 1 3 0 = demo := by decide
example : demo.scroll 3 1 1 = demo ∧ demo.scroll 1 5 1 = demo := by decide
example : (Term.apply cw1 demoT (.csi 0 [2] true 0x53)).1.scr.grid =
    [rowOf 0x61, rowOf 0x64, bl, bl, rowOf 0x65] := by decide
example : (Term.apply cw1 demoT (.csi 0 [] true 0x54)).1.scr.grid =
    [rowOf 0x61, bl, rowOf 0x62, rowOf 0x63, rowOf 0x65] := by decide
example : (Term.apply cw1 demoT (.csi 0 [1] true 0x4c)).1.scr.grid =
    [rowOf 0x61, rowOf 0x62, rowOf 0x63, bl, rowOf 0x65] := by decide
example : (Term.apply cw1 demoOutT (.csi 0 [1] true 0x4d)).1.scr = demoOut := by decide
example : (Term.apply cw1 demoT (.ctl 10)).1.scr.grid =
    [rowOf 0x61, rowOf 0x63, rowOf 0x64, bl, rowOf 0x65] := by decide
example : (Term.apply cw1 demoT (.esc [] 0x4d)).1.scr.grid = demo.grid := by decide
example : (Term.apply cw1 demoT (.csi 0 [4, 2] true 0x72)).1.scr = demo := by decide
example : ((Term.apply cw1 demoT (.csi 0 [2, 3] true 0x72)).1.scr.top,
           (Term.apply cw1 demoT (.csi 0 [2, 3] true 0x72)).1.scr.bot) = (1, 2) := by decide
-- inverted although both margins lie beyond the screen: ignored (the margins stay 1..3)
example : ((Term.apply cw1 demoT (.csi 0 [9, 7] true 0x72)).1.scr.top,
           (Term.apply cw1 demoT (.csi 0 [9, 7] true 0x72)).1.scr.bot) = (1, 3) := by decide
example : ((Term.apply cw1 demoT (.csi 0 [7, 9] true 0x72)).1.scr.top,
           (Term.apply cw1 demoT (.csi 0 [7, 9] true 0x72)).1.scr.bot) = (4, 4) := by decide
example : (Term.apply cw1 demoT (.text [0x78] 0x78)).1.scr.grid =
    [rowOf 0x61, rowOf 0x63,
     [⟨.ch [0x64] 1, Style.default⟩, ⟨.ch [0x64] 1, Style.default⟩, ⟨.ch [0x78] 1, Style.default⟩],
     bl, rowOf 0x65] := by decide

-- the hypotheses of the theorems hold on these states (the theorems are not vacuous)
example := scroll_spec demo 1 3 (-2) (by decide) (by decide) (by decide) 2
example := scroll_big demo 1 3 (-5) (by decide) (by decide) (by decide) 2 (by decide) (by decide)
example := scroll_cell demo 1 3 1 (by decide) (by decide) 0 2 (by decide) (by decide)
example := su_rows cw1 demoT [2] (RegionOK_of_inv _ (by decide)) (by decide) 1
example := sd_rows cw1 demoT [] (RegionOK_of_inv _ (by decide)) (by decide) 2
example := il_rows cw1 demoT [1] (RegionOK_of_inv _ (by decide)) (by decide) (by decide) 3
example := dl_rows cw1 demoT [7] (RegionOK_of_inv _ (by decide)) (by decide) (by decide) 3
example := il_dl_outside cw1 demoOutT [3] 0x4c (Or.inl rfl) (by decide)
example := su_sd_big cw1 demoT [2147483647] 0x53 (Or.inl rfl) (RegionOK_of_inv _ (by decide))
  (by decide) 2 (by decide)
example := il_dl_big cw1 demoT [1] 0x4d (Or.inr rfl) (RegionOK_of_inv _ (by decide)) (by decide)
  (by decide) 3 (by decide)
example := stbm_inverted_ignored demo 3 1 (by decide)
example := decstbm_inverted cw1 demoT 4 2 (by decide)
example := decstbm_valid cw1 demoT 2 3 (by decide) (by decide) (by decide)
example := decstbm_out_of_range cw1 demoT 7 9 (by decide) (by decide)
example := lineDown_scrolls demo (RegionOK_of_inv _ (by decide)) (by decide) 2
example := lineDown_moves demoOut (by decide)
example := lineUp_scrolls { demo with cy := 1 } (RegionOK_of_inv _ (by decide)) (by decide) 2
example := lineUp_moves demo (by decide)
example := lf_scrolls cw1 demoT (RegionOK_of_inv _ (by decide)) (by decide) 2
example := lf_moves cw1 demoOutT (by decide)
example := ind_ff_scrolls cw1 demoT (.esc [] 0x44) (Or.inr rfl) (RegionOK_of_inv _ (by decide)) (by decide) 2
example := ri_scrolls cw1 { demoT with main := { demo with cy := 1 } } (RegionOK_of_inv _ (by decide))
  (by decide) 1
example := ri_moves cw1 demoT (by decide)
example := autowrap_scrolls .blank demo [0x78] 1 (RegionOK_of_inv _ (by decide)) (by decide)
  (by decide) (by decide) (by decide) 2
example := autowrap_moves .keep { demoOut with cx := 1 } [0xe4, 0xb8, 0x96] 2 (by decide) (by decide)
  (by decide) (by decide)
example := put_early_wrap .keep demo [0xe4, 0xb8, 0x96] 2 (by decide) (by decide) (by decide)
example := put_frame .keep demo [0xe4, 0xb8, 0x96] 2 (by decide) 0 (by decide) (by decide) (by decide)
example := put_nowrap_frame .keep { demo with wrap := false } [0x78] 1 (by decide) 1 (by decide)

end Demo

end TM.C06

#print axioms TM.C06.scroll_noop
#print axioms TM.C06.scroll_attrs
#print axioms TM.C06.scroll_length
#print axioms TM.C06.scroll_spec
#print axioms TM.C06.scroll_frame
#print axioms TM.C06.scroll_rows_down
#print axioms TM.C06.scroll_rows_up
#print axioms TM.C06.scroll_big
#print axioms TM.C06.scroll_clamp
#print axioms TM.C06.scroll_zero
#print axioms TM.C06.scroll_cell
#print axioms TM.C06.scroll_up_rows
#print axioms TM.C06.scroll_down_rows
#print axioms TM.C06.setMargins_attrs
#print axioms TM.C06.setMargins_wf
#print axioms TM.C06.stbm_inverted_iff
#print axioms TM.C06.stbm_inverted_ignored
#print axioms TM.C06.stbm_inverted_ignored_raw
#print axioms TM.C06.stbm_ignored_iff
#print axioms TM.C06.stbm_clamp_mono
#print axioms TM.C06.stbm_sets
#print axioms TM.C06.stbm_valid
#print axioms TM.C06.stbm_out_of_range
#print axioms TM.C06.lineDown_attrs
#print axioms TM.C06.lineUp_attrs
#print axioms TM.C06.lineDown_scrolls
#print axioms TM.C06.lineDown_moves
#print axioms TM.C06.lineDown_frame
#print axioms TM.C06.lineUp_scrolls
#print axioms TM.C06.lineUp_moves
#print axioms TM.C06.lineUp_frame
#print axioms TM.C06.su_rows
#print axioms TM.C06.sd_rows
#print axioms TM.C06.il_rows
#print axioms TM.C06.dl_rows
#print axioms TM.C06.il_dl_outside
#print axioms TM.C06.count_default
#print axioms TM.C06.count_zero
#print axioms TM.C06.su_sd_big
#print axioms TM.C06.il_dl_big
#print axioms TM.C06.scroll_ops_rest
#print axioms TM.C06.decstbm_frame
#print axioms TM.C06.decstbm_default
#print axioms TM.C06.decstbm_valid
#print axioms TM.C06.decstbm_inverted
#print axioms TM.C06.decstbm_out_of_range
#print axioms TM.C06.lf_scrolls
#print axioms TM.C06.lf_moves
#print axioms TM.C06.ind_ff_scrolls
#print axioms TM.C06.ind_ff_moves
#print axioms TM.C06.ri_scrolls
#print axioms TM.C06.ri_moves
#print axioms TM.C06.autowrap_scrolls
#print axioms TM.C06.autowrap_moves
#print axioms TM.C06.put_early_wrap
#print axioms TM.C06.put_frame
#print axioms TM.C06.put_nowrap_frame
#print axioms TM.C06.scroll_inv
#print axioms TM.C06.lineDown_inv
#print axioms TM.C06.lineUp_inv
#print axioms TM.C06.setMargins_inv
#print axioms TM.C06.tokens_inv
