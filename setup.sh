#!/bin/sh
# Build the framework from files on disk only (offline).
set -e
cd "$(dirname "$0")"
export GOFLAGS=-mod=mod GOPROXY=off GOSUMDB=off GOTOOLCHAIN=local
mkdir -p build evidence replays
(cd lean && lake build TM drv && for f in Props/C*.lean; do lake build Props.$(basename $f .lean) || true; done)
(cd harness && cp /repo/go.sum . 2>/dev/null || true; go build -tags verif -o ../build/verifh-setup . && rm -f ../build/verifh-setup)
(cd tools/lockextract && go build -o ../../build/lockextract .)
echo setup done
